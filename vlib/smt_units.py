"""E2 (mir2smt) units: callables `unit(ctx)` registered in a property's "smt" list.

Each unit regenerates everything from the current working tree of the repository: scratch copy ->
`cargo +nightly rustc -- -Zunpretty=mir` -> SMT-LIB encodings -> translator validation against the
natively executed real functions -> cvc5 (z3 cross-check) -> native replay of any model."""
import concurrent.futures
import os
import time
import traceback

from mir2smt import Unsupported, engine, driver, summaries, smt
from mir2smt.program import Program
from .tree import Inconclusive


def _log(ctx, msg):
    driver.say("[%s] smt: %s" % (ctx.prop, msg))


def _jobs():
    return min(4, max(1, int(os.environ.get("VERIF_JOBS", "4"))))


class _Unit:
    """Common plumbing: scratch tree, MIR dumps, native crate(s)."""

    def __init__(self, ctx, name):
        smt.set_parallelism(_jobs())
        self.ctx = ctx
        self.dir = os.path.join(ctx.scratch, "smt-" + name)
        os.makedirs(self.dir, exist_ok=True)
        self.tree = engine.prepare_tree(self.dir)
        self.natives = {}

    def mir(self, crate_dir, default_features=False, tdir="t-mir"):
        text, secs = engine.dump_mir(self.tree, crate_dir, os.path.join(self.dir, tdir), default_features,
                                     log=os.path.join(self.dir, "mir-%s.log" % crate_dir.replace("/", "_")))
        _log(self.ctx, "MIR of %s dumped in %.0fs (%d lines)" % (crate_dir, secs, text.count("\n")))
        return text

    def native(self, key, deps, append=None):
        """One native crate per (deps, appended text) combination; built lazily, reused for replays."""
        if key not in self.natives:
            tree = self.tree
            if append:
                # private items are reached through wrappers appended to a *second* copy of the tree (add-only)
                tdir = os.path.join(self.dir, "tree-" + key)
                if not os.path.exists(tdir):
                    import shutil
                    shutil.copytree(self.tree, tdir, symlinks=True)
                    for f, text in append:
                        with open(os.path.join(tdir, f), "a", encoding="utf-8") as fh:
                            fh.write("\n" + text)
                tree = tdir
            self.natives[key] = engine.NativeCrate(os.path.join(self.dir, "native-" + key), tree, deps, name="m2s_" + key)
        return self.natives[key]


def _fail_all(ctx, names, why):
    for n in names:
        ctx.smt.append({"obligation": n, "functions": [], "status": "inconclusive", "solver": smt.solver_version("cvc5"),
                        "cross_check": "not run", "solver_s": 0.0, "queries": 0, "witness_ok": False, "bounds": "",
                        "model": None, "reasons": [why[:600]]})
    ctx.inconclusive.append("smt: %s" % why[:800])


def _validate_all(ctx, u, encs, vectors, problems):
    """Translator validation of every encoding (in parallel): pinned inputs vs the native run."""
    validations = {}
    todo = []
    for n, e in encs.items():
        if e.error:
            continue
        if problems:
            validations[n] = (False, 0, problems)
        elif not vectors.get(n):
            validations[n] = (False, 0, ["no validation vectors for encoding %s" % n])
        else:
            todo.append((n, e))

    def one(ne):
        n, e = ne
        ok, cnt, mism, secs = engine.validate(e, vectors[n], os.path.join(u.dir, "validate"))
        _log(ctx, "translator validation %-6s %d/%d vectors agree with the native run (%.1fs)%s" % (
            n, cnt - len(mism), len(vectors[n]), secs, "" if ok else " MISMATCH: " + "; ".join(mism[:3])))
        return n, (ok, cnt, mism)

    # solver processes are bounded globally (smt.set_parallelism); the pool only needs to be wide enough
    with concurrent.futures.ThreadPoolExecutor(max_workers=max(1, len(todo))) as pool:
        for n, v in pool.map(one, todo):
            validations[n] = v
    return validations


# ---------------------------------------------------------------- C15: calendar arithmetic

C15_NAMES = ["O1_to_parts_panic_free", "O2_to_parts_field_ranges", "O3_round_trip", "O4_to_parts_monotone",
             "O5_from_parts_total_on_parser_range"]


def unit_calendar(ctx):
    from mir2smt import calendar_ob as cal
    t0 = time.time()
    try:
        u = _Unit(ctx, "calendar")
        nat = u.native("core", [("core", [], False)])
        with concurrent.futures.ThreadPoolExecutor(max_workers=2) as pool:
            f_mir = pool.submit(u.mir, "core")
            f_nat = pool.submit(nat.run, cal.native_main())
            mir = f_mir.result()
            rc, out, err = f_nat.result()
        if rc != 0:
            raise engine.EngineError("native validation program failed (rc=%s): %s" % (rc, err[-500:]))
        P = Program(u.tree)
        P.add_dump(mir, "emit_core")
        encs = cal.build_encodings(P)
        for n, e in encs.items():
            _log(ctx, "encoding %-5s %s" % (n, e.error or "%d SMT lines, %d division lemmas, %d panic obligations, %s" % (
                len(e.S.lines), e.S.n_divlemmas, len(e.ex.panics), e.S.logic())))
        obs = cal.obligations(encs, ctx.tier)
        vectors, problems, notes = cal.validation_vectors(cal.parse_native(out))
        for n in notes[:5]:
            _log(ctx, "note: " + n)
        validations = _validate_all(ctx, u, encs, vectors, problems)
        driver.decide_all(ctx, obs, validations, u.dir, lambda ob: nat)
    except (engine.EngineError, Unsupported, Inconclusive) as e:
        _fail_all(ctx, [n for n in C15_NAMES if not any(o["obligation"] == n for o in ctx.smt)], "E2 calendar unit: %s" % e)
    except Exception as e:
        _fail_all(ctx, [n for n in C15_NAMES if not any(o["obligation"] == n for o in ctx.smt)],
                  "E2 calendar unit internal error: %s\n%s" % (e, traceback.format_exc()[-1200:]))
    _log(ctx, "calendar unit done in %.0fs" % (time.time() - t0))


# ---------------------------------------------------------------- C08: batcher arithmetic (Delay / Retry / Capacity)

C08_NAMES = ["O6_delay_next", "O6_retry_next_step", "O6_retry_true_at_most_max_times", "O6_capacity_next"]


def unit_batcher_arith(ctx):
    from mir2smt import batcher_ob as bat
    t0 = time.time()
    try:
        u = _Unit(ctx, "batcher")
        nat = u.native("batcher", [("batcher", [], True)], append=[(bat.FILE, bat.WRAPPER)])
        with concurrent.futures.ThreadPoolExecutor(max_workers=2) as pool:
            f_mir = pool.submit(u.mir, "batcher", True)
            f_warm = pool.submit(nat.run, "fn main() {}\n")      # compiles the dependencies while the MIR is dumped
            mir = f_mir.result()
            rc, out, err = f_warm.result()
        if rc != 0:
            raise engine.EngineError("native crate for emit_batcher (+ appended wrapper module) does not build: %s" % err[-600:])
        P = Program(u.tree)
        P.add_dump(mir, "emit_batcher")
        consts = bat.read_constants(P)
        _log(ctx, "constants read from the MIR of `bounded`: delays %s, retry budget %s" % (consts["delays"], consts["retry_max"]))
        encs = bat.build_encodings(P, consts)
        for n, e in encs.items():
            _log(ctx, "encoding %-9s %s" % (n, e.error or "%d SMT lines, %d division lemmas, %d panic obligations, %s" % (
                len(e.S.lines), e.S.n_divlemmas, len(e.ex.panics), e.S.logic())))
        window = getattr(encs["capacity"], "window", 32)
        seq_n = getattr(encs["retry_seq"], "seq_n", max(consts["retry_max"]) + 2)
        rc, out, err = nat.run(bat.native_main(consts, window))
        if rc != 0:
            raise engine.EngineError("native validation program failed (rc=%s): %s" % (rc, err[-500:]))
        obs = bat.obligations(encs, consts)
        vectors, problems = bat.validation_vectors(out, window, seq_n)
        validations = _validate_all(ctx, u, encs, vectors, problems)
        driver.decide_all(ctx, obs, validations, u.dir, lambda ob: nat)
    except (engine.EngineError, Unsupported, Inconclusive) as e:
        _fail_all(ctx, [n for n in C08_NAMES if not any(o["obligation"] == n for o in ctx.smt)], "E2 batcher unit: %s" % e)
    except Exception as e:
        _fail_all(ctx, [n for n in C08_NAMES if not any(o["obligation"] == n for o in ctx.smt)],
                  "E2 batcher unit internal error: %s\n%s" % (e, traceback.format_exc()[-1200:]))
    _log(ctx, "batcher unit done in %.0fs" % (time.time() - t0))


# ---------------------------------------------------------------- C11 K4: emit_file::rolling_millis

C11_NAMES = ["O7_rolling_millis_%s%s" % (r, s) for r in ("day", "hour", "minute") for s in ("", "_monotone")]


def unit_file_arith(ctx):
    from mir2smt import file_ob as fo
    t0 = time.time()
    try:
        u = _Unit(ctx, "file")
        nat = u.native("file", [("emitter/file", [], True)], append=[(fo.FILE, fo.WRAPPER)])
        with concurrent.futures.ThreadPoolExecutor(max_workers=3) as pool:
            f_core = pool.submit(u.mir, "core", False, "t-mir-core")
            f_file = pool.submit(u.mir, "emitter/file", True, "t-mir-file")
            f_nat = pool.submit(nat.run, fo.native_main())
            mir_core, mir_file = f_core.result(), f_file.result()
            rc, out, err = f_nat.result()
        if rc != 0:
            raise engine.EngineError("native validation program for emit_file (+ appended wrapper module) failed (rc=%s): %s" % (rc, err[-600:]))
        P = Program(u.tree)
        P.add_dump(mir_core, "emit_core")
        P.add_dump(mir_file, "emit_file")
        encs = fo.build_encodings(P)
        for n, e in encs.items():
            _log(ctx, "encoding %-13s %s" % (n, e.error or "%d SMT lines, %d division lemmas, %d panic obligations, %s" % (
                len(e.S.lines), e.S.n_divlemmas, len(e.ex.panics), e.S.logic())))
        obs = fo.obligations(encs)
        vectors, problems = fo.validation_vectors(out)
        if ctx.tier == "quick":
            # the native build of emit_file dominates this unit: validate against a spread of fewer vectors in quick
            for k in list(vectors):
                vectors[k] = vectors[k][::3][:9] if k.startswith("roll_") else vectors[k][:3]
        validations = _validate_all(ctx, u, encs, vectors, problems)
        driver.decide_all(ctx, obs, validations, u.dir, lambda ob: nat)
    except (engine.EngineError, Unsupported, Inconclusive) as e:
        _fail_all(ctx, [n for n in C11_NAMES if not any(o["obligation"] == n for o in ctx.smt)], "E2 file unit: %s" % e)
    except Exception as e:
        _fail_all(ctx, [n for n in C11_NAMES if not any(o["obligation"] == n for o in ctx.smt)],
                  "E2 file unit internal error: %s\n%s" % (e, traceback.format_exc()[-1200:]))
    _log(ctx, "file unit done in %.0fs" % (time.time() - t0))


# ---------------------------------------------------------------- E2-cfg: Worker::on_batch (C10 K2 o1-o3, C11 K3 r1/r3)

def _cfg_fail(ctx, name, why):
    _fail_all(ctx, [name], why)


def unit_file_onbatch(ctx):
    from mir2smt import file_cfg_ob as fc, cfg_driver
    t0 = time.time()
    try:
        u = _Unit(ctx, "file-cfg")
        pref = {"C10": ("K2_",), "C11": ("K3_",)}.get(ctx.prop, ("K2_", "K3_"))
        nat_box = {}

        def native_for():
            if "n" not in nat_box:
                nat_box["n"] = u.native("filecfg", [("emitter/file", [], True)], append=[(fc.FILE, fc.WRAPPER)])
            return nat_box["n"]

        with concurrent.futures.ThreadPoolExecutor(max_workers=2) as pool:
            f_mir = pool.submit(u.mir, "emitter/file", True)
            f_warm = pool.submit(lambda: native_for().run("fn main() {}\n")) if "K3_" in pref else None
            mir = f_mir.result()
            if f_warm is not None:
                rc, out, err = f_warm.result()
                if rc != 0:
                    raise engine.EngineError("native crate for emit_file (+ appended in-memory Worker wrapper) does not build: %s" % err[-600:])
        P = Program(u.tree)
        P.add_dump(mir, "emit_file")
        A = fc.build(P)
        _log(ctx, "on_batch abstraction: %s; %d SMT lines" % (A.stats(), len(A.S.lines)))
        obs = fc.obligations(P, A, native_for) + [fc.r3_obligation(P, A)]
        obs = [o for o in obs if o.name.startswith(pref)]
        cfg_driver.decide_cfg(ctx, obs, u.dir, jobs=_jobs())
        if "K3_" in pref:
            # r2: the keep-the-active-file test, integer engine E2 on the closure's MIR, validated / replayed through the real Worker
            try:
                enc, cb = fc.r2_encoding(P, A)
                ob = fc.r2_obligation(P, A, enc, u.dir)
                _log(ctx, "r2 closure %s: %s" % (cb.name[-28:], enc.error or "%d SMT lines, %d panic obligations" % (len(enc.S.lines), len(enc.ex.panics))))
                validations = {}
                if not enc.error:
                    rc, out, err = native_for().run(fc.r2_native_main())
                    if rc != 0:
                        raise engine.EngineError("native run of the sized-batch scenarios failed (rc=%s): %s" % (rc, err[-400:]))
                    vec, problems = fc.r2_vectors(out)
                    validations = _validate_all(ctx, u, {enc.name: enc}, {enc.name: vec}, problems)
                driver.decide_all(ctx, [ob], validations, u.dir, lambda o: native_for())
            except (engine.EngineError, Unsupported) as e:
                _cfg_fail(ctx, "K3_r2_keep_active_file_test", "r2: %s" % e)
    except (engine.EngineError, Unsupported, Inconclusive) as e:
        _cfg_fail(ctx, "E2cfg_file_onbatch", "E2-cfg file unit: %s" % e)
    except Exception as e:
        _cfg_fail(ctx, "E2cfg_file_onbatch", "E2-cfg file unit internal error: %s\n%s" % (e, traceback.format_exc()[-1500:]))
    _log(ctx, "file on_batch unit done in %.0fs" % (time.time() - t0))


# ---------------------------------------------------------------- E2-cfg: OTLP dispatch (C14)

def unit_otlp_dispatch(ctx):
    from mir2smt import otlp_cfg_ob as oc, cfg_driver
    t0 = time.time()
    try:
        u = _Unit(ctx, "otlp-cfg")
        mir = u.mir("emitter/otlp", True)
        P = Program(u.tree)
        P.add_dump(mir, "emit_otlp")
        A = oc.build(P)
        _log(ctx, "OtlpInner::emit abstraction: %s; %d SMT lines" % (A.stats(), len(A.S.lines)))
        def native_for():
            return u.native("dispatch", [("emitter/otlp", [], True)], append=[(oc.FILE, oc.WRAPPER)])

        cfg_driver.decide_cfg(ctx, oc.obligations(P, A, native_for), u.dir, jobs=_jobs())
    except (engine.EngineError, Unsupported, Inconclusive) as e:
        _cfg_fail(ctx, "E2_dispatch_exactly_one_first_configured_accepting", "E2-cfg otlp unit: %s" % e)
    except Exception as e:
        _cfg_fail(ctx, "E2_dispatch_exactly_one_first_configured_accepting",
                  "E2-cfg otlp unit internal error: %s\n%s" % (e, traceback.format_exc()[-1500:]))
    _log(ctx, "otlp dispatch unit done in %.0fs" % (time.time() - t0))


# ---------------------------------------------------------------- E2-cfg: AmbientSlot (C20)

def unit_slot_init(ctx):
    from mir2smt import slot_cfg_ob as sc, cfg_driver
    t0 = time.time()
    try:
        u = _Unit(ctx, "slot-cfg")
        text, secs = engine.dump_mir(u.tree, "core", os.path.join(u.dir, "t-mir"), default_features=False,
                                     log=os.path.join(u.dir, "mir-core.log"), features=["std"])
        _log(ctx, "MIR of core (feature std) dumped in %.0fs (%d lines)" % (secs, text.count("\n")))
        P = Program(u.tree)
        P.add_dump(text, "emit_core")
        abs_ = sc.build(P)
        for m, a in abs_.items():
            _log(ctx, "AmbientSlot::%s abstraction: %s" % (m, a.stats()))
        nat_box = {}

        def native_for():
            if "n" not in nat_box:
                nat_box["n"] = u.native("slot", [("core", ["std"], False)])
            return nat_box["n"]

        gen, classes = sc.generalised_obligations(P, abs_, os.path.join(u.dir, "classes"), native_for, 3)
        if classes is not None:
            _log(ctx, "AmbientSlot::init path classes over the OnceLock: %s" % "; ".join(sc.describe_classes(classes)))
        shape = sorted(set(tuple(k for k, _ in c["ops"]) for c in classes)) if classes else []
        obs = sc.structural(P, abs_, native_for)
        if classes is not None and shape != [("set",), ("set", "get")]:
            # the shape-specific structural obligation only applies to `set; get`: the generalised pair below replaces it
            obs = [o for o in obs if o.name != "E2cfg_init_one_set_then_get"]
        else:
            obs.append(sc.interleaving_obligation(3, 3))
        obs += gen
        # emit::Setup hands all five configured components to the slot
        text2, secs2 = engine.dump_mir(u.tree, "", os.path.join(u.dir, "t-mir-emit"), default_features=False,
                                       log=os.path.join(u.dir, "mir-emit.log"), features=["std", "implicit_rt", "implicit_internal_rt"])
        _log(ctx, "MIR of emit (std, implicit_rt, implicit_internal_rt) dumped in %.0fs (%d lines)" % (secs2, text2.count("\n")))
        P2 = Program(u.tree)
        P2.add_dump(text2, "emit")
        def native_emit():
            if "e" not in nat_box:
                nat_box["e"] = u.native("setup", [("", ["std", "implicit_rt", "implicit_internal_rt"], False)])
            return nat_box["e"]

        obs += sc.setup_obligations(P2, native_emit)
        cfg_driver.decide_cfg(ctx, obs, u.dir, jobs=_jobs())
    except (engine.EngineError, Unsupported, Inconclusive) as e:
        _cfg_fail(ctx, "E2cfg_slot_init", "E2-cfg slot unit: %s" % e)
    except Exception as e:
        _cfg_fail(ctx, "E2cfg_slot_init", "E2-cfg slot unit internal error: %s\n%s" % (e, traceback.format_exc()[-1500:]))
    _log(ctx, "slot init unit done in %.0fs" % (time.time() - t0))


# ---------------------------------------------------------------- E2-cfg: HttpConnection::send keeps a sender only after a successful request (C12)

def unit_otlp_http_connection(ctx):
    from mir2smt import otlp_http_cfg_ob as oh, cfg_driver
    t0 = time.time()
    try:
        u = _Unit(ctx, "otlp-http-cfg")
        dump_dir = os.path.join(u.dir, "mir-passes")
        # one rustc run: ordinary MIR of the crate (helpers, users of the sender slot) + the pre-coroutine bodies of `send`
        mir, secs = oh.dump_mir_with_coroutines(u.tree, os.path.join(u.dir, "t-mir"), dump_dir,
                                                log=os.path.join(u.dir, "mir-emitter_otlp.log"))
        dumps = oh.coroutine_dumps(dump_dir)
        _log(ctx, "MIR of emitter/otlp dumped in %.0fs (%d lines, %d pre-coroutine bodies)" % (secs, mir.count("\n"), len(dumps)))
        P = Program(u.tree)
        P.add_dump(mir, "emit_otlp")
        A = oh.build(P, dumps)
        _log(ctx, "HttpConnection::send async block (%s): %s; %d SMT lines" % (A.mir_path[-60:], A.stats(), len(A.S.lines)))
        nat_box = {}

        def native_for():
            # built only if a counter-path has to be concretised (never on a tree where the obligation holds)
            if "n" not in nat_box:
                nat_box["n"] = u.native("otlphttp", [(oh.CRATE_DIR, [], False)], append=oh.APPEND)
            return nat_box["n"]

        cfg_driver.decide_cfg(ctx, oh.obligations(P, A, mir, native_for), u.dir, jobs=_jobs())
    except (engine.EngineError, Unsupported, Inconclusive) as e:
        _cfg_fail(ctx, "E2cfg_http_connection_replaced_after_failure", "E2-cfg otlp http unit: %s" % e)
    except Exception as e:
        _cfg_fail(ctx, "E2cfg_http_connection_replaced_after_failure",
                  "E2-cfg otlp http unit internal error: %s\n%s" % (e, traceback.format_exc()[-1500:]))
    _log(ctx, "otlp http connection unit done in %.0fs" % (time.time() - t0))
