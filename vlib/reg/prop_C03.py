PROP = {
    "kani_groups": ["hk_emit_min", "hk_emit_std", "hk_tlctxt"],
    "smt": [],
    "technique": "bounded model checking (Kani/CBMC) of emit::Frame / EnterGuard / FrameFuture and the Ctxt default methods over symbolic well-nested programs",
    "functions": [
        "impl Ctxt for {&C, Option<C>, Box<C>, Arc<C>, dyn ErasedCtxt, dyn ErasedCtxt + Send + Sync}: every method forwards to the same method of the wrapped context (c03c04_q_wrapper_*)",
        "emit::frame::{Frame::{current, push, root, disabled, with, enter, call, in_fn, in_future, from_parts, drop}, EnterGuard::drop, FrameFuture::poll}",
        "emit_core::ctxt::{Ctxt::open_push (default), open_disabled (default), impl Ctxt for &C, impl Ctxt for Option<C>, internal::Slot}",
        "hk_tlctxt: emit::platform::thread_local_ctxt::{ThreadLocalCtxt::{new, default, shared, open_root, open_push, enter, exit, with_current}, ThreadLocalCtxtFrame::{for_each, get, clone}, "
        "ThreadLocalValue::{from_value, to_value}, current, swap, ctxt_id (real Mutex)} - the REAL thread-local context; impl Ctxt for Arc<ThreadLocalCtxt> and for dyn ErasedCtxt over it "
        "(ErasedFrame / ErasedCurrent); impl Props for Arc<P> / HashMap<K, V> (real text, map type substituted); std::sync::Arc::{new, clone, make_mut, drop} and mem::swap (real)",
    ],
    "bounds": "quick: a chain of 2 nested frames and a sequence of 2 sibling frames; thorough: depth 2 with <= 2 siblings per level (a chain of 3 ran into the 3600 s cap: unregistered); frame kind in {push, root, disabled, current}, "
              "entry API in {enter guard (+ optional re-entry), call, with, in_fn}; <= 2 symbolic i32 properties per frame with distinct keys; "
              "two frame-wrapped futures with <= 2 yields each polled in any order (6 steps); a second context instance observed throughout; hk_tlctxt (real ThreadLocalCtxt, one-step): ONE frame (push or root, <= 2 own i64 properties) from a pre-state of context A on thread 0 that is 'never touched' (no entry in ACTIVE), 'observed only' (entry without a map) or 'inside an entered root frame with <= 2 properties'; keys from the pool {a, bb, ccc}; another context instance B with its own entry on thread 0, the same context A with its own entry (or untouched) on harness thread 1, ThreadLocalCtxt::shared() observed; SHAPES (which keys, how many, pre-state kind, observe-before-enter, iteration order of the map: forwards / reverse) are concrete per harness (8 quick + 3 thorough step shapes, 2 re-enter, 2 cross-thread, 2+2 wrapper shapes), all VALUES symbolic; context ids as handed out by ThreadLocalCtxt::new() (1, 2) and 0",
    "outside": "UPDATE hk_tlctxt: the real ThreadLocalCtxt IS now decided one frame step at a time (see bounds); still outside: compositions of more than one frame step on it (the generic frame discipline "
               "over env::ArrCtxt composes with the step), more than 4 distinct keys per frame / 4 context ids per thread (capacity of the map stand-in: exceeding it fails the harness), symbolic key sets and "
               "symbolic iteration order (concrete shapes only), real OS threads and TLS teardown, hashing itself (std HashMap trusted as a finite map); "
               "thorough-tier harnesses that did not fit in the measured thorough run and are unregistered: c03_x_tl_root_two_on_observed, c03_x_tl_via_erased_root "
               "(out of memory after 2300 s) and c03_x_nested_frames_depth3 on the harness context (3600 s cap); "
               "NOT decided on the real context: the pre-states in which the entering thread has NO entry yet for the context id (first touch by enter / "
               "open_push / open_root), a push onto an observed-but-empty slot, re-entry of a root frame on an untouched thread and the push step through "
               "&dyn ErasedCtxt - harnesses c03_x_tl_{root_first_touch, push_on_untouched, push_on_observed, cross_thread_push_to_untouched, "
               "reenter_root_untouched, via_erased_push} find counterexamples on mutants within minutes but do not finish on the unchanged tree "
               "(3 of them alone, 4 solvers free: 12.4 GB each after 21 min) and are therefore not registered. Previously: "
               "the real ThreadLocalCtxt (hash maps in thread-local storage: does not fit CBMC, DESIGN.md section 3) and with it real threads and "
               "TLS teardown; the unwinder itself (EnterGuard::drop / Frame::call / FrameFuture::poll are executed on the normal path with std::thread::panicking() symbolic "
               "in the std group); exits out of stack order (excluded by the property)",
    "stubs": ["std::thread::panicking -> symbolic bool (c03c04_q_exit_while_panicking)", "Ctxt = array-backed harness implementation of the public trait (env::ArrCtxt): enter/exit swap the frame with the current slot, "
              "open_root collects first-wins; open_push/open_disabled are the trait's real default methods",
              "hk_tlctxt / tlctxt:hashmap-core + tlctxt:std-facade: std::collections::HashMap in core/src/props.rs (impl Props for HashMap) and src/platform/thread_local_ctxt.rs -> emit_core::verif_shim::HashMap, a 4-slot "
              "association list with std's API subset (new/insert/get/get_mut/remove/entry API/iteration/len/clone): std's map is TRUSTED as a finite map (one value per key, insert replaces, lookup by Eq); hashing is not "
              "executed (sound while Hash agrees with Eq: usize, Str); iteration order is chosen by the harness (start slot + direction), concrete per harness; a 5th distinct key panics (reported, never silently wrong). "
              "The repo's own thread_local_ctxt tests pass natively against the substituted tree (single-threaded)",
              "hk_tlctxt / tlctxt:tls-active: thread_local! ACTIVE -> two per-'thread' lazily allocated heap cells selected by the harness-controlled id VERIF_THREAD (exact model of thread-locality at operation granularity; "
              "TLS teardown outside)",
              "hk_tlctxt / tlctxt:verif: appended read-only probes inside thread_local_ctxt.rs (ctxt_id_of, frame_len, ...; no logic)",
              "hk_tlctxt: Kani -Z restrict-vtable, CBMC --max-field-sensitivity-array-size 1024 (symex precision only), recursion cap 0 on value-bag's recursive drop glue (unwinding assertions stay on)"],
    "assumptions": ["frames are exited in stack order", "keys within a frame are distinct", "hk_tlctxt: none beyond the shapes (values unconstrained)"],
    "level_text": "Bounded model checking of the generic frame discipline (the code every Ctxt shares); PARTIAL: the thread-local implementation itself is outside.",
    "timeout": {"quick": 700, "thorough": 3600},
}
