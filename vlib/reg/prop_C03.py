PROP = {
    "kani_groups": ["hk_emit_min", "hk_emit_std"],
    "smt": [],
    "technique": "bounded model checking (Kani/CBMC) of emit::Frame / EnterGuard / FrameFuture and the Ctxt default methods over symbolic well-nested programs",
    "functions": [
        "impl Ctxt for {&C, Option<C>, Box<C>, Arc<C>, dyn ErasedCtxt, dyn ErasedCtxt + Send + Sync}: every method forwards to the same method of the wrapped context (c03c04_q_wrapper_*)",
        "emit::frame::{Frame::{current, push, root, disabled, with, enter, call, in_fn, in_future, from_parts, drop}, EnterGuard::drop, FrameFuture::poll}",
        "emit_core::ctxt::{Ctxt::open_push (default), open_disabled (default), impl Ctxt for &C, impl Ctxt for Option<C>, internal::Slot}",
    ],
    "bounds": "quick: a chain of 2 nested frames and a sequence of 2 sibling frames; thorough: depth 2 with <= 2 siblings per level and a chain of 3; frame kind in {push, root, disabled, current}, "
              "entry API in {enter guard (+ optional re-entry), call, with, in_fn}; <= 2 symbolic i32 properties per frame with distinct keys; "
              "two frame-wrapped futures with <= 2 yields each polled in any order (6 steps); a second context instance observed throughout",
    "outside": "the real ThreadLocalCtxt (hash maps in thread-local storage: does not fit CBMC, DESIGN.md section 3) and with it real threads and "
               "TLS teardown; the unwinder itself (EnterGuard::drop / Frame::call / FrameFuture::poll are executed on the normal path with std::thread::panicking() symbolic "
               "in the std group); exits out of stack order (excluded by the property)",
    "stubs": ["std::thread::panicking -> symbolic bool (c03c04_q_exit_while_panicking)", "Ctxt = array-backed harness implementation of the public trait (env::ArrCtxt): enter/exit swap the frame with the current slot, "
              "open_root collects first-wins; open_push/open_disabled are the trait's real default methods"],
    "assumptions": ["frames are exited in stack order", "keys within a frame are distinct"],
    "level_text": "Bounded model checking of the generic frame discipline (the code every Ctxt shares); PARTIAL: the thread-local implementation itself is outside.",
    "timeout": {"quick": 700, "thorough": 3600},
}
