from .. import smt_units

PROP = {'kani_groups': ['hk_batcher'],
 'smt': [smt_units.unit_batcher_arith],
 'technique': 'bounded model checking (Kani/CBMC) of the receiver-side kernels and of one full receiver-loop '
              'iteration (de-asynced exec) from an arbitrary state with symbolic processor outcomes and a symbolic '
              'panic plan; liveness over many iterations follows by the written induction (every iteration '
              'terminates and re-establishes an arbitrary valid state)',
 'functions': ['emit_batcher::sync::{blocking_flush, Trigger::{new, trigger, wait_timeout}} (c07c08_*_s_blocking_flush_*: returns false only on '
               'expiry, never parks longer than what is left of the timeout, never parks holding the state lock, no self-deadlock on the '
               'trigger lock; blocking_send: harnesses written (c08c09_x_s_blocking_send_*) but none fits CBMC - NOT decided beyond send_or_wait)',
               'Receiver::exec (one loop iteration incl. the whole retry loop and the shutdown return), '
               'Receiver::drop, Sender::drop',
               'Watchers::{push_*, notify_*}, Retry::{new, reset, next}, Delay::{new, reset, next}, '
               'CatchUnwind::poll, Sender::{when_empty, when_flushed}',
               'Sender::send (c06c07c08c09_q_s_send: an overflowing send discards items only; every flush / empty callback '
               'parked on the pending batch stays registered, so it is still invoked exactly once by the receiver)',
               'E2 (mir2smt, MIR -> SMT-LIB Int, cvc5 + z3): Delay::{next, reset}, Retry::{reset, next}, Capacity::next over '
               'their full integer ranges with the Delay::new / Retry::new constants read from the MIR of `bounded`'],
 'bounds': 'blocking_flush: capacity 1..=2, concrete pre-state SHAPES per harness (idle / batch in flight / item pending / closed) '
           'with symbolic contents, <= 2 wake-ups per call, '
           'whole-second clock readings and timeouts < 2^16 s; receiver iteration: 0..=2 (thorough 3) items, 1 (thorough 0..2) watchers of each kind, retry budget 0/1 '
           '(thorough 2) instead of 10, outcomes {Ok, Err no-retry, Err retry(any remainder)} per attempt, panics at '
           'any guarded call; Retry: any budget, 5 calls after reset; Delay: one step from any state with '
           'whole-millisecond current/step/max < 256 s, plus the two configured delays for 14 steps; Watchers: <= 3 '
           'of each kind, every panic plan',
 'outside': 'CANNOT BE ENCODED (Kani executes one thread, no OS): batcher/src/tokio.rs and web.rs entirely; the '
            'real condition variable, Instant, thread spawn/join of batcher/src/sync.rs (its blocking wrappers run on '
            'stand-ins, see stubs); wall-clock time; real unwinding; the std mutex itself (assumed). The multi-step composition '
            '(any number of senders, any interleaving, histories of any length) is a WRITTEN induction over the '
            'solver-checked one-step obligations (harness/hk_batcher/src/lib.rs), not a solver result; a bounded '
            'multi-step schedule harness did not fit CBMC (20 min symex, no verdict). Also outside — the whole last '
            'sentence of the property: blocking flush/send returning within their timeout from any calling context '
            '(plain thread, tokio multi-thread worker, tokio current-thread runtime) incl. the panic the property '
            'text mentions for blocking calls inside a tokio runtime: tokio and OS time cannot be encoded; joining '
            'of worker threads in the file/OTLP emitters; processor futures that never complete; a processor that '
            'panics after partially mutating its own state',
 'stubs': ["batcher:sync-* — batcher/src/sync.rs: std::sync::{Condvar, Mutex} and std::time::Instant -> stand-ins: Instant reads a harness clock (whole seconds); Condvar::wait_timeout(guard, dur) releases the guard, runs the harness environment step (time passes; the batch carrying the parked callbacks may finish, which runs them) and returns woken / timed out (spurious wake-ups included); assumed of the std condvar: a wait reported as timed out lasted at least dur; the Trigger's own mutex is a single-owner cell",
           'batcher:send-or-wait-pub — visibility only: the private Sender::send_or_wait is made pub in the scratch tree (harness module s_sow)',
           "the mutex stand-in also counts the guards alive (HELD): every harness callback standing for user code (flush / empty callbacks, samplers, processors, waits, the condvar environment step) asserts HELD == 0 — user code never runs inside the channel's critical section",
           'batcher:mutex — std::sync::Mutex in batcher/src/lib.rs -> single-owner cell with the same lock() API, an '
           'acquisition counter and a hook called before every acquisition; asserts the lock is never re-acquired '
           "while held. Mutual exclusion itself is std's contract and is ASSUMED",
           'batcher:catch-unwind — std::panic::catch_unwind -> panic plan: the i-th guarded call either runs its '
           'closure and returns Ok, or (plan bit i) does not run it, drops it and returns Err; partial effects of a '
           'closure that panics half-way are not modelled',
           'batcher:exec-fn/exec-await-* — Receiver::exec de-asynced in the scratch tree only (async fn -> fn, each '
           '.await -> poll once with a no-op waker, the future must be Ready); preserves the program order of the '
           'single receiver task for processors/waits whose futures complete; never-completing futures are outside',
           'batcher:capacity-pub + #[kani::stub(Capacity::next -> constant 0)] in the receiver harnesses only: the '
           'result is only a hint for Channel::with_capacity (ignored by the harness queue); the real Capacity::next '
           'is decided for every state by c06_q_k_capacity',
           "receiver harnesses cut the run by assume(false) at the receiver's second acquisition of the state lock, "
           'after the post-conditions of the iteration were asserted there',
           'inject/batcher.rs: read-only snapshot, constructor of a (Sender, Receiver) pair from an explicit state '
           '(through `bounded`), pub wrappers around send_or_wait / Watchers / Batch::new / Retry / Delay / Capacity '
           '/ CatchUnwind — no logic'],
 'assumptions': ['pre-state of every one-step harness: 1 <= capacity <= 3, pending <= capacity (representation '
                 'invariant I0, shown preserved by every sender step); everything else arbitrary',
                 'Channel instantiation: ArrQ<4>, a fixed-array FIFO of u8 implementing the public Channel trait '
                 '(Vec::push with symbolic length costs 9 M SAT variables); other Channel impls are outside',
                 'std::sync::Mutex provides mutual exclusion (assumed, replaced)',
                 'processor and wait futures are ready when polled (sync::spawn always passes ready futures)'],
 'timeout': {'quick': 900, 'thorough': 3600},
 'slow_first': ['_r_exec']}
