PROP = {'kani_groups': ['hk_batcher'],
 'smt': [],
 'technique': 'bounded model checking (Kani/CBMC) of one-step inductive harnesses over the real emit_batcher code: '
              'when_flushed from an arbitrary state, the Watchers kernel, and one full receiver-loop iteration '
              '(de-asynced exec) from an arbitrary state; composition over histories is a written induction',
 'functions': ['emit_batcher::sync::{blocking_flush, Trigger::{new, trigger, wait_timeout}} (c07c08_*_s_blocking_flush_*: true only if the '
               'flush callback fired, and then true; false only on expiry; never parks longer than what is left of the timeout; parks '
               'without holding the state lock)',
               'Sender::when_flushed, Sender::send (overflow keeps the watchers parked on the pending batch), Watchers::{new, push_on_flush, push_on_take, notify_on_flush, notify_on_take}, '
               'Batch::new/default',
               'Receiver::exec (one loop iteration: swap under the lock, take-notify, attempts and retry waits, '
               'flush-notify)'],
 'bounds': 'capacity 1..=3, pending <= capacity, <= 1 (thorough 2) flush watchers already registered; receiver '
           'iteration: 0..=2 (thorough 3) items, 1 (thorough 0..2) watchers of each kind travelling with the batch, '
           'retry budget 0/1 (thorough 2), all processor outcome sequences incl. panics',
 'outside': 'CANNOT BE ENCODED (Kani executes one thread, no OS): batcher/src/tokio.rs and web.rs entirely; the '
            'real condition variable, Instant, thread spawn/join of batcher/src/sync.rs (its blocking wrappers run on '
            'stand-ins, see stubs); wall-clock time; real unwinding; the std mutex itself (assumed). The multi-step composition '
            '(any number of senders, any interleaving, histories of any length) is a WRITTEN induction over the '
            'solver-checked one-step obligations (harness/hk_batcher/src/lib.rs), not a solver result; a bounded '
            'multi-step schedule harness did not fit CBMC (20 min symex, no verdict). Also outside: tokio flush '
            '(oneshot, timeouts) — only the callback it registers is covered; blocking_flush beyond 2 wake-ups per call; the end-to-end '
            'clause through the emitters (rolling files written and synced, OTLP requests answered) — see C10/C12; a '
            'flush requested after the receiver was torn down (the code then reports completion at once; the '
            'property speaks about a live receiver)',
 'stubs': ["batcher:sync-* — batcher/src/sync.rs: std::sync::{Condvar, Mutex} and std::time::Instant -> stand-ins: Instant reads a harness clock (whole seconds); Condvar::wait_timeout(guard, dur) releases the guard, runs the harness environment step (time passes; the batch carrying the parked callbacks may finish, which runs them) and returns woken / timed out (spurious wake-ups included); assumed of the std condvar: a wait reported as timed out lasted at least dur; the Trigger's own mutex is a single-owner cell",
           'batcher:send-or-wait-pub — visibility only: the private Sender::send_or_wait is made pub in the scratch tree (harness module s_sow)',
           "the mutex stand-in also counts the guards alive (HELD): every harness callback standing for user code (flush / empty callbacks, samplers, processors, waits, the condvar environment step) asserts HELD == 0 — user code never runs inside the channel's critical section",
           'batcher:mutex — std::sync::Mutex in batcher/src/lib.rs -> single-owner cell with the same lock() API, an '
           'acquisition counter and a hook called before every acquisition; asserts the lock is never re-acquired '
           "while held. Mutual exclusion itself is std's contract and is ASSUMED",
           'batcher:catch-unwind — std::panic::catch_unwind -> panic plan: the i-th guarded call either runs its '
           'closure and returns Ok, or (plan bit i) does not run it, drops it and returns Err; partial effects of a '
           'closure that panics half-way are not modelled',
           'batcher:exec-fn/exec-await-* — Receiver::exec de-asynced in the scratch tree only (async fn -> fn, each '
           '.await -> poll once with a no-op waker, the future must be Ready); preserves the program order of the '
           'single receiver task for processors/waits whose futures complete; never-completing futures are outside',
           'batcher:capacity-pub + #[kani::stub(Capacity::next -> constant 0)] in the receiver harnesses only: the '
           'result is only a hint for Channel::with_capacity (ignored by the harness queue); the real Capacity::next '
           'is decided for every state by c06_q_k_capacity',
           "receiver harnesses cut the run by assume(false) at the receiver's second acquisition of the state lock, "
           'after the post-conditions of the iteration were asserted there',
           'inject/batcher.rs: read-only snapshot, constructor of a (Sender, Receiver) pair from an explicit state '
           '(through `bounded`), pub wrappers around send_or_wait / Watchers / Batch::new / Retry / Delay / Capacity '
           '/ CatchUnwind — no logic'],
 'assumptions': ['pre-state of every one-step harness: 1 <= capacity <= 3, pending <= capacity (representation '
                 'invariant I0, shown preserved by every sender step); everything else arbitrary',
                 'Channel instantiation: ArrQ<4>, a fixed-array FIFO of u8 implementing the public Channel trait '
                 '(Vec::push with symbolic length costs 9 M SAT variables); other Channel impls are outside',
                 'std::sync::Mutex provides mutual exclusion (assumed, replaced)',
                 "'channel closed' observed by when_flushed means the receiver is gone (a dropped Sender cannot call "
                 'when_flushed)'],
 'timeout': {'quick': 900, 'thorough': 3600},
 'slow_first': ['_r_exec']}
