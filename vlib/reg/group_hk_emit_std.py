GROUP = {
    # `emit` + `emit_core` with the `std` feature (alloc collections, proc-macros, runtime slots)
    "stub_sets": ["split_scanner"],
    # std build: SAT instances of 10+ GB (measured); fewer solvers at once, more address space each
    "mem_gb": 26, "max_jobs": 3,
    # assertion reach checks off (measured 2.5x faster): vacuity is guarded by kani::cover! in every harness and by the mutant twins
    "kani_args": ["-Z", "stubbing", "--no-assertion-reach-checks"],
    # CBMC's field sensitivity stops at 64 array cells by default: everything read back from a larger heap buffer is symbolic for
    # symex. Raising the limit (a symex precision option, no effect on soundness) is what lets the harness that emits through the
    # erased EMPTY runtime of an uninitialised slot finish (12 s; it did not finish in 15 min before). Measured by the C17 work.
    "cbmc_args": [(r"c20_q_inert_before_init", ["--max-field-sensitivity-array-size", "1024"])],
    "recursion_caps": [(r"value_bag::internal::cast.*CastVisitor.*::fill", 3)],
    "modules": ["util", "env", "c02_alloc", "c16_owned", "c03_unwind", "c03_wrappers", "c20_slot", "c17_pathmap"],
}
