GROUP = {
    # `emit` + `emit_core` with the `std` feature (alloc collections, proc-macros, runtime slots)
    "stub_sets": [],
    "kani_args": ["-Z", "stubbing"],
    "modules": ["util", "c02_macro", "c20_slot", "c17_pathmap"],
}
