GROUP = {
    # `emit` + `emit_core` with the `std` feature (alloc collections, proc-macros, runtime slots)
    "stub_sets": ["split_scanner"],
    # std build: SAT instances of 10+ GB (measured); fewer solvers at once, more address space each
    "mem_gb": 26, "max_jobs": 3,
    # assertion reach checks off (measured 2.5x faster): vacuity is guarded by kani::cover! in every harness and by the mutant twins
    "kani_args": ["-Z", "stubbing", "--no-assertion-reach-checks"],
    "recursion_caps": [(r"value_bag::internal::cast.*CastVisitor.*::fill", 3)],
    "modules": ["util", "env", "c02_alloc", "c16_owned", "c03_unwind", "c03_wrappers", "c20_slot", "c17_pathmap"],
}
