PROP = {
    "kani_groups": ["hk_core_min", "hk_emit_min"],
    "smt": [],
    "technique": "bounded model checking (Kani/CBMC) of emit_core::emit, Runtime::emit and the filter/emitter combinators over symbolic events and leaf verdicts",
    "functions": [
        "emit_core::emit, Runtime::{build, emit}, impl Emitter for Runtime",
        "Emitter for {&T, Option, Empty, FromFn, And, Wrap, dyn ErasedEmitter}, wrapping::{FromFilter}",
        "Filter for {&F, Option, Empty, Always, FromFn, And, Or, dyn ErasedFilter}",
        "Event::{new, with_extent, map_props, erase, by_ref}, Props::and_props",
        "emit::__private::{__private_emit, __private_emit_event, FirstDefined} as expanded by the real emit!/info!/evt! proc-macros (rt:, when:, evt: control parameters)",
    ],
    "bounds": "events with extent none/point/range over all in-range second-resolution instants, <= 2 own and <= 2 ambient "
              "properties with keys from a 4-key pool (duplicates occur); filter/emitter trees: the written-out shapes "
              "(And/Or/Option/&/dyn/Wrap(FromFilter)/FromFn/Always/Empty, depth <= 3) with symbolic leaf verdicts, presence and flush results",
    "outside": "deeper trees; Box/Arc (alloc) wrappers are covered by the alloc group when registered; user-defined Wrappings",
    "stubs": [],
    "assumptions": [],
    "timeout": {"quick": 600, "thorough": 3600},
}
