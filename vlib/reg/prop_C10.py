PROP = {
    "kani_groups": ["hk_file"],
    "smt": [],
    "technique": "bounded model checking (Kani/CBMC) of the file-writing kernels of emit_file over a fault-injecting harness filesystem",
    "functions": [],
    "bounds": "",
    "outside": "",
    "stubs": [],
    "assumptions": [],
    "timeout": {"quick": 600, "thorough": 1800},
}
