from .. import smt_units

PROP = {
    "kani_groups": ["hk_file"],
    "smt": [smt_units.unit_file_onbatch],
    "technique": "bounded model checking (Kani/CBMC) of the file-writing kernels of emit_file over a fault-injecting harness filesystem",
    "functions": ['E2-cfg (mir2smt/cfgabs.py: control-flow abstraction of the MIR with uninterpreted calls, cvc5 + z3): Worker::on_batch::{closure#0} structural obligations o1 (active file only re-installed after flush+sync Ok, taken before any write), o2 (write error returns retry with the batch; advance exactly once per successful write), o3 (flush/sync error never acknowledged), write loop unrolled 2 iterations'],
    "bounds": "",
    "outside": "",
    "stubs": [],
    "assumptions": [],
    "timeout": {"quick": 600, "thorough": 1800},
}
