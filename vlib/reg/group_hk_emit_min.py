GROUP = {
    # `emit` + `emit_core` with NO cargo features (no_std, no alloc)
    "stub_sets": [],
    # assertion reach checks off (measured 2.5x faster): vacuity is guarded by kani::cover! in every harness and by the mutant twins
    "kani_args": ["-Z", "stubbing", "--no-assertion-reach-checks"],
    # value-bag's cast visitor is (mutually) recursive through its internal representation; values in
    # these harnesses are flat primitives / ids, so two levels suffice. Unwinding assertions stay on.
    "recursion_caps": [(r"value_bag::internal::cast.*CastVisitor.*::fill", 3)],
    "modules": ["util", "env", "c05_span", "c15_ids", "c17_level", "c03_frames", "c04_trace", "c19_capture", "c01_macro", "c02_macro"],
}
