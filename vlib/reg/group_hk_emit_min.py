GROUP = {
    # `emit` + `emit_core` with NO cargo features (no_std, no alloc)
    "stub_sets": [],
    "kani_args": ["-Z", "stubbing"],
    "modules": ["util", "env", "c05_span", "c15_ids", "c17_level", "c03_frames", "c04_trace"],
}
