from .prune_util import prune

GROUP = {
    # the REAL emit::platform::thread_local_ctxt::ThreadLocalCtxt (`emit` + `emit_core` with the `std` feature only);
    # thread_local! -> per-"thread" slots, std::collections::HashMap -> fixed-capacity association list (stubs/tlctxt.toml)
    "stub_sets": ["tlctxt"],
    # assertion reach checks off (measured 2.5x faster): vacuity is guarded by kani::cover! in every harness and by the mutant twins
    "kani_args": ["-Z", "stubbing", "-Z", "restrict-vtable", "--no-assertion-reach-checks"],
    # value-bag's owned values: the drop glue of OwnedInternal is recursive (Seq -> [OwnedValueBag] -> OwnedInternal, Arc<dyn ...>,
    # OwnedError -> Option<Box<OwnedError>>) and was being unrolled to the global unwind bound at every drop site; the harnesses only
    # buffer scalars / strings / ids, so one re-entry is never reached (recursion unwinding assertions stay on).
    "recursion_caps": [(r"value_bag::internal::cast.*CastVisitor.*::fill", 3),
                       (r"drop_glue::<.*value_bag::(internal|owned)::.*>", 0)],
    "cbmc_args": [(r".", ["--max-field-sensitivity-array-size", "1024"])],
    "modules": ["util", "tl", "c03_tl", "c19_tl"],
    # ~45 harnesses: compile only the property's module and, in the quick tier, only its quick harnesses
    "generate": prune,
}
