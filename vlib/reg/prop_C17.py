PROP = {
    "kani_groups": ["hk_emit_min", "hk_emit_std"],
    "smt": [],
    "technique": "bounded model checking (Kani/CBMC) of MinLevelFilter against the documented lenient level grammar",
    "functions": ["emit::level::{MinLevelPathMap::{new, default_min_level, min_level, matches}, PathNode}, emit_core::path::{Path::segments, Segments}",
                  "emit::level::{MinLevelFilter::matches, treat_unleveled_as, Level::from_str, parse, Level as FromValue}"],
    "bounds": "level property absent / typed (4 levels) / text of <= 4 bytes over {i,I,n,f,o,d,b,g,e,E,r,w,W,a,1,blank,(,0x01} / non-level value; "
              "minimum and default any level; numeric MinLevelFilter<u8> over all u8; "
              "MinLevelPathMap: families of two CONCRETE registration paths and a concrete event module (nested, prefix-sharing siblings, repeated, "
              "registered name deeper in an unrelated path, skipped segment, root mismatch; 7 quick + 3 thorough families) with symbolic presence of "
              "each registration, symbolic order, any levels, optional default of any level, any typed event level",
    "outside": "level texts longer than 4 bytes (6 in the C15 parser harness); path maps with more than 2 registrations or paths outside the written families (symbolic paths: str::split's TwoWaySearcher does not finish)",
    "stubs": [],
    "assumptions": ["text is valid UTF-8 (ASCII alphabet)"],
    "timeout": {"quick": 700, "thorough": 3600},
}
