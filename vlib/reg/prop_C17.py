PROP = {
    "kani_groups": ["hk_emit_min", "hk_emit_std"],
    "smt": [],
    "technique": "bounded model checking (Kani/CBMC) of MinLevelFilter against the documented lenient level grammar",
    "functions": ["emit::level::{MinLevelPathMap::{new, default_min_level, min_level, matches}, PathNode}, emit_core::path::{Path::segments, Segments}",
                  "emit::level::{MinLevelFilter::matches, treat_unleveled_as, Level::from_str, parse, Level as FromValue}"],
    "bounds": "level property absent / typed (4 levels) / text of <= 4 bytes over {i,I,n,f,o,d,b,g,e,E,r,w,W,a,1,blank,(,0x01} / non-level value; "
              "minimum and default any level; numeric MinLevelFilter<u8> over all u8; "
              "MinLevelPathMap: <= 2 (thorough 3) registrations in symbolic order from the pool {a, aa, a::b, a::bb, a::b::c, b} with any level, optional default, "
              "event module from the pool, typed event level",
    "outside": "level texts longer than 4 bytes (6 in the C15 parser harness); path maps with more than 3 registrations or modules outside the pool",
    "stubs": [],
    "assumptions": ["text is valid UTF-8 (ASCII alphabet)"],
    "timeout": {"quick": 700, "thorough": 3600},
}
