PROP = {
    "kani_groups": ["hk_emit_min", "hk_emit_std", "hk_pathmap"],
    "smt": [],
    "technique": "bounded model checking (Kani/CBMC) of MinLevelFilter against the documented lenient level grammar; of the real MinLevelPathMap "
                 "(registration + lookup) against a linear-scan reference over enumerated concrete registration sequences with symbolic levels",
    "functions": ["emit::level::{MinLevelPathMap::{new, default_min_level, min_level, matches}, PathNode}, emit_core::path::{Path::segments, Segments}",
                  "emit::level::{MinLevelFilter::matches, treat_unleveled_as, Level::from_str, parse, Level as FromValue}",
                  "hk_pathmap (emit built with `alloc` only): emit::level::alloc_support::{MinLevelPathMap::<L>::{new, default_min_level, min_level}, "
                  "<MinLevelPathMap<L> as Filter>::matches, PathNode<L>}, <Option<&MinLevelFilter<L>> as Filter>::matches, MinLevelFilter::<L>::{new, matches}, "
                  "Props::pull for Empty and (&str, i32), at L = HL (harness level type: u8 newtype, Ord/Default/Copy, FromValue ignores the value and returns "
                  "the harness-controlled event level; Default returns the harness-controlled unleveled level) and at L = emit::Level (unleveled events only); "
                  "emit_core::path::{Path::{new_raw, new_owned_raw, new_ref_raw, segments}, Segments::next}, emit_core::str::Str::{new, new_ref, new_owned, by_ref, "
                  "get, get_static, to_owned, cmp, drop}; std's real Vec::{insert, index, index_mut}, RawVec growth, slice::binary_search_by_key, str/slice Ord (memcmp)"],
    "bounds": "level property absent / typed (4 levels) / text of <= 4 bytes over {i,I,n,f,o,d,b,g,e,E,r,w,W,a,1,blank,(,0x01} / non-level value; "
              "minimum and default any level; numeric MinLevelFilter<u8> over all u8; "
              "MinLevelPathMap: 6 quick + 2 thorough families of ONE registered ONE-segment path with any level, a default of any level in some families, a concrete "
              "event module (exact, descendant, prefix-sharing sibling, sibling child, registered name after an unregistered segment, root mismatch, unrelated, deep "
              "descendant) and any typed event level (L = Level, std build). "
              "NESTED RULES / ORDER / REPEATS (group hk_pathmap, c17_[qtw]_nest_*): registered paths from the pool {a, a::b, a::bb, a::b::c, aa, b} "
              "(nested chain of depth 3, prefix-sharing siblings at depth 1 and 2, unrelated root; lexicographic sibling order a < aa < b differs from their order by "
              "length), every registration sequence enumerated as a CONCRETE sequence, all of the following with ANY u8 minimum level per registration, map default "
              "absent or ANY u8, event level ANY u8, and EVERY event module of {a, a::b, a::bb, a::b::c, aa, b, a::b::c::d, a::x, c} looked up after each sequence: "
              "quick = all 36 ordered pairs incl. the 6 repeats (leveled events: level through Props::pull/FromValue) + every order of the chain a/a::b/a::b::c and of "
              "the roots a/aa/b (unleveled events: level through L::default()) + 3 pairs with OWNED registered paths (trie keys copied to Box<str>) and BORROWED "
              "event modules + 3 pairs at L = emit::Level (minimums/default any of the 4 levels, unleveled event = Info); thorough adds ALL 216 ordered triples, every "
              "order of the 4 registrations a/a::b/a::bb/a::b::c and a/aa/b/a::b, all 36 pairs with owned/borrowed paths and all 36 pairs at L = Level. "
              "Reference = linear scan: longest registered path p with module == p or module starting with p + \"::\", the LAST registration of p; none -> default if set -> accept",
    "outside": "level texts longer than 4 bytes (6 in the C15 parser harness); path maps with more than 3 registrations (4 in two thorough families), paths outside the "
               "pool (segments longer than 2 bytes, depth > 3 registered / > 4 looked up, more than 3 siblings under one node, symbolic path text: shapes are enumerated, "
               "not symbolic — symbolic presence/order of two registrations merges heap shapes and ran out of 12 GB); typed/textual event levels together with nested "
               "rules at L = emit::Level (value-bag's downcast makes the trie symbolic for symex: a pair did not finish symex in 9 min / 5.8 GB; typed and textual "
               "levels are decided on one-registration maps and on MinLevelFilter alone, the trie walk is generic in L); min_by_path_filter / FromIterator (thin loops over min_level)",
    "stubs": ["Value::parse -> assert-unreachable in the path-map harnesses (the event level there is a typed Level: the text fallback of Level::from_value is dead; the lenient text grammar is decided by c17_q_min_level_filter)", "Path::segments: std str::split(\"::\") -> hand-written scanner with the same semantics (stubs/split_scanner.toml; std trusted, TwoWaySearcher does not finish under CBMC; also in hk_pathmap)",
              "hk_pathmap: no Kani stubs. The level type parameter L is instantiated with the harness type HL (see functions): the value-bag cast of the event's level value is not "
              "explored there. CBMC runs with --max-field-sensitivity-array-size 1024 (symex precision only: lets constant propagation see through Vec buffers)"],
    "assumptions": ["text is valid UTF-8 (ASCII alphabet)", "hk_pathmap: none on HL harnesses (all levels any u8); L = Level harnesses: level indices < 4"],
    "timeout": {"quick": 700, "thorough": 3600},
    # hk_pathmap harnesses: 60-110 s each measured with 8-10 solvers running (20-85 s alone), < 2 GB
    "timeouts": [(r"_nest_", 400, 900)],
}
