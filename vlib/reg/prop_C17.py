PROP = {
    "kani_groups": ["hk_emit_min", "hk_emit_std"],
    "smt": [],
    "technique": "bounded model checking (Kani/CBMC) of MinLevelFilter against the documented lenient level grammar",
    "functions": ["emit::level::{MinLevelPathMap::{new, default_min_level, min_level, matches}, PathNode}, emit_core::path::{Path::segments, Segments}",
                  "emit::level::{MinLevelFilter::matches, treat_unleveled_as, Level::from_str, parse, Level as FromValue}"],
    "bounds": "level property absent / typed (4 levels) / text of <= 4 bytes over {i,I,n,f,o,d,b,g,e,E,r,w,W,a,1,blank,(,0x01} / non-level value; "
              "minimum and default any level; numeric MinLevelFilter<u8> over all u8; "
              "MinLevelPathMap: 6 quick + 2 thorough families of ONE registered ONE-segment path with any level, a default of any level in some families, a concrete "
              "event module (exact, descendant, prefix-sharing sibling, sibling child, registered name after an unregistered segment, root mismatch, unrelated, deep "
              "descendant) and any typed event level; two-segment registrations and two registrations (nested rules, repeated registration, registration order) "
              "exist as harnesses but blow the SAT instance past 26 GB: NOT decided",
    "outside": "level texts longer than 4 bytes (6 in the C15 parser harness); nested rules / repeated registrations / registration order in the path map (do not fit), paths outside the written families (symbolic paths: str::split's TwoWaySearcher does not finish)",
    "stubs": ["Value::parse -> assert-unreachable in the path-map harnesses (the event level there is a typed Level: the text fallback of Level::from_value is dead; the lenient text grammar is decided by c17_q_min_level_filter)", "Path::segments: std str::split(\"::\") -> hand-written scanner with the same semantics (stubs/split_scanner.toml; std trusted, TwoWaySearcher does not finish under CBMC)"],
    "assumptions": ["text is valid UTF-8 (ASCII alphabet)"],
    "timeout": {"quick": 700, "thorough": 3600},
}
