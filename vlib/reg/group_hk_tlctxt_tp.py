GROUP = {
    # emit_traceparent::TraceparentCtxt over the REAL ThreadLocalCtxt (`emit` with default features, pulled in by emit_traceparent);
    # both thread-local shims (stubs/tlctxt.toml, stubs/tls_traceparent.toml)
    "stub_sets": ["tlctxt", "tls_traceparent"],
    "kani_args": ["-Z", "stubbing", "-Z", "restrict-vtable", "--no-assertion-reach-checks"],
    "recursion_caps": [(r"value_bag::internal::cast.*CastVisitor.*::fill", 3),
                       (r"drop_glue::<.*value_bag::(internal|owned)::.*>", 0)],
    # heap objects (the Arc'd maps, the boxed TLS cell) are byte arrays for CBMC and not field-sensitive above 64 cells by default
    "cbmc_args": [(r".", ["--max-field-sensitivity-array-size", "1024"])],
    "modules": ["util", "c18_tl"],
}
