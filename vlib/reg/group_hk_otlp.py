import os
import re


def _prune(hdir, tree, tier):
    """Keep the per-run build small (every harness costs ~5 s of codegen; the group serves three
    properties): compile only the harness modules of the property being checked — its id is part
    of the scratch path, `emitverif-<ID>-*` — and, in the quick tier, only the quick harnesses.
    Nothing is pruned when the id cannot be read from the path (tools/devbuild)."""
    m = re.search(r"emitverif-(C\d\d)-", hdir)
    src = os.path.join(hdir, "src")
    if m:
        pid = m.group(1).lower()
        lib = os.path.join(src, "lib.rs")
        out = []
        for line in open(lib).read().splitlines():
            mm = re.match(r"^pub mod ((?:c\d\d)+)_(\w+);$", line)
            if mm and pid not in re.findall(r"c\d\d", mm.group(1)):
                if out and out[-1].strip() == "#[cfg(kani)]":
                    out.pop()
                line = "pub mod %s_%s {}" % (mm.group(1), mm.group(2))
            out.append(line)
        open(lib, "w").write("\n".join(out) + "\n")
    if tier == "quick":
        for f in os.listdir(src):
            if not f.endswith(".rs"):
                continue
            p = os.path.join(src, f)
            lines = open(p).read().splitlines()
            keep = [l for l in lines if not re.match(r"^harness!\((?:captured )?(?:c\d\d)+_[tw]_", l)]
            if len(keep) != len(lines):
                open(p, "w").write("\n".join(keep) + "\n")


GROUP = {
    # emit_otlp with default-features = false (no tls, no gzip); emit: std + sval + implicit_internal_rt
    "stub_sets": ["otlp"],
    # restrict-vtable: virtual calls only target functions that are in a vtable for that trait method
    # (without it the drop glue of `dyn` values and `fmt::write` fan out over every function of a
    # matching signature: a one-property traces harness did not finish in 15 min, with it 46 s)
    "kani_args": ["-Z", "stubbing", "-Z", "restrict-vtable"],
    "modules": ["util", "c14_route", "c12_send", "c12_chan", "c13_anyvalue"],
    "cbmc_args": [],
    "generate": _prune,
}
