GROUP = {
    # emit_otlp with default-features = false (emit: std + sval + implicit_internal_rt)
    "stub_sets": ["otlp"],
    "kani_args": ["-Z", "stubbing", "-Z", "restrict-vtable"],
    "modules": ["util", "c14_route"],
    "cbmc_args": [],
}
