PROP = {
    "kani_groups": ["hk_core_min", "hk_emit_std"],
    "smt": [],
    "technique": "bounded model checking (Kani/CBMC) of Template::eq and Render::write over symbolic part lists",
    "functions": [
        "emit_core::template::{Template::eq, new_ref, literal_ref, by_ref, as_literal, render, Render::write, "
        "Render as Display, Part::{text_ref, hole_ref, with_formatter, write}, Write for fmt::Formatter}",
        "alloc: Template::to_owned, Part::to_owned, the Owned representation (hk_emit_std: c16_q_owned_renders_like_borrowed)",
    ],
    "bounds": "quick: equality 2x2 parts (<= 2 chars per fragment), 3x2 parts (<= 1 char), literal vs 3 parts; render protocol for <= 2 parts; Display rendering of <= 2 parts without values; owned vs borrowed (4 concrete parts, symbolic formatters). thorough adds 2x3, 3x3, symmetric, reflexive, by_ref and 3-part protocol (transitivity on three symbolic templates, c16_x_tpl_eq_transitive, exceeds the solver memory limit and is not registered; within the bound it follows from the by-meaning oracle: equality <=> equal normal forms). Overall: templates of <= 3 parts; text of <= 3 characters over {a, b, U+00E9} split at symbolic character "
              "boundaries (empty fragments allowed); hole labels from {x, y, empty}; <= 2 properties with keys from the "
              "label pool (duplicates allowed); emit_core built with no features (Literal and Parts representations)",
    "outside": "templates with more than 3 parts (4 concrete parts for the Owned representation); macro-generated templates (tpl!) "
               "beyond what the API-built equivalents cover; number formatting inside hole formatters",
    "stubs": [],
    "assumptions": ["text fragments are valid UTF-8 split at character boundaries"],
    # the equality harnesses need 9-12 GB resident each (measured): at most 4 at once
    "max_jobs": 4,
    "timeout": {"quick": 800, "thorough": 3600},
}
