PROP = {
    "kani_groups": ["hk_emit_min", "hk_emit_std"],
    "smt": [],
    "technique": "bounded model checking (Kani/CBMC) of SpanGuard::new / SpanCtxt / default completion over symbolic span trees with a ghost trace tree",
    "functions": [
        "impl Ctxt for {&C, Option<C>, Box<C>, Arc<C>, dyn ErasedCtxt, dyn ErasedCtxt + Send + Sync}: every method forwards to the same method of the wrapped context (c03c04_q_wrapper_*)",
        "emit::span::{SpanCtxt::{current, new_child, new_root, push, new}, SpanGuard::{new, push_ctxt, start, drop}, TraceId::{random, from_value}, SpanId::{random, from_value}, completion::Default::complete}",
        "emit::Frame::{push, disabled, call}, emit_core::emit",
        "emit::frame::EnterGuard::drop while thread::panicking() (c03c04_q_exit_while_panicking: a span's frame is left by a panic; ambient ids revert like on any other exit)",
    ],
    "bounds": "ONE inductive step: from an arbitrary ambient state (no ids, or ambient trace/span ids with or without a parent id; their values fixed in the quick tier, symbolic in the thorough tier and in the new_child kernel) one span is created with a "
              "symbolic filter verdict, run inside its frame (thorough: with an event inside) and completed through the default completion; "
              "SpanCtxt::new_root/new_child for any counter seed; counter rng; harness Ctxt. Trees of any depth follow by composing the step with "
              "C03's frame discipline (written argument in harness/hk_emit_min/src/c04_trace.rs); whole trees do not fit CBMC's memory (measured)",
    "outside": "the real ThreadLocalCtxt, thread hand-offs and async interleavings of sibling spans (see C03); the macro forms; incoming ids given as "
               "hex TEXT through the context (the text codecs themselves are decided under C15); executing whole trees",
    "stubs": ["Ctxt = env::ArrCtxt", "rng = counter", "clock = no readings", "filter = symbolic verdict",
              "TraceId/SpanId::try_from_hex, <u128/u64 as FromValue>::from_value -> assert-unreachable (all ids in these harnesses are typed values; "
              "the text/integer fallbacks of from_value are dead there; CBMC cannot prune them and core::fmt does not finish)"],
    "assumptions": ["the random source does not repeat and does not return zero"],
    "level_text": "Bounded model checking of the span/trace-id logic that is generic in the context; PARTIAL (thread-local context and scheduling outside).",
    "timeout": {"quick": 1500, "thorough": 5400},
}
