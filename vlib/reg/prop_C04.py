PROP = {
    "kani_groups": ["hk_emit_min"],
    "smt": [],
    "technique": "bounded model checking (Kani/CBMC) of SpanGuard::new / SpanCtxt / default completion over symbolic span trees with a ghost trace tree",
    "functions": [
        "emit::span::{SpanCtxt::{current, new_child, new_root, push, new}, SpanGuard::{new, push_ctxt, start, drop}, TraceId::{random, from_value}, SpanId::{random, from_value}, completion::Default::complete}",
        "emit::Frame::{push, disabled, call}, emit_core::emit",
    ],
    "bounds": "span trees of depth <= 1 below the root (thorough 2) with fan-out <= 2, filter verdict symbolic per node, <= 1 event per node; "
              "incoming ids absent / typed / 32+16 hex text; counter rng (non-zero, non-repeating); harness Ctxt",
    "outside": "the real ThreadLocalCtxt, thread hand-offs and async interleavings of sibling spans (see C03); the macro forms; deeper or wider trees",
    "stubs": ["Ctxt = env::ArrCtxt", "rng = counter", "clock = no readings", "filter = per-node symbolic verdict"],
    "assumptions": ["the random source does not repeat and does not return zero"],
    "level_text": "Bounded model checking of the span/trace-id logic that is generic in the context; PARTIAL (thread-local context and scheduling outside).",
    "timeout": {"quick": 800, "thorough": 3600},
}
