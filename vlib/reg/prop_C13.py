PROP = {
    "kani_groups": ["hk_otlp"],
    "smt": [],
    "level_text": "PARTIAL claim: decides, for the OTLP any-value bridge (data::any_value::EmitValue), that directly captured "
                  "scalars and a table of concrete structured shapes (sequences, text-keyed and null-keyed maps, nested once) "
                  "are written without panic, balanced, every scalar exactly once, in order, under the AnyValue member of its "
                  "type, and that integers beyond OTLP's int64 (u64 above i64::MAX, 128-bit) become decimal text. Maps with "
                  "non-text keys reach todo!() (thorough tier, known finding). Values of symbolic shape, the attribute lists of "
                  "the three encoders, the file and terminal writers and all byte-level JSON/protobuf well-formedness are NOT "
                  "decided (see outside).",
    "technique": "bounded model checking (Kani/CBMC) of the real adapter streaming into a recording sval::Stream that checks "
                 "token balance and the AnyValue member / KeyValue field every token is written under",
    "functions": [
        "<emit_otlp::data::any_value::EmitValue as sval_ref::ValueRef>::stream_ref and every method of its AnyStream adapter "
        "(null, bool, i64, f64, text_*, binary_*, seq_*, map_*, any_value_begin/end; u64/i128/u128 through sval's default forwarding)",
        "value_bag sval2 bridge (ValueBag::stream_ref, Sval2Visitor) for primitive captures and for Value::from_sval",
        "sval::stream_number / sval::Display for u64, i128, u128 (core::fmt integer formatting at the pinned extremes)",
    ],
    "bounds": "scalars, one per run: null, bool (both), i64 (all), f64 (all n + 0.5 for 32-bit n), text in {\"\", \"ab\"}, "
              "u64 <= i64::MAX (all), u64 in {i64::MAX + 1, u64::MAX}, i128::MIN, u128::MAX; structured values: the 18 concrete "
              "token sequences of c13_anyvalue.rs SHAPES (scalar; empty / 2-element / nested sequences; empty, 1- and 2-entry maps "
              "with text keys, a null key, sequence and map values, a map inside a sequence; thorough: one map per non-text key "
              "kind bool, i64, f64, bytes, sequence, map) with fixed scalar payloads; text compared by first byte and length",
    "outside": "values of SYMBOLIC shape: emit::Value::from_sval erases value and stream behind dyn (sval_dynamic) and with a "
               "symbolic token sequence CBMC explores every sval implementor of the binary — a container of <= 2 scalars did not "
               "leave symbolic execution in 15 min (c13_t_any_value_*_depth1 kept in the thorough tier to repeat the measurement); "
               "hence no 'for all sequences' claim, only the table. Attribute lists of the logs/traces/metrics encoders "
               "(duplicate and well-known keys; by reading metrics.rs:90-108 metric attributes are not de-duplicated), "
               "emit_term's sparkline index arithmetic, the rolling-file writer, TraceId/SpanId raw encoders: not built. "
               "Byte-level well-formedness of the JSON/protobuf output and decoding with the official schema (sval_json, "
               "sval_protobuf, float formatting, prost): third-party trait-object streaming, not encodable within reach",
    "stubs": [
        "verif::stream_any_value: pub door to the crate-private EmitValue adapter (inject/otlp.rs)",
        "kani -Z restrict-vtable (virtual calls restricted to functions present in a vtable of the trait method)",
    ],
    "assumptions": [],
    "timeout": {"quick": 600, "thorough": 1200},
    "slow_first": [r"u64_beyond", r"depth1"],
}
