PROP = {
    "kani_groups": ["hk_otlp", "hk_file_w"],
    "smt": [],
    "level_text": "PARTIAL claim: decides, for the OTLP any-value bridge (data::any_value::EmitValue), that directly captured "
                  "scalars and a table of concrete structured shapes (sequences, text-keyed and null-keyed maps, nested once) "
                  "are written without panic, balanced, every scalar exactly once, in order, under the AnyValue member of its "
                  "type, and that integers beyond OTLP's int64 (u64 above i64::MAX, 128-bit) become decimal text. Maps with "
                  "non-text keys reach todo!() (thorough tier, known finding). Values of symbolic shape, the attribute lists of "
                  "the three encoders, the file and terminal writers and all byte-level JSON/protobuf well-formedness are NOT "
                  "decided (see outside). Rolling-file writer (group hk_file_w): decides that the record emit_file's default writer STREAMS "
                  "for an event meets sval_json's documented contract for a JSON object - one record_begin/record_end pair around "
                  "everything, the fixed fields [ts_start] [ts] mdl msg tpl first and in that order, every further entry "
                  "record_value_begin(K) <one value> record_value_end(K) with the same label, no label that needs JSON escaping tagged "
                  "VALUE_IDENT (the one tag on which sval_json writes a label verbatim), every distinct property key exactly once with "
                  "the value of its first occurrence - and that a consumer error inside the record makes the writer return Err "
                  "instead of closing a truncated record. The bytes sval_json produces from that stream are NOT decided.",
    "technique": "bounded model checking (Kani/CBMC) of the real adapter streaming into a recording sval::Stream that checks "
                 "token balance and the AnyValue member / KeyValue field every token is written under; for the file writer: the real "
                 "default_writer / EventValue::stream / Props::dedup / ErasedProps / value-bag sval bridge with the single "
                 "sval_json::stream_to_io_write call redirected (source substitution) to a recording sval::Stream, the recorded "
                 "calls checked against sval_json's contract",
    "functions": [
        "<emit_otlp::data::any_value::EmitValue as sval_ref::ValueRef>::stream_ref and every method of its AnyStream adapter "
        "(null, bool, i64, f64, text_*, binary_*, seq_*, map_*, any_value_begin/end; u64/i128/u128 through sval's default forwarding)",
        "value_bag sval2 bridge (ValueBag::stream_ref, Sval2Visitor) for primitive captures and for Value::from_sval",
        "sval::stream_number / sval::Display for u64, i128, u128 (core::fmt integer formatting at the pinned extremes)",
        "hk_file_w: emit_file::default_writer and <default_writer::EventValue as sval::Value>::stream (all of it: extent handling, the five "
        "fixed fields, the per-property closure, error propagation, record_end), io::Error::new on the Err path",
        "hk_file_w: <emit::props::Dedup<&dyn ErasedProps> as Props>::for_each (first value wins) over verif_small_map::SmallMap, "
        "<[(&str, Value)] as Props>::for_each through dyn ErasedProps, impl Ord for emit::Str, Event::{new, erase, extent, mdl, msg, tpl, props}, "
        "Extent::{point, range, as_point, as_range}",
        "hk_file_w: value_bag sval2 bridge (ValueBag::stream_ref, Sval2Visitor) for i32 / bool / &str captures, sval::Display::stream "
        "(text_begin / text_end around the stubbed fragments), sval::Label::{new, new_computed, as_str, tag}, sval::Tag equality",
    ],
    "bounds": "scalars, one per run: null, bool (both), i64 (all), f64 (all n + 0.5 for 32-bit n), text in {\"\", \"ab\"}, "
              "u64 <= i64::MAX (all), u64 in {i64::MAX + 1, u64::MAX}, i128::MIN, u128::MAX; structured values: the 18 concrete "
              "token sequences of c13_anyvalue.rs SHAPES (scalar; empty / 2-element / nested sequences; empty, 1- and 2-entry maps "
              "with text keys, a null key, sequence and map values, a map inside a sequence; thorough: one map per non-text key "
              "kind bool, i64, f64, bytes, sequence, map) with fixed scalar payloads; text compared by first byte and length. "
              "hk_file_w (file writer): one event per harness, module `m`, template `t`; extent none / point / range (a constant of the "
              "harness; one thorough harness with the extent symbolic); exactly 0, 1, 2 or 3 properties (a constant); all values of "
              "one kind per harness - i32 (any), bool (both), text in {\"x\", \"yz\"}; keys: with ONE property any text of 0..=2 "
              "characters over {a, \", \\, newline} or any key of the pool {a, a\"b, a\\, empty, newline}; with 2 or 3 properties "
              "constant key patterns out of the pool (quick: a\"b, a, a\"b; and the same key twice with the two properties given as pair.and_props(pair), "
              "the shape of 'event properties followed by ambient properties': c13_q_file_writer_record_concatenated_dup; thorough: all equal, three distinct incl. empty and "
              "newline, late duplicate, newline twice); consumer-error harnesses: ONE failing call at any position of the record "
              "(2 properties, no extent; thorough: 1 text property, range extent); labels and texts observed as length + first 8 bytes",
    "outside": "values of SYMBOLIC shape: emit::Value::from_sval erases value and stream behind dyn (sval_dynamic) and with a "
               "symbolic token sequence CBMC explores every sval implementor of the binary — a container of <= 2 scalars did not "
               "leave symbolic execution in 15 min (c13_t_any_value_*_depth1 kept in the thorough tier to repeat the measurement); "
               "hence no 'for all sequences' claim, only the table. Attribute lists of the logs/traces/metrics encoders "
               "(duplicate and well-known keys; by reading metrics.rs:90-108 metric attributes are not de-duplicated), "
               "emit_term's sparkline index arithmetic, TraceId/SpanId raw encoders: not built. Rolling-file writer: SYMBOLIC keys in two or more "
               "properties do not fit (two keys symbolic - by pool index or by content, each in its own buffer - 12.6 M SAT variables, out of "
               "memory at 12 GB after 150 s of symbolic execution; one symbolic + one constant key: the same), a symbolic NUMBER of "
               "properties or a symbolic value kind neither (value-bag's internal tag becomes symbolic: > 8 min of symbolic execution for "
               "one property); so duplicates are decided for constant key patterns only. Structured / 128-bit / float / Display- / Debug- / "
               "error-captured property values, property keys equal to a fixed field name (`msg`, `ts` ...: the record then carries that name "
               "twice), the texts of ts / mdl / msg / tpl (core::fmt), the separator handling and the batching in FileSetInner::emit, "
               "FileSet::spawn: not decided. "
               "Byte-level well-formedness of the JSON/protobuf output and decoding with the official schema (sval_json, "
               "sval_protobuf, float formatting, prost): third-party trait-object streaming, not encodable within reach",
    "stubs": [
        "verif::stream_any_value: pub door to the crate-private EmitValue adapter (inject/otlp.rs)",
        "kani -Z restrict-vtable (virtual calls restricted to functions present in a vtable of the trait method)",
        "hk_file_w / stubs/file_writer.toml writer-json-to-recorder: the call sval_json::stream_to_io_write(buf, EventValue(evt)) in default_writer -> "
        "verif_writer::stream_to_recorder (inject/file_writer.rs): streams the REAL EventValue into a recording sval::Stream (fixed array of "
        "(call kind, label length + first 8 bytes, label tagged VALUE_IDENT?, label tagged at all?, scalar payload)); models sval_json as a "
        "consumer of the stream protocol; can be told to answer Err at call number k (a consumer whose writer / key check fails); "
        "verif_writer::{default_writer, new_buf}: pub doors to the private writer and FileBuf::new",
        "hk_file_w / stubs/file_writer.toml dedup-small-map: alloc::collections::BTreeMap::new() inside Dedup::for_each -> verif_small_map::SmallMap "
        "(inject/core_smallmap.rs): 3-slot ordered array map with the three operations used (new, entry(k).or_insert(v), by-value iteration "
        "in key order), std's semantics, the key's own Ord (emit's impl Ord for Str); std's B-tree is trusted (its node navigation loops are "
        "unrolled to the global bound at every level: no result in 8 min for one property); more than 3 distinct keys fail the harness",
        "hk_file_w: sval::stream_display_fragments -> no fragments (#[kani::stub]): core::fmt of timestamps / paths / templates does not finish "
        "under CBMC; the text_begin / text_end around it stay real; the native replay runs the real function",
        "hk_file_w: sval_fmt::stream_debug / sval_fmt::stream_display (value-bag's Debug, Display and error arms) -> fail the harness when reached: "
        "no property value of these harnesses is captured that way; without the stubs CBMC walks core::fmt::write over every Debug impl",
    ],
    "assumptions": [
        "hk_file_w: sval_json's contract as read from sval_json 2.22 src/to_fmt.rs: record_begin writes `{`, record_value_begin(label) writes "
        "`\"label\":` with the label JSON-escaped unless it carries sval::tags::VALUE_IDENT (then verbatim), record_end writes `}`, an error "
        "returned from a call is forgotten if the outer Value::stream returns Ok",
        "hk_file_w: key texts are ASCII (built with from_utf8_unchecked from the alphabet), at most 3 bytes",
    ],
    "timeout": {"quick": 600, "thorough": 1200},
    "slow_first": [r"u64_beyond", r"depth1", r"file_writer_record_x3", r"file_writer_record_x2_p3", r"file_writer_consumer_error"],
}
