PROP = {
    "kani_groups": ["hk_otlp"],
    "smt": [],
    "level_text": "PARTIAL claim: decides, for the OTLP any-value bridge (data::any_value::EmitValue), that every directly "
                  "captured scalar is written exactly once, balanced, under the AnyValue member of its type, and that integers "
                  "beyond OTLP's int64 (u64 above i64::MAX, 128-bit) become decimal text. Structured values (sequences, maps, "
                  "non-text map keys), the attribute lists of the three encoders, the file and terminal writers and all "
                  "byte-level JSON/protobuf well-formedness are NOT decided (see outside).",
    "technique": "bounded model checking (Kani/CBMC) of the real adapter streaming into a recording sval::Stream that checks "
                 "token balance and the AnyValue member every scalar is written under",
    "functions": [
        "<emit_otlp::data::any_value::EmitValue as sval_ref::ValueRef>::stream_ref and its AnyStream adapter "
        "(null, bool, i64, f64, text_begin/fragment/end, any_value_begin/end; u64/i128/u128 through sval's default forwarding)",
        "value_bag sval2 bridge for primitive captures (ValueBag::stream_ref, Sval2Visitor)",
        "sval::stream_number / sval::Display for u64, i128, u128 (core::fmt integer formatting at the pinned extremes)",
    ],
    "bounds": "one scalar per run: null, bool (both), i64 (all), f64 (all n + 0.5 for 32-bit n), text in {\"\", \"ab\"}, "
              "u64 <= i64::MAX (all), u64 in {i64::MAX + 1, u64::MAX}, i128::MIN, u128::MAX; text compared by first byte and length",
    "outside": "structured values — sequences, maps, nested values, map keys of any kind (incl. the todo!() for non-text keys "
               "seen by reading any_value.rs:186-300), binary: emit::Value::from_sval erases value and stream behind dyn "
               "(sval_dynamic) and CBMC explores every sval implementor of the binary; a container of <= 2 scalars did not "
               "leave symbolic execution in 15 min (harnesses c13_t_any_value_*_depth1 kept for the thorough tier to repeat "
               "the measurement). Attribute lists of the logs/traces/metrics encoders (duplicate and well-known keys; metric "
               "attributes are not de-duplicated by reading metrics.rs:90-108), emit_term's sparkline arithmetic, the file "
               "writer: not built. Byte-level well-formedness of the JSON/protobuf output and decoding with the official "
               "schema (sval_json, sval_protobuf, float formatting, prost): third-party trait-object streaming, not encodable "
               "within reach",
    "stubs": [
        "verif::stream_any_value: pub door to the crate-private EmitValue adapter (inject/otlp.rs)",
        "kani -Z restrict-vtable (virtual calls restricted to functions present in a vtable of the trait method)",
    ],
    "assumptions": [],
    "timeout": {"quick": 600, "thorough": 1800},
    "slow_first": [r"u64_beyond"],
}
