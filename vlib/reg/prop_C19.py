PROP = {
    "kani_groups": ["hk_emit_min"],
    "smt": [],
    "technique": "bounded model checking (Kani/CBMC) of the capture hooks as expanded by the real proc-macros, over all values of each primitive type",
    "functions": [
        "emit::__private::{CaptureWithDefault, CaptureAsDisplay, CaptureAsAnonDisplay, CaptureAsDebug, CaptureAsAnonDebug, CaptureAsValue, CaptureAsAnonValue, Optional, "
        "__PrivateCaptureHook, __PrivateOptionalCaptureHook, __PrivateMacroProps}, macros/src/{capture, optional, hook, props}.rs (expanded at harness build time)",
        "emit_core::value::{Value::{capture_display, from_display, capture_debug, from_debug, from_any, cast, by_ref}, FromValue for the primitives}, Event::erase",
    ],
    "bounds": "every value of u8, i32, u64, i64, u128, i128 (thorough: i8, u16, i16, u32), bool, every f64 bit pattern, strings from {empty, x, U+00E9 y}; "
              "capture modes default / as_value / optional (as_display / as_debug: the harness exists but does not finish, not registered); read paths: direct, type-erased event, borrowed value",
    "outside": "serde/sval capture modes and 'any serializer sees what the original value would have produced' (third-party serializer stacks: value-bag bridging, "
               "sval_serde, serde_json, sval_json - not encodable within reach); error capture with source chains, owned/shared values and buffering in the "
               "thread-local context (need std: Value drop glue does not fit, DESIGN.md section 3); number formatting inside display mode",
    "stubs": ["<f64/i64/u64/i128/u128 as Display/Debug>::fmt -> assert-unreachable in the display/debug-mode harness (thorough tier; the value formatted there is a custom type; even so the harness did not finish in 15 min here: formatting a Value through value-bag's visitor is at the edge of what CBMC handles)"],
    "assumptions": [],
    "level_text": "Bounded model checking over the full value range of each primitive; PARTIAL: structure-preserving serializer paths are outside.",
    "timeout": {"quick": 700, "thorough": 3600},
}
