PROP = {
    "kani_groups": ["hk_emit_min", "hk_tlctxt"],
    "smt": [],
    "technique": "bounded model checking (Kani/CBMC) of the capture hooks as expanded by the real proc-macros, over all values of each primitive type",
    "functions": [
        "emit::__private::{CaptureWithDefault, CaptureAsDisplay, CaptureAsAnonDisplay, CaptureAsDebug, CaptureAsAnonDebug, CaptureAsValue, CaptureAsAnonValue, Optional, "
        "__PrivateCaptureHook, __PrivateOptionalCaptureHook, __PrivateMacroProps}, macros/src/{capture, optional, hook, props}.rs (expanded at harness build time)",
        "emit_core::value::{Value::{capture_display, from_display, capture_debug, from_debug, from_any, cast, by_ref}, FromValue for the primitives}, Event::erase",
        "hk_tlctxt: emit::platform::thread_local_ctxt::{ThreadLocalValue::{from_value, to_value}, ThreadLocalCtxt::{new, open_root, open_push, enter, exit, with_current}, "
        "ThreadLocalCtxtFrame::{get, for_each, clone}, current, swap} (the REAL thread-local context), emit_core::{Value::{to_shared, downcast_ref, to_borrowed_str}, OwnedValue::to_value, "
        "Props::{get (default, through Arc), pull}, Str::to_shared, FromValue for i64/u64/bool/f64/&str}, emit::span::{TraceId, SpanId}::{to_value, from_value (typed path)}, std::sync::Arc::{new, clone, make_mut} (real)",
    ],
    "bounds": "every value of u8, i32, u64, i64, u128, i128 (thorough: i8, u16, i16, u32), bool, every f64 bit pattern, strings from {empty, x, U+00E9 y}; "
              "capture modes default / as_value / optional (as_display / as_debug: the harness exists but does not finish, not registered); read paths: direct, type-erased event, borrowed value; hk_tlctxt (buffering in the real ThreadLocalCtxt): every i64, every u64, both bools, every f64 bit pattern, and the concrete strings '', 'e-acute y', 16 hex digits (lower / UPPER / all zero: looks like a span id), 32 hex digits (lower / UPPER: looks like a trace id); each pushed under key 'a' in two concrete shapes: ROOT (open_root on an untouched thread, entered on the same thread, map enumerated forwards) and MOVED (open_push shadowing an ambient i64 with the same key next to another ambient key, entered on the OTHER harness thread, map enumerated backwards); read back with Props::pull::<T> from the frame before enter, from with_current inside, from the frame after exit; plus a pushed value shadowing an ambient one of another type with the same text (1042 / '1042', true / 'true', both directions)",
    "outside": "serde/sval capture modes and 'any serializer sees what the original value would have produced' (third-party serializer stacks: value-bag bridging, "
               "sval_serde, serde_json, sval_json - not encodable within reach); error capture with source chains, owned/shared values and buffering in the "
               "thread-local context (need std: Value drop glue does not fit, DESIGN.md section 3); number formatting inside display mode; "
               "UPDATE hk_tlctxt: buffering of numbers, booleans, strings and typed ids in the thread-local context IS now decided (see bounds); still outside there: structured values (sval/serde/seq), "
               "Display/Debug-captured and error values through the context (value-bag buffers them by formatting: core::fmt), strings other than the listed ones (concrete texts, not symbolic), "
               "real OS threads (two harness threads at operation granularity), value-bag's own to_owned/into_shared internals for kinds not exercised",
    "stubs": ["<f64/i64/u64/i128/u128 as Display/Debug>::fmt -> assert-unreachable in the display/debug-mode harness (thorough tier; the value formatted there is a custom type; even so the harness did not finish in 15 min here: formatting a Value through value-bag's visitor is at the edge of what CBMC handles)",
              "see prop_C03 (same group): tlctxt:hashmap-core / std-facade (std HashMap -> 4-slot association list, trusted as a finite map; iteration order concrete per harness: forwards / backwards), "
                        "tlctxt:tls-active (thread_local! ACTIVE -> two per-'thread' heap cells selected by a harness-controlled thread id), tlctxt:verif (read-only probes)",
                        "TraceId/SpanId::try_from_hex, <u128/u64 as FromValue>::from_value -> assert-unreachable in the typed-id harnesses (c19_x_tl_trace_id_*, c19_x_tl_span_id_*: kept but NOT selected, no verdict in 450 s / 4 GB: typed ids through the context are NOT decided)",
                        "Kani -Z restrict-vtable; CBMC --max-field-sensitivity-array-size 1024 (symex precision only); recursion caps 0 on value-bag drop glue (unwinding assertions on)"],
    "assumptions": [],
    "level_text": "Bounded model checking over the full value range of each primitive; PARTIAL: structure-preserving serializer paths are outside.",
    "timeout": {"quick": 700, "thorough": 3600},
}
