PROP = {
    "kani_groups": ["hk_traceparent"],
    "smt": [],
    "technique": "bounded model checking (Kani/CBMC) of TraceparentCtxt / TraceparentFilter / InSampledTraceFilter over symbolic span trees, sampler verdicts and incoming headers",
    "functions": [
        "emit_traceparent::{TraceparentCtxt::{with_current, open_root, open_push, open_disabled, enter, exit}, incoming_traceparent, TraceparentFilter::matches, "
        "InSampledTraceFilter::matches, Traceparent::{current, push, new}, set_active_traceparent, get_active_traceparent, ActiveTraceparent::is_parent_of}",
        "emit::span::{SpanGuard::new, SpanCtxt::{current, new_child}}, emit::Frame::{current, call}",
    ],
    "bounds": "ONE step from an arbitrary current traceparent (none, or valid ids with either flag): the sampling filter on one span event, with a sampler "
              "(symbolic verdict, call count) and without one; two harness threads with independent current traceparents. The TraceparentCtxt frame step and "
              "whole span trees exist as harnesses (c18_x_*) but give no verdict in 900 s: NOT decided",
    "outside": "TraceparentCtxt enter/exit restoring the previous traceparent and span trees through SpanGuard (harnesses do not finish); the real ThreadLocalCtxt as inner context (does not fit CBMC): the array-backed harness context stands in; real threads and async "
               "interleavings; invalid / mismatched incoming headers beyond the two cases; Tracestate propagation; NOTE hk_tlctxt_tp (harness/hk_tlctxt_tp, NOT registered): TraceparentCtxt<real ThreadLocalCtxt> frame step with re-entry (c18_x_tl_frame_step_*) builds with both thread-local shims but gives no verdict in 600 s (symex, 4.5 GB at 300 s: the typed ids pushed as properties make ThreadLocalValue's variant a solver-only decision, after which every clone / drop of the buffered value walks all value-bag arms) - restoring the previous traceparent on scope exit, and re-entering the same frame, stay NOT decided",
    "stubs": ["thread_local! ACTIVE_TRACEPARENT -> per-'thread' slots indexed by a harness-controlled thread id (stubs/tls_traceparent.toml)",
              "inner Ctxt = env::ArrCtxt", "rng = counter", "sampler = closure with call counter and symbolic verdict",
              "TraceId/SpanId::try_from_hex, Value::parse, <u128/u64 as FromValue>::from_value -> assert-unreachable (all ids/kinds in these harnesses are typed)"],
    "assumptions": ["the random source does not repeat and does not return zero", "frames are exited in stack order"],
    "level_text": "Bounded model checking of the sampling logic of the trace-context runtime over a harness inner context; PARTIAL (thread-local inner context, scheduling outside).",
    "timeout": {"quick": 900, "thorough": 5400},
}
