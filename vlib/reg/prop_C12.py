from .. import smt_units

PROP = {
    "kani_groups": ["hk_otlp", "hk_batcher"],
    # "a request that fails is sent again with the same events once the back-off elapses": the re-delivery itself is the batching
    # channel's receiver step (harness named after C06-C08), claimed here as well
    "also": [r"^c06c07c08_q_r_exec_iter$"],
    "smt": [smt_units.unit_otlp_http_connection],
    "level_text": "PARTIAL claim: decides the request accounting of the OTLP client (the request loop of "
                  "OtlpTransport::send against scripted per-request outcomes, and the grouping/len/clear accounting of "
                  "the batching Channel). Everything that needs hyper, tokio, TLS, gzip or sockets is outside.",
    "technique": "bounded model checking (Kani/CBMC) of the real request loop (the async fn is polled once with a no-op "
                 "waker; the network request inside it is a call-site substitution answering from a script) and of "
                 "impl emit_batcher::Channel for client::Channel",
    "functions": [
        "emit_batcher::Receiver::exec, one loop iteration from an arbitrary state incl. an arbitrary retry/back-off history (group hk_batcher, "
        "c06c07c08_q_r_exec_iter, see C06-C08 for its bounds and stand-ins): a batch whose processor returned BatchError::retry(remainder) is "
        "re-delivered as exactly that remainder after one wait of the next back-off, at most budget + 1 times, with a fresh budget per batch",
        "emit_otlp::client::OtlpTransport::<LogsRequestEncoder>::send (request loop; Self::send_batch substituted)",
        "emit_batcher::BatchError::{retry, map_retryable, into_retryable}",
        "<emit_otlp::client::Channel as emit_batcher::Channel>::{new, push, len, clear}",
        "emit_otlp::data::EncodedScopeItems::{new, push, total_items, items}",
        "E2-cfg (mir2smt/otlp_http_cfg_ob.py, unit_otlp_http_connection): the async block of emit_otlp::client::http::HttpConnection::send "
        "(pre-coroutine MIR, `-Zdump-mir` StateTransform.before; calls uninterpreted, await points = Future::poll + a free "
        "'resumed / future dropped while suspended' choice) and, structurally, HttpConnection::{poison, unpoison} and every user of the "
        "`sender` slot on the crate's ordinary MIR. Obligations: p1 unpoison only after `?` on the result of polling send_request(..) "
        "returned Ok; p2 poison is the first call, connect is executed iff poison returned None, send_request after None only through "
        "connect's Ok, the sender sent on / put back is the taken or the connected one and is handed to nothing else; p3 at most one "
        "unpoison per path, none on a path cancelled at an earlier await point or returning an earlier Err. A counter-path is concretised "
        "natively (ONE real HttpConnection, HTTP/1, against a scripted std::net collector that acknowledges one request, closes the "
        "connection and serves later connections) with the property's oracle 'the request after a failed one goes out on a fresh "
        "connection and is acknowledged'; only a natively failing oracle is a VIOLATION, else the candidate is inconclusive (exit 2)",
    ],
    "bounds": "E2-cfg connection replacement: every abstract path of the async block with at most 2 Pending results per await point "
              "(connect, send_request, response), results of connect / send_request / callbacks / gzip free, emit_otlp built with its "
              "default features (tls, gzip); send loop: batches of exactly 1 and 2 requests (thorough: 3 and 4), every sequence of per-request outcomes "
              "{acknowledged, retryable failure}; retry of the remainder for 2 requests and every failure position (thorough). "
              "Channel: exactly 2 items, payload sizes 0..=3 and one request size limit 0..=4 symbolic, one scope; "
              "clear after 1 item followed by one more push",
    "outside": "the network request itself (hyper client, tokio net/time, TLS, gzip, gRPC framing, status interpretation, "
               "what hyper reports for a broken connection, timeouts beyond 'the future is dropped at an await point'; connection "
               "poisoning/replacement is decided only as the control-flow obligation above), non-retryable encode failures, the retry/back-off schedule of "
               "emit_batcher, per-signal independence on the worker runtime, flush end-to-end; Channel: 3 or more items "
               "(out of memory at 12 GB in CBMC's propositional reduction after 77 s), clear after 2 or more items (same), "
               "payload identity/order inside a request (reading payloads back: 302 s for two items, out of memory for the "
               "general oracle) — only the per-request item counts are observed; std's HashMap inside EncodedScopeItems",
    "stubs": [
        "verif::send_batch_outcome in place of OtlpTransport::send_batch (stubs/otlp.toml send-batch-call): records the "
        "request it is handed, answers Ok or BatchError::retry from verif::SCRIPT",
        "verif::VecMap (inline two-slot association list) in place of std::collections::HashMap inside EncodedScopeItems "
        "(stubs/otlp.toml scope-items-map): hashbrown's SIMD probing does not finish under CBMC",
        "HttpConnection::verif_unconnected (inject/otlp_http.rs): a never-connected connection built without hyper's URL parser",
        "std::panic::catch_unwind -> run the closure, return Ok (kani-compiler 0.68 crashes on the intrinsic)",
        "one poll of the send future with Waker::noop (the future has no suspension point once the request is substituted; "
        "Pending fails the harness)",
    ],
    "assumptions": [
        "E2-cfg: std/tokio/hyper calls are uninterpreted (any result); the variant-transparent std combinators of mir2smt/cfgabs.py "
        "(Try::branch, FromResidual::from_residual, Result::map_err ...) behave as documented; a panicking callee ends the path; "
        "std::sync::Mutex provides mutual exclusion for the `sender` slot (poison/unpoison are one lock each)",
        "send loop: requests carry no items and are told apart by their slot (address) in the batch's request vector",
        "transport failures are retryable (BatchError::retry), as every failure produced by send_batch's network path is",
        "channel: a request keeps its items in push order (Vec::push); items are told apart by position only",
    ],
    "timeout": {"quick": 600, "thorough": 2400},
    "timeouts": [(r"send_loop_4", 600, 3000)],
    "slow_first": [r"send_loop_4", r"send_retry", r"send_loop_3"],
}
