PROP = {
    "kani_groups": ["hk_batcher"],
    "smt": [],
    "technique": "bounded model checking (Kani/CBMC) of one-step harnesses over the real emit_batcher code",
    "functions": [],
    "bounds": "",
    "outside": "",
    "stubs": [],
    "assumptions": [],
    "timeout": {"quick": 900, "thorough": 3600},
}
