PROP = {'kani_groups': ['hk_batcher'],
 'smt': [],
 'technique': 'bounded model checking (Kani/CBMC) of one-step inductive harnesses over the real emit_batcher code '
              '(scratch copy with the Mutex / catch_unwind / de-asynced exec substitutions): every sender operation '
              'and one full receiver-loop iteration from an ARBITRARY valid state; composition over histories is a '
              'written induction',
 'functions': ['emit_batcher::bounded, Sender::{send, try_send, send_or_wait}, BatchError::{retry, no_retry, '
               'try_into_retryable, into_retryable}',
               'Receiver::exec (one loop iteration incl. the whole retry loop), Batch::new/default, Capacity::{new, '
               'next}, CatchUnwind::poll',
               'impl Channel for the harness queue ArrQ<4> (instantiation)'],
 'bounds': 'capacity 1..=3, pending <= capacity; sender steps: <= 1 (thorough 2) watchers of each kind registered; '
           'send_or_wait: <= 2 wait rounds, state arbitrarily replaced during each wait; receiver iteration: 0..=2 '
           '(thorough 3) pending items, 1 (thorough 0..2) watchers of each kind, retry budget 0/1 (thorough 2) '
           'instead of 10, ARBITRARY receiver history (retry counter 0..=budget+1, retry back-off <= 10 s, idle back-off <= 500 ms) ' 
           'left by earlier batches, processor outcome per attempt in {Ok, Err no-retry, Err retry(any remainder of <= 2 (3) '
           'items incl. empty)}, panic plan over all guarded calls; Capacity: any 32-entry history',
 'outside': 'CANNOT BE ENCODED (Kani executes one thread, no OS): batcher/src/tokio.rs and web.rs entirely; the '
            'real condition variable, Instant, thread spawn/join of batcher/src/sync.rs (its blocking wrappers run on '
            'stand-ins, see stubs); wall-clock time; real unwinding; the std mutex itself (assumed). The multi-step composition '
            '(any number of senders, any interleaving, histories of any length) is a WRITTEN induction over the '
            'solver-checked one-step obligations (harness/hk_batcher/src/lib.rs), not a solver result; a bounded '
            "multi-step schedule harness did not fit CBMC (20 min symex, no verdict). Also outside: the claim 'under "
            "every interleaving' is reduced to 'every step is atomic under the (assumed) mutex and correct from "
            "every state'; items pending when the receiver is torn down (documented exception); Channel impls of "
            'emit_file / emit_otlp; retry budgets > 2 (Retry itself is decided for every budget by c08_q_k_retry)',
 'stubs': ["batcher:sync-* — batcher/src/sync.rs: std::sync::{Condvar, Mutex} and std::time::Instant -> stand-ins: Instant reads a harness clock (whole seconds); Condvar::wait_timeout(guard, dur) releases the guard, runs the harness environment step (time passes; the batch carrying the parked callbacks may finish, which runs them) and returns woken / timed out (spurious wake-ups included); assumed of the std condvar: a wait reported as timed out lasted at least dur; the Trigger's own mutex is a single-owner cell",
           'batcher:send-or-wait-pub — visibility only: the private Sender::send_or_wait is made pub in the scratch tree (harness module s_sow)',
           "the mutex stand-in also counts the guards alive (HELD): every harness callback standing for user code (flush / empty callbacks, samplers, processors, waits, the condvar environment step) asserts HELD == 0 — user code never runs inside the channel's critical section",
           'batcher:mutex — std::sync::Mutex in batcher/src/lib.rs -> single-owner cell with the same lock() API, an '
           'acquisition counter and a hook called before every acquisition; asserts the lock is never re-acquired '
           "while held. Mutual exclusion itself is std's contract and is ASSUMED",
           'batcher:catch-unwind — std::panic::catch_unwind -> panic plan: the i-th guarded call either runs its '
           'closure and returns Ok, or (plan bit i) does not run it, drops it and returns Err; partial effects of a '
           'closure that panics half-way are not modelled',
           'batcher:exec-fn/exec-await-* — Receiver::exec de-asynced in the scratch tree only (async fn -> fn, each '
           '.await -> poll once with a no-op waker, the future must be Ready); preserves the program order of the '
           'single receiver task for processors/waits whose futures complete; never-completing futures are outside',
           'batcher:capacity-pub + #[kani::stub(Capacity::next -> constant 0)] in the receiver harnesses only: the '
           'result is only a hint for Channel::with_capacity (ignored by the harness queue); the real Capacity::next '
           'is decided for every state by c06_q_k_capacity',
           "receiver harnesses cut the run by assume(false) at the receiver's second acquisition of the state lock, "
           'after the post-conditions of the iteration were asserted there',
           'inject/batcher.rs: read-only snapshot, constructor of a (Sender, Receiver) pair from an explicit state '
           '(through `bounded`), pub wrappers around send_or_wait / Watchers / Batch::new / Retry / Delay / Capacity '
           '/ CatchUnwind — no logic'],
 'assumptions': ['pre-state of every one-step harness: 1 <= capacity <= 3, pending <= capacity (representation '
                 'invariant I0, shown preserved by every sender step); everything else arbitrary',
                 'Channel instantiation: ArrQ<4>, a fixed-array FIFO of u8 implementing the public Channel trait '
                 '(Vec::push with symbolic length costs 9 M SAT variables); other Channel impls are outside',
                 'std::sync::Mutex provides mutual exclusion (assumed, replaced)',
                 'a send on a CLOSED channel (receiver gone) enqueues nothing; what it does to items that can no '
                 'longer be delivered is not constrained (on the pinned tree a closed+full send still clears the '
                 'queue and counts a truncation)'],
 'timeout': {'quick': 900, 'thorough': 3600},
 'slow_first': ['_r_exec', 'send_or_wait']}
