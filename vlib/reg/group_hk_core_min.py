GROUP = {
    # emit_core with NO cargo features (no_std, no alloc)
    "stub_sets": [],
    # assertion reach checks off (measured 2.5x faster): vacuity is guarded by kani::cover! in every harness and by the mutant twins
    "kani_args": ["-Z", "stubbing", "--no-assertion-reach-checks"],
    # modules of the harness crate whose items the generated playback tests need in scope
    "modules": ["c15_ts", "c15_path", "c16_tpl", "rec", "c01_emit", "c02_props"],
}
