GROUP = {
    # emit_core with NO cargo features (no_std, no alloc)
    "stub_sets": [],
    "kani_args": ["-Z", "stubbing"],
    # modules of the harness crate whose items the generated playback tests need in scope
    "modules": ["c15_ts", "c15_path", "c16_tpl", "rec", "c01_emit", "c02_props"],
}
