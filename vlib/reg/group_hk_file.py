GROUP = {
    # emit_file (default-features = false) + injected `verif` module (stubs/file.toml)
    "stub_sets": ["file"],
    "kani_args": ["-Z", "stubbing"],
    # modules of the harness crate whose items the generated playback tests need in scope
    "modules": ["hfs", "c10_write", "c10_batch", "c11_retention", "c11_member", "c11_name"],
}
