# io::Error's drop glue is recursive through `Box<dyn Error>` (Kani over-approximates the drop candidates of the
# trait object, among them a type that again holds an io::Error). The harness filesystem only ever builds errors
# from an `io::ErrorKind` (no heap payload), so the recursive arm is infeasible; without a cap CBMC nevertheless
# unwinds it `unwind` levels deep at every drop site (measured: 25 GB / no verdict in 17 min). The cap keeps the
# unwinding assertion: a reachable second level would make the harness inconclusive, never pass.
# The symbol is instantiated inside std, so it only depends on the toolchain.
_IOERR_DROP = "_RINvNtCs8xvirJzNMvV_4core3ptr9drop_glueNtNtNtB4_2io5error5ErrorECs3GJ6w2eqr8A_3std"

GROUP = {
    # emit_file (default-features = false) + injected `verif` module (stubs/file.toml)
    "stub_sets": ["file"],
    "kani_args": ["-Z", "stubbing"],
    # modules of the harness crate whose items the generated playback tests need in scope
    "modules": ["hfs", "c10_write", "c10_batch", "c11_retention", "c11_member", "c11_name"],
    # only harnesses whose goto program contains the symbol (CBMC rejects an unknown loop identifier)
    "cbmc_args": [
        (r"_(write|open|retention|period)_", ["--unwindset", _IOERR_DROP + ":1"]),
    ],
}
