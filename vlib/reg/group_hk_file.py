# io::Error's drop glue is recursive through `Box<dyn Error>` (Kani over-approximates the drop candidates of the
# trait object, among them a type that again holds an io::Error). The harness filesystem only ever builds errors
# from an `io::ErrorKind` (no heap payload), so the recursive arm is infeasible; without a cap CBMC nevertheless
# unwinds it `unwind` levels deep at every drop site (measured: 25 GB / no verdict in 17 min). The cap keeps the
# unwinding assertion: a reachable second level would make the harness inconclusive, never pass.
# The symbol is instantiated inside std, so it only depends on the toolchain.
_IOERR_DROP = "_RINvNtCs8xvirJzNMvV_4core3ptr9drop_glueNtNtNtB4_2io5error5ErrorECs3GJ6w2eqr8A_3std"

# Formatting (`format!` of the name parts is the subject of the C11 naming harnesses and is never stubbed): the
# `dyn fmt::Write` behind a `Formatter` is over-approximated by Kani to every `Write` implementor, among them
# `PadAdapter` (pretty `{:#?}` output), whose `write_str` calls a `dyn Write` again. The real sink is a `String`,
# so the recursion is infeasible; it is capped (unwinding assertions stay on). core symbols: toolchain only.
_PAD_WRITE = "_RNvXs0_NtNtCs8xvirJzNMvV_4core3fmt8buildersNtB5_10PadAdapterNtB7_5Write9write_str"
_FMT_WRITE = "_RNvNtCs8xvirJzNMvV_4core3fmt5write"

GROUP = {
    # emit_file (default-features = false) + injected `verif` module (stubs/file.toml)
    "stub_sets": ["file"],
    "kani_args": ["-Z", "stubbing"],
    # modules of the harness crate whose items the generated playback tests need in scope
    "modules": ["hfs", "c10_write", "c10_batch", "c11_retention", "c11_member", "c11_name"],
    # only harnesses whose goto program contains the symbol (CBMC rejects an unknown loop identifier)
    "cbmc_args": [
        (r"_(write|open|retention)_", ["--unwindset", _IOERR_DROP + ":1"]),
        (r"_name_", ["--unwindset", _PAD_WRITE + ":1," + _FMT_WRITE + ":1"]),
    ],
}
