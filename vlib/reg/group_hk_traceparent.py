GROUP = {
    # emit_traceparent (+ emit with default features); thread_local! replaced by per-"thread" slots
    "stub_sets": ["tls_traceparent"],
    "kani_args": ["-Z", "stubbing"],
    "recursion_caps": [(r"value_bag::internal::cast.*CastVisitor.*::fill", 3)],
    "modules": ["util", "env", "c15_tp", "c18_sampling"],
}
