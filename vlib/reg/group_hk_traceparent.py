GROUP = {
    # emit_traceparent (+ emit with default features); thread_local! replaced by per-"thread" slots
    "stub_sets": ["tls_traceparent"],
    # assertion reach checks off (measured 2.5x faster): vacuity is guarded by kani::cover! in every harness and by the mutant twins
    "kani_args": ["-Z", "stubbing", "--no-assertion-reach-checks"],
    "recursion_caps": [(r"value_bag::internal::cast.*CastVisitor.*::fill", 3)],
    "modules": ["util", "env", "c15_tp", "c18_sampling"],
}
