PROP = {
    "kani_groups": ["hk_core_min"],
    "smt": [],
    "technique": "bounded model checking (Kani/CBMC): get/pull compared with the collection's own enumeration for a symbolic key",
    "functions": [
        "Props::{for_each, get, pull, is_unique, and_props, as_map} for (K,V), [P], [T;N], Option, &P, Empty, And, AsMap, dyn ErasedProps, Extent",
    ],
    "bounds": "collections of <= 4 pairs, keys symbolic over the pool {a, b, empty, U+00E9} (duplicates occur), nest depth <= 3, "
              "visitor break position symbolic",
    "outside": "alloc/std collections (Box, Arc, Dedup, BTreeMap, HashMap), ambient-context snapshots, span/metric views and "
               "macro-built collections unless their groups are registered below",
    "stubs": [],
    "assumptions": [],
    "timeout": {"quick": 600, "thorough": 3600},
}
