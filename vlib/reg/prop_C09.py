PROP = {'kani_groups': ['hk_batcher'],
 'smt': [],
 'technique': 'bounded model checking (Kani/CBMC) of one-step inductive sender harnesses over the real emit_batcher '
              'code from an arbitrary valid state: the capacity invariant is shown preserved by every operation, so '
              'it holds after any history',
 'functions': ['ChannelMetrics::sample_metrics via Sender::metric_source / Receiver::metric_source (c09_*_s_metrics_*: the caller-supplied sampler '
               'runs with the state lock free — an emitting thread is never made to wait for user code; explored for the first 2 of the 7 metrics)',
               'Sender::{send, try_send, send_or_wait, when_empty}, BatchError::{retry, no_retry, '
               'try_into_retryable, into_retryable}',
               'internal_metrics::Counter (queue_full_truncated, queue_full_blocked) as read through the injected '
               'snapshot'],
 'bounds': 'capacity 1..=3 (the invariant and the step are independent of history length and of the number of '
           'senders: arbitrary pre-state), <= 1 (thorough 2) watchers of each kind; send_or_wait: capacity <= 2 '
           '(thorough 3), <= 2 wait rounds, arbitrary clock readings, shared state arbitrarily replaced during each '
           'wait',
 'outside': 'CANNOT BE ENCODED (Kani executes one thread, no OS): batcher/src/tokio.rs and web.rs entirely; the '
            'real condition variable, Instant, thread spawn/join of batcher/src/sync.rs (its blocking wrappers run on '
            'stand-ins, see stubs); wall-clock time; real unwinding; the std mutex itself (assumed). The multi-step composition '
            '(any number of senders, any interleaving, histories of any length) is a WRITTEN induction over the '
            'solver-checked one-step obligations (harness/hk_batcher/src/lib.rs), not a solver result; a bounded '
            'multi-step schedule harness did not fit CBMC (20 min symex, no verdict). Also outside: capacities > 3 '
            '(no code path depends on the value beyond the comparison with len); wall time of `emit` under a stalled '
            "worker; blocking_send's own timeout arithmetic (Instant/condvar) — only the loop it drives "
            '(send_or_wait) is covered; the emitter-specific Channel impls (emit_file::EventBatch, emit_otlp '
            'Channel) and their len/clear; capacity 0 (excluded by the property)',
 'stubs': ["batcher:sync-* — batcher/src/sync.rs: std::sync::{Condvar, Mutex} and std::time::Instant -> stand-ins: Instant reads a harness clock (whole seconds); Condvar::wait_timeout(guard, dur) releases the guard, runs the harness environment step (time passes; the batch carrying the parked callbacks may finish, which runs them) and returns woken / timed out (spurious wake-ups included); assumed of the std condvar: a wait reported as timed out lasted at least dur; the Trigger's own mutex is a single-owner cell",
           'batcher:send-or-wait-pub — visibility only: the private Sender::send_or_wait is made pub in the scratch tree (harness module s_sow)',
           "the mutex stand-in also counts the guards alive (HELD): every harness callback standing for user code (flush / empty callbacks, samplers, processors, waits, the condvar environment step) asserts HELD == 0 — user code never runs inside the channel's critical section",
           'batcher:mutex — std::sync::Mutex in batcher/src/lib.rs -> single-owner cell with the same lock() API, an '
           'acquisition counter and a hook called before every acquisition; asserts the lock is never re-acquired '
           "while held. Mutual exclusion itself is std's contract and is ASSUMED",
           'batcher:catch-unwind — std::panic::catch_unwind -> panic plan: the i-th guarded call either runs its '
           'closure and returns Ok, or (plan bit i) does not run it, drops it and returns Err; partial effects of a '
           'closure that panics half-way are not modelled',
           'inject/batcher.rs: read-only snapshot, constructor of a (Sender, Receiver) pair from an explicit state '
           '(through `bounded`), pub wrappers around send_or_wait / Watchers / Batch::new / Retry / Delay / Capacity '
           '/ CatchUnwind — no logic'],
 'assumptions': ['pre-state of every one-step harness: 1 <= capacity <= 3, pending <= capacity (representation '
                 'invariant I0, shown preserved by every sender step); everything else arbitrary',
                 'Channel instantiation: ArrQ<4>, a fixed-array FIFO of u8 implementing the public Channel trait '
                 '(Vec::push with symbolic length costs 9 M SAT variables); other Channel impls are outside',
                 'std::sync::Mutex provides mutual exclusion (assumed, replaced)',
                 'overflow rule (queue = [new item], truncation +1) is claimed for an OPEN channel; on a closed '
                 "channel (receiver gone) only 'nothing is enqueued' is claimed (pinned tree: closed+full send "
                 'clears the dead queue and counts a truncation)',
                 'try_send / send_or_wait on a closed channel return an error WITHOUT the item (not silent, but not '
                 'handed back); handing back is claimed for the full/timeout case the property names'],
 'timeout': {'quick': 900, 'thorough': 3600},
 'slow_first': ['send_or_wait']}
