GROUP = {
    # emit_batcher with NO cargo features on the scratch tree + stubs/batcher.toml + inject/batcher.rs
    "stub_sets": ["batcher"],
    # --no-assertion-reach-checks: Kani's per-assertion reachability instrumentation made the receiver harnesses
    # 2.5x slower (405 s -> 161 s measured) and its UNREACHABLE verdicts are not used by the runner: non-vacuity is
    # established by explicit kani::cover! in every harness and by the mutant twins.
    "kani_args": ["-Z", "stubbing", "--no-assertion-reach-checks"],
    # modules of the harness crate whose items the generated playback tests need in scope
    "modules": ["util", "s_send", "s_sow", "s_watch", "s_metrics", "s_block", "k_kernels", "r_exec"],
    "cbmc_args": [],
}
