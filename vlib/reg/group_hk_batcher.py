GROUP = {
    # emit_batcher with NO cargo features on the scratch tree + stubs/batcher.toml + inject/batcher.rs
    "stub_sets": ["batcher"],
    "kani_args": ["-Z", "stubbing"],
    # modules of the harness crate whose items the generated playback tests need in scope
    "modules": ["util", "s_send", "s_watch", "k_kernels", "r_exec"],
    "cbmc_args": [],
}
