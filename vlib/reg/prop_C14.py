PROP = {
    "kani_groups": ["hk_otlp"],
    "smt": [],
    "technique": "bounded model checking (Kani/CBMC) of the three OTLP event encoders' accept/decline decision over symbolic events",
    "functions": [],
    "bounds": "",
    "outside": "",
    "stubs": [],
    "assumptions": [],
    "timeout": {"quick": 600, "thorough": 3600},
}
