from .. import smt_units

PROP = {
    "kani_groups": ["hk_otlp"],
    "smt": [smt_units.unit_otlp_dispatch],
    "level_text": "Decides the accept/decline predicate of each of the three OTLP event encoders. The dispatch in "
                  "<OtlpInner as Emitter>::emit (first configured and accepting signal in the order metrics, traces, logs; "
                  "discard counter otherwise) cannot be driven under Kani (OtlpInner owns a JoinHandle and three emit_batcher "
                  "senders); it is decided by the MIR control-flow engine (E2-cfg unit_otlp_dispatch: over all valuations of "
                  "'signal configured' x 'encoder accepted', exactly one effect per path - the send of the first configured and "
                  "accepting signal in the order metrics, traces, logs - and the discard counter iff none).",
    "technique": "bounded model checking (Kani/CBMC) of MetricsEventEncoder/TracesEventEncoder/LogsEventEncoder::encode_event(..).is_some() "
                 "over symbolic events, with a RawEncoder that does not serialise (the decision is taken before E::encode); control-flow abstraction of the "
                 "MIR of <OtlpInner as Emitter>::emit decided by SMT (cvc5, z3 cross-check) over all valuations of signal presence x encoder answers",
    "functions": [
        "emit_otlp::data::metrics::{MetricsEventEncoder::encode_event, DataPointBuilder::points_from_value (Extract stream), "
        "SumPoints::{push_point_i64, push_point_f64, into_points}, RawPointSet::{push_point_i64, push_point_f64, into_points}}",
        "emit_otlp::data::traces::TracesEventEncoder::encode_event",
        "emit_otlp::data::logs::LogsEventEncoder::encode_event",
        "emit::kind::{KindFilter::matches, is_span_filter, is_metric_filter, Kind::from_value, Kind::from_str}",
        "emit::{Props::get, Props::pull, Value::{cast, downcast_ref, parse (text kinds), to_cow_str}, Extent::{as_range, as_point}}",
    ],
    "bounds": "kind in {absent, text span, text metric, other text, captured Kind::Span, captured Kind::Metric} (a constant of each "
              "harness arm); extent in {none, point, range} symbolic; metric value in {missing, i64, f64, [i64; 2], [f64; 2], text, bool} "
              "(a constant of each arm, the numbers symbolic over their full range); metric_agg in {absent, count, sum, other text} "
              "symbolic; quick tier: the representative subset named q, thorough: all 6 x 7 kind/value combinations",
    "outside": "which endpoint finally receives "
               "the record; empty sequences (a gauge without points is declined, a sum of nothing is accepted), sequences longer "
               "than 2, nested sequences, unsigned/128-bit values beyond i64 (sval streams them as text: declined) — not in the "
               "bound; kind values that are neither text nor a captured emit::Kind; serialisation of the accepted record (C13)",
    "stubs": [
        "verif::NullEnc: RawEncoder whose encode() drops the record without streaming it",
        "emit::Value::parse -> fails the harness when reached (captured-Kind harnesses only: the kind must come from the downcast; "
        "without the stub the generic format-and-reparse path does not finish in 15 min)",
        "kani -Z restrict-vtable (virtual calls restricted to functions present in a vtable of the trait method)",
    ],
    "assumptions": [
        "the two elements of a float sequence are not both infinite (inf + -inf = NaN trips Kani's NaN-on-addition check, "
        "which is not a Rust panic; NaN data points are outside this property)",
    ],
    "timeout": {"quick": 700, "thorough": 1800},
    "slow_first": [r"_metrics_captured_", r"_metrics_text_(i64|f64|seq|text|bool|missing)", r"_metrics_"],
}
