from .. import smt_units

PROP = {
    "kani_groups": ["hk_otlp"],
    "smt": [smt_units.unit_otlp_dispatch],
    "technique": "bounded model checking (Kani/CBMC) of the three OTLP event encoders' accept/decline decision over symbolic events",
    "functions": ['E2-cfg (mir2smt/cfgabs.py): <OtlpInner as Emitter>::emit dispatch: exactly one send or one discard per event, through the first configured and accepting signal in the order metrics, traces, logs (presence of signals and encoder answers are free booleans)'],
    "bounds": "",
    "outside": "",
    "stubs": [],
    "assumptions": [],
    "timeout": {"quick": 700, "thorough": 1800},
    "slow_first": [r"_metrics_(text|captured)_(i64|f64|seq)"],
}
