PROP = {
    "kani_groups": ["hk_otlp"],
    "smt": [],
    "technique": "bounded model checking (Kani/CBMC) of the three OTLP event encoders' accept/decline decision over symbolic events",
    "functions": [],
    "bounds": "",
    "outside": "",
    "stubs": [],
    "assumptions": [],
    "timeout": {"quick": 700, "thorough": 1800},
    "slow_first": [r"_metrics_(text|captured)_(i64|f64|seq)"],
}
