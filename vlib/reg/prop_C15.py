PROP = {
    "kani_groups": ["hk_core_min", "hk_emit_min"],
    "smt": [],
    "technique": "bounded model checking of the compiled parsers/formatters with Kani/CBMC over symbolic text",
    "functions": [
        "emit_core::timestamp::{parse_rfc3339, fmt_rfc3339, Timestamp::try_from_str, from_str, from_parts}",
        "emit_core::path::{is_valid_path, Path::new_ref}",
        "emit::span::{TraceId, SpanId}::{try_from_hex_slice, from_str, to_hex, from_u128/from_u64, from_bytes, to_bytes, Display, from_value}",
        "emit::level::{Level::from_str, parse, Display, from_value}, emit::kind::{Kind::from_str, Display, from_value}",
    ],
    "bounds": "timestamp text: every length 0..=32 (quick: 0..=19 symbolic, 20,21,22,25,30,31), bytes over "
              "{0,1,2,9,-,:,.,T,Z,+,blank,z,x} plus one U+00E9 at a symbolic offset; paths <= 5 (thorough 7) bytes over {a,b,_,1,:,blank,U+00E9}; "
              "ids: every 32 / 16 byte string over all 256 byte values, every length 0..=35, every non-zero 128/64-bit value; "
              "levels: strings <= 4 (thorough 6) bytes over an 18-symbol alphabet; kinds <= 6 bytes",
    "outside": "bytes outside the alphabets; strings longer than the stated lengths for the lenient parsers",
    "stubs": ["Timestamp::from_parts -> recorder (field-extraction and round-trip harnesses only)",
              "Timestamp::to_parts -> arbitrary in-range Parts (round-trip / order harnesses only)",
              "core::str::from_utf8 -> asserts ASCII then from_utf8_unchecked (formatter harnesses only)"],
    "assumptions": ["input text is valid UTF-8 (built from an alphabet of well-formed scalar values)"],
    "timeout": {"quick": 700, "thorough": 3600},
}
