from .. import smt_units

PROP = {
    "kani_groups": ["hk_core_min", "hk_emit_min", "hk_traceparent"],
    "smt": [smt_units.unit_calendar],
    "technique": "bounded model checking of the compiled parsers/formatters with Kani/CBMC over symbolic text; "
                 "the calendar arithmetic (to_parts / from_parts) by engine E2: MIR -> SMT-LIB Int encoding decided by "
                 "cvc5 over the full [MIN, MAX] range, cross-checked with z3, validated against the natively executed functions",
    "functions": [
        "emit_core::timestamp::{parse_rfc3339, fmt_rfc3339, Timestamp::try_from_str, from_str, from_parts}",
        "emit_core::path::{is_valid_path, Path::new_ref}",
        "emit::span::{TraceId, SpanId}::{try_from_hex_slice, from_str, to_hex, from_u128/from_u64, from_bytes, to_bytes, Display, from_value}",
        "emit_traceparent::{Traceparent::{try_from_str, Display, new}, TraceFlags::{from_u8, to_hex, try_from_hex_slice, is_sampled}}",
        "emit::level::{Level::from_str, parse, Display, from_value}, emit::kind::{Kind::from_str, Display, from_value}",
        "E2 (mir2smt): emit_core::timestamp::Timestamp::{to_parts, from_parts, from_unix} and the constants LEAPOCH_SECS, "
        "DAYS_PER_400Y/100Y/4Y, DAYS_IN_MONTH, MIN, MAX (MIR bodies, translated on every run)",
    ],
    "bounds": "timestamp text: every length 0..=32 (quick: 0..=19 symbolic, 20,21,22,25,30,31), bytes over "
              "{0,1,2,9,-,:,.,T,Z,+,blank,z,x} plus one U+00E9 at a symbolic offset; format->parse at every precision for all calendar fields, the sub-second "
              "round trip for nanosecond values with <= 2 (thorough 3) non-zero decimal digits at symbolic positions; paths <= 5 (thorough 7) bytes over {a,b,_,1,:,blank,U+00E9}; "
              "ids: every 32 / 16 byte string over all 256 byte values, every length 0..=35, every non-zero 128/64-bit value; "
              "levels: strings <= 4 (thorough 6) bytes over an 18-symbol alphabet; kinds <= 6 bytes; "
              "E2 calendar obligations: every Timestamp in [MIN, MAX] (secs 0..=253402300799, nanos 0..=999999999, all pairs for "
              "monotonicity) and every Parts with years 0..=9999, months/days/hours/minutes/seconds 0..=99, nanos 0..=999999999; "
              "the DAYS_IN_MONTH loop is unrolled 13 times with an unwinding obligation",
    "outside": "bytes outside the alphabets; strings longer than the stated lengths for the lenient parsers",
    "stubs": ["Timestamp::from_parts -> recorder (field-extraction and round-trip harnesses only)",
              "Timestamp::to_parts -> arbitrary in-range Parts (round-trip / order harnesses only)",
              "core::str::from_utf8 -> asserts ASCII then from_utf8_unchecked (formatter harnesses only)",
              "E2 summaries (trusted, /verif/mir2smt/summaries.py): Duration::{new, as_secs, subsec_nanos}, Duration PartialOrd "
              "(ge/le), integer From/TryInto, i64::trailing_zeros (exact on the low 8 bits, over-approximated above), "
              "Result::ok, Try::branch / FromResidual for Option"],
    "assumptions": ["input text is valid UTF-8 (built from an alphabet of well-formed scalar values)"],
    "timeout": {"quick": 700, "thorough": 3600},
}
