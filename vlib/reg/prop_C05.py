PROP = {
    "kani_groups": ["hk_emit_min", "hk_emit_pan"],
    "smt": [],
    "technique": "bounded model checking (Kani/CBMC) of SpanGuard over symbolic operation sequences, filter verdicts and clock readings",
    "functions": [
        "emit::span::SpanGuard::{new, push_ctxt, start, is_enabled, with_completion, with_mdl, with_name, with_props, map_props, complete, complete_default, complete_with, drop}",
        "emit::__private::{__private_complete_span, __PrivateCompleteSpan::complete, CaptureLevel}, completion::Default::{with_lvl, with_panic_lvl, complete} incl. the panicking branch (std)",
        "emit::timer::Timer::{start, extent}, Span::new, completion::{Default::complete, default, &C, Empty}, emit_core::emit, Frame::{push, disabled, call}",
    ],
    "bounds": "<= 3 (thorough 4) symbolic builder operations from {start, with_name, with_mdl, with_props, map_props, with_completion} "
              "followed by one of {drop, complete, complete_with}; filter verdict symbolic; every clock reading an arbitrary Option<Timestamp> "
              "(second resolution); harness Ctxt (array-backed) as the ambient context",
    "outside": "real panic unwinding (Kani aborts at a panic: the completion code runs on the normal path with std::thread::panicking() a harness-drawn "
               "flag: group hk_emit_pan, c05_q_macro_hook_panic_level; the std build itself does not fit); the attribute-macro expansions themselves beyond the hook they call",
    "stubs": ["is_panicking() of the default completion -> harness-drawn flag in the no_std build (stubs/panicking_nostd.toml, group hk_emit_pan)", "clock = scripted sequence of symbolic readings", "rng = counter (non-zero, non-repeating)", "filter/completion/emitter = recorders",
              "Ctxt = array-backed harness implementation of the public trait (env::ArrCtxt)"],
    "assumptions": [],
    "timeout": {"quick": 900, "thorough": 5400},
}
