PROP = {
    "kani_groups": ["hk_emit_min"],
    "smt": [],
    "technique": "bounded model checking (Kani/CBMC) of SpanGuard over symbolic operation sequences, filter verdicts and clock readings",
    "functions": [
        "emit::span::SpanGuard::{new, push_ctxt, start, is_enabled, with_completion, with_mdl, with_name, with_props, map_props, complete, complete_default, complete_with, drop}",
        "emit::timer::Timer::{start, extent}, Span::new, completion::{Default::complete, default, &C, Empty}, emit_core::emit, Frame::{push, disabled, call}",
    ],
    "bounds": "<= 3 (thorough 4) symbolic builder operations from {start, with_name, with_mdl, with_props, map_props, with_completion} "
              "followed by one of {drop, complete, complete_with}; filter verdict symbolic; every clock reading an arbitrary Option<Timestamp> "
              "(second resolution); harness Ctxt (array-backed) as the ambient context",
    "outside": "real panic unwinding (Kani aborts at a panic: the Drop code is exercised on the normal path; the std-only thread::panicking "
               "branch of the default completion is compiled out in this no_std group); the #[emit::span] macro forms",
    "stubs": ["clock = scripted sequence of symbolic readings", "rng = counter (non-zero, non-repeating)", "filter/completion/emitter = recorders",
              "Ctxt = array-backed harness implementation of the public trait (env::ArrCtxt)"],
    "assumptions": [],
    "timeout": {"quick": 900, "thorough": 5400},
}
