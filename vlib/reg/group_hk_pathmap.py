import os
import re


def _prune(hdir, tree, tier):
    """Quick tier: compile only the quick harnesses (the thorough families are ~90 harnesses; every harness costs
    codegen time and 3 MB in the target directory that each pool worker copies). Same source otherwise."""
    if tier != "quick":
        return
    src = os.path.join(hdir, "src")
    for f in os.listdir(src):
        if not f.endswith(".rs"):
            continue
        p = os.path.join(src, f)
        lines = open(p).read().splitlines()
        keep = [l for l in lines if not re.match(r"^(seqs|twin)!\(c17_[tw]_", l)]
        if len(keep) != len(lines):
            open(p, "w").write("\n".join(keep) + "\n")


GROUP = {
    # `emit` + `emit_core` with the `alloc` feature ONLY (no std): MinLevelPathMap<L> over a harness level type.
    # split_scanner: Path::segments' str::split("::") -> hand-written scanner (std trusted; see stubs/split_scanner.toml)
    "stub_sets": ["split_scanner"],
    # assertion reach checks off (measured 2.5x faster): vacuity is guarded by kani::cover! in every harness and by the mutant twins
    "kani_args": ["-Z", "stubbing", "--no-assertion-reach-checks"],
    # Vec buffers are untyped byte arrays for CBMC; its field sensitivity (constant propagation per array cell) stops at
    # 64 cells by default, so everything read back from a Vec<(Str, PathNode)> buffer (288 bytes at capacity 4) was
    # symbolic for symex: every binary search / memcmp unwound to the bound, child pointers case-split over all
    # objects (one registration + one lookup: 77 s, 1.3 M SAT variables; two-segment registrations: > 26 GB).
    # With the limit raised the trie is concrete for symex and only the levels reach the solver (same harness: 7 s,
    # 0.12 M variables). Purely a symex precision option: no effect on soundness.
    "cbmc_args": [(r".", ["--max-field-sensitivity-array-size", "1024"])],
    # harnesses use < 2 GB each (measured)
    "modules": ["c17_nested"],
    "generate": _prune,
}
