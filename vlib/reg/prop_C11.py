from .. import smt_units

PROP = {
    "kani_groups": ["hk_file"],
    "smt": [smt_units.unit_file_arith, smt_units.unit_file_onbatch],
    "technique": "bounded model checking (Kani/CBMC) of the file-writing kernels of emit_file over a fault-injecting harness filesystem",
    "functions": ["E2-cfg (mir2smt/cfgabs.py): Worker::on_batch::{closure#0} structural obligation r1 (every try_open_create is preceded by ActiveFileSet::read and apply_retention on the same path); counter-paths are concretised through the real Worker over an in-memory filesystem and reported only if the property's own oracle (files of the set <= max_files after every batch) fails",
                  "E2 (mir2smt, MIR -> SMT-LIB Int, cvc5 + z3): emit_file::rolling_millis composed with Timestamp::{to_parts, from_parts, duration_since} "
                  "for every clock reading in [MIN, MAX] x {Day, Hour, Minute}: panic-free, < 86 400 000, monotone within a period"],
    "bounds": "",
    "outside": "",
    "stubs": [],
    "assumptions": [],
    "timeout": {"quick": 600, "thorough": 1800},
}
