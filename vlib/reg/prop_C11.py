from .. import smt_units

PROP = {
    "kani_groups": ["hk_file"],
    "smt": [smt_units.unit_file_arith],
    "technique": "bounded model checking (Kani/CBMC) of the file-writing kernels of emit_file over a fault-injecting harness filesystem",
    "functions": ["E2 (mir2smt, MIR -> SMT-LIB Int, cvc5 + z3): emit_file::rolling_millis composed with Timestamp::{to_parts, from_parts, duration_since} "
                  "for every clock reading in [MIN, MAX] x {Day, Hour, Minute}: panic-free, < 86 400 000, monotone within a period"],
    "bounds": "",
    "outside": "",
    "stubs": [],
    "assumptions": [],
    "timeout": {"quick": 600, "thorough": 1800},
}
