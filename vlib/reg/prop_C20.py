from .. import smt_units

PROP = {
    "kani_groups": ["hk_emit_std"],
    "smt": [smt_units.unit_slot_init],
    "technique": "bounded model checking (Kani/CBMC) of AmbientSlot over every serial order of initialisers and observers (real OnceLock)",
    "functions": ['E2-cfg on the MIR of emit::setup::Setup::{try_init_slot, try_init_internal, try_init} (the init_* forms call these): on every path the runtime handed to the slot was built by Runtime::with_emitter / with_filter / with_ctxt / with_clock / with_rng, all five before AmbientSlot::init (AmbientInternalSlot::init); thin wrappers delegate to try_init_slot; a counter-path is replayed natively with five recognisable components read back through the slot',
                  'E2-cfg (mir2smt/cfgabs.py): AmbientSlot::{init, get, is_enabled} operate on the OnceLock only through one set then (on Ok) one get resp. one get; SMT interleaving model of <= 3 initialisers and <= 3 observers over an atomic write-once cell (OnceLock contract trusted)',
                  "emit_core::runtime::{AmbientSlot::{new, init, get, is_enabled}, Runtime::{build, emit, map_*}, AmbientSync}, impl Emitter/Filter/Ctxt/Clock/Rng for the erased components"],
    "bounds": "Kani: init / losing init / is_enabled with a symbolic winner, and observers that flush / read rng and clock through slot.get() before and after (c20_q_inert_before_init: an observer that EMITS, flushes and reads rng through the erased runtime of a NOT YET initialised slot - nothing is emitted, flush is true, nothing panics; observers that emit through an INITIALISED slot do not finish in 15 min, also with --max-field-sensitivity-array-size 1024: not registered); originally planned: each one of {observe (emit + flush + rng through slot.get()), initialise configuration 1, initialise configuration 2}",
    "outside": "E2-cfg fallback: if get / is_enabled no longer answer from one read of the OnceLock the candidate 'enabled observed before the components are visible' is replayed natively (stress run, 1 initialiser + 3 observers x 20000 slots) - a VIOLATION only if that reproduces; racing threads (Kani executes one thread): mutual exclusion and publication are std::sync::OnceLock's documented contract and are trusted; "
               "the panicking non-try form in emit::setup",
    "stubs": ["five recording components per configuration"],
    "assumptions": ["OnceLock::set succeeds for exactly one caller and get observes a completed set (std contract)"],
    "level_text": "Bounded model checking of all serial orders; the concurrent clause is reduced to OnceLock's contract (trusted), so the claim is PARTIAL for racing threads.",
    "timeout": {"quick": 700, "thorough": 3600},
}
