from .. import smt_units

PROP = {
    "kani_groups": ["hk_emit_std"],
    "smt": [smt_units.unit_slot_init],
    "technique": "bounded model checking (Kani/CBMC) of AmbientSlot over every serial order of initialisers and observers (real OnceLock)",
    "functions": ['E2-cfg (mir2smt/cfgabs.py): AmbientSlot::{init, get, is_enabled} operate on the OnceLock only through one set then (on Ok) one get resp. one get; SMT interleaving model of <= 3 initialisers and <= 3 observers over an atomic write-once cell (OnceLock contract trusted)',
                  "emit_core::runtime::{AmbientSlot::{new, init, get, is_enabled}, Runtime::{build, emit, map_*}, AmbientSync}, impl Emitter/Filter/Ctxt/Clock/Rng for the erased components"],
    "bounds": "Kani: init / losing init / is_enabled with a symbolic winner, and observers that flush / read rng and clock through slot.get() before and after (observers that EMIT through the erased runtime do not finish in 15 min: not registered); originally planned: each one of {observe (emit + flush + rng through slot.get()), initialise configuration 1, initialise configuration 2}",
    "outside": "racing threads (Kani executes one thread): mutual exclusion and publication are std::sync::OnceLock's documented contract and are trusted; "
               "the panicking non-try form in emit::setup",
    "stubs": ["five recording components per configuration"],
    "assumptions": ["OnceLock::set succeeds for exactly one caller and get observes a completed set (std contract)"],
    "level_text": "Bounded model checking of all serial orders; the concurrent clause is reduced to OnceLock's contract (trusted), so the claim is PARTIAL for racing threads.",
    "timeout": {"quick": 700, "thorough": 3600},
}
