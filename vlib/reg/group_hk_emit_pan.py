GROUP = {
    # `emit` with NO cargo features + stubs/panicking_nostd.toml (the no_std `is_panicking()` answer is a harness flag)
    "stub_sets": ["panicking_nostd"],
    "kani_args": ["-Z", "stubbing", "--no-assertion-reach-checks"],
    "recursion_caps": [(r"value_bag::internal::cast.*CastVisitor.*::fill", 3)],
    "modules": ["c05_panic"],
}
