GROUP = {
    # emit_file WITH the default_writer feature; the one sval_json call redirected to a recording sval::Stream
    "stub_sets": ["file_writer"],
    # restrict-vtable: virtual calls only target functions that are in a vtable for that trait method (value-bag's
    # dyn visitors, dyn ErasedProps, fmt): without it they fan out over every function of a matching signature
    "kani_args": ["-Z", "stubbing", "-Z", "restrict-vtable", "--no-assertion-reach-checks"],
    "modules": ["c13_writer"],
    "cbmc_args": [],
}
