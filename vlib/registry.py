"""Registry: harness groups and per-property configuration.

One file per harness group  : vlib/reg/group_<name>.py  defining GROUP = {...}
One file per property       : vlib/reg/prop_<ID>.py     defining PROP = {...}
(separate files so that work on different properties never touches the same file)."""
import glob
import importlib
import os

GROUPS = {}
PROPS = {}

_here = os.path.join(os.path.dirname(os.path.abspath(__file__)), "reg")
for _f in sorted(glob.glob(os.path.join(_here, "*.py"))):
    _n = os.path.basename(_f)[:-3]
    if _n.startswith("group_"):
        GROUPS[_n[len("group_"):]] = importlib.import_module("vlib.reg." + _n).GROUP
    elif _n.startswith("prop_"):
        PROPS[_n[len("prop_"):]] = importlib.import_module("vlib.reg." + _n).PROP
