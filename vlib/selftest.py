"""setup_cmd: verify the tools the checks need are present; builds nothing persistent."""
import shutil
import subprocess
import sys


def run():
    ok = True
    for tool, args in [("cargo", ["kani", "--version"]), ("cbmc", ["--version"]), ("cvc5", ["--version"]),
                       ("z3", ["--version"]), ("rsync", ["--version"]), ("cargo", ["+nightly", "--version"])]:
        if shutil.which(tool) is None:
            print("missing tool: %s" % tool)
            ok = False
            continue
        try:
            r = subprocess.run([tool] + args, capture_output=True, text=True, timeout=120)
            first = (r.stdout or r.stderr).splitlines()[0] if (r.stdout or r.stderr) else ""
            print("%s %s -> %s" % (tool, " ".join(args), first))
            if r.returncode != 0:
                ok = False
        except Exception as e:
            print("%s failed: %s" % (tool, e))
            ok = False
    return 0 if ok else 2
