"""Scratch-tree regeneration: every run analyses a fresh copy of /repo's working tree.

Nothing here caches anything between runs: the copy, the substitutions, the injected
modules and all build output live in one private scratch directory which is removed
when the check ends (unless --keep is given for debugging).
"""
import os
import shutil
import subprocess
import tempfile
import tomllib

REPO = os.environ.get("VERIF_REPO", "/repo")
VERIF = os.path.dirname(os.path.dirname(os.path.abspath(__file__)))


class Inconclusive(Exception):
    """Raised when the encoding cannot be produced (anchor moved, tool failure...)."""


def scratch_root():
    return os.environ.get("VERIF_SCRATCH", "/var/tmp")


def make_scratch(tag):
    root = scratch_root()
    os.makedirs(root, exist_ok=True)
    return tempfile.mkdtemp(prefix="emitverif-%s-" % tag, dir=root)


def copy_repo(scratch):
    """Copy the *current working tree* of /repo (sources only)."""
    dst = os.path.join(scratch, "tree")
    os.makedirs(dst)
    cmd = [
        "rsync", "-a",
        "--exclude", "/target", "--exclude", "/.git", "--exclude", "/book",
        "--exclude", "/asset", "--exclude", "/wip", "--exclude", "*.rs.bk",
        REPO.rstrip("/") + "/", dst + "/",
    ]
    r = subprocess.run(cmd, capture_output=True, text=True)
    if r.returncode != 0:
        raise Inconclusive("rsync of %s failed: %s" % (REPO, r.stderr[-400:]))
    return dst


def load_stubs():
    """stubs/<set>.toml, one file per substitution set (top-level keys: sub = [...], inject = [...])."""
    import glob
    out = {}
    for p in sorted(glob.glob(os.path.join(VERIF, "stubs", "*.toml"))):
        with open(p, "rb") as f:
            out[os.path.basename(p)[:-5]] = tomllib.load(f)
    return out


def apply_substitutions(tree, sets):
    """Apply the named substitution sets of stubs.toml to the scratch tree.

    Every entry: file, anchor (literal, must occur exactly `count` times, default 1),
    replacement; or `prepend`/`append` text for a file. A missing or ambiguous anchor is
    INCONCLUSIVE (exit 2): never a pass and never a violation.
    """
    stubs = load_stubs()
    applied = []
    for name in sets:
        if name not in stubs:
            raise Inconclusive("stubs/ has no set %r.toml" % name)
        for ent in stubs[name].get("sub", []):
            path = os.path.join(tree, ent["file"])
            try:
                with open(path, encoding="utf-8") as f:
                    text = f.read()
            except OSError as e:
                raise Inconclusive("anchor file missing: %s (%s)" % (ent["file"], e))
            if "anchor" in ent and ent.get("count") == "all":
                # every occurrence, however many (0 included): used for whole classes of statements (diagnostics), so that
                # occurrences a changed tree adds are covered as well
                text = text.replace(ent["anchor"], ent["replacement"])
            elif "anchor" in ent:
                want = ent.get("count", 1)
                got = text.count(ent["anchor"])
                if got != want:
                    raise Inconclusive(
                        "anchor for %s/%s in %s occurs %d times, expected %d: %r"
                        % (name, ent.get("id", "?"), ent["file"], got, want, ent["anchor"][:80]))
                text = text.replace(ent["anchor"], ent["replacement"])
            if "prepend" in ent:
                text = ent["prepend"] + text
            if "append" in ent:
                text = text + ent["append"]
            with open(path, "w", encoding="utf-8") as f:
                f.write(text)
            applied.append("%s:%s (%s)" % (name, ent.get("id", "?"), ent["file"]))
        for ent in stubs[name].get("inject", []):
            # append /verif/inject/<src> to a crate root of the scratch tree
            src = os.path.join(VERIF, "inject", ent["src"])
            path = os.path.join(tree, ent["file"])
            with open(src, encoding="utf-8") as f:
                add = f.read()
            with open(path, "a", encoding="utf-8") as f:
                f.write("\n" + add)
            applied.append("%s:inject %s -> %s" % (name, ent["src"], ent["file"]))
    return applied


def copy_harness_group(scratch, group):
    src = os.path.join(VERIF, "harness", group)
    dst = os.path.join(scratch, "h", group)
    shutil.copytree(src, dst, ignore=shutil.ignore_patterns("target", "Cargo.lock"))
    # shared harness modules: referenced as #[path = "../../common/<file>.rs"]
    common = os.path.join(VERIF, "harness", "common")
    cdst = os.path.join(scratch, "h", "common")
    if os.path.isdir(common) and not os.path.exists(cdst):
        shutil.copytree(common, cdst)
    lock = os.path.join(REPO, "Cargo.lock")
    if os.path.exists(lock):
        shutil.copy(lock, os.path.join(dst, "Cargo.lock"))
    return dst


def cleanup(scratch):
    shutil.rmtree(scratch, ignore_errors=True)
