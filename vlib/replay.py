"""./check replay <path>: re-execute a stored counterexample natively against a fresh
copy of /repo (same substitutions as the harness group it came from)."""
import os
import re
import sys

from . import kanirun, tree
from .registry import GROUPS
from .tree import VERIF


def run(path):
    p = path if os.path.isabs(path) else os.path.join(VERIF, path)
    src = open(p).read()
    m = re.search(r"^// group: (\S+)", src, re.M)
    if not m:
        print("not a replay file: %s" % path)
        return 2
    group = m.group(1)
    test = src[src.index("/// Test generated"):] if "/// Test generated" in src else src[src.index("#[test]"):]
    scratch = tree.make_scratch("replay")
    try:
        gdir = os.path.join(scratch, group)
        os.makedirs(gdir)
        t = tree.copy_repo(gdir)
        tree.apply_substitutions(t, GROUPS[group].get("stub_sets", []))
        hdir = tree.copy_harness_group(gdir, group)
        gen = GROUPS[group].get("generate")
        if gen:
            gen(hdir, t, "thorough")
        logp = os.path.join(gdir, "native.log")
        ran, pan, msg = kanirun.native_replay(hdir, test, logp, GROUPS[group].get("modules", []))
        print(open(logp, errors="replace").read()[-3000:])
        if pan:
            print("REPLAY: reproduces (%s)" % msg)
            return 1
        if ran:
            print("REPLAY: does not reproduce on the current tree")
            return 0
        print("REPLAY: could not run: %s" % msg)
        return 2
    finally:
        tree.cleanup(scratch)
