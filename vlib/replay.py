"""./check replay <path>: re-execute a stored counterexample natively against a fresh
copy of /repo (same substitutions as the harness group it came from)."""
import os
import re
import sys

from . import kanirun, tree
from .registry import GROUPS
from .tree import VERIF


def run_native(path, src):
    """Replays written by engine E2 (mir2smt): `// kind: native` header + a complete `fn main()` program
    that panics iff the violation reproduces. Rebuilt against a fresh copy of the repository."""
    from mir2smt import engine

    def head(key, default=""):
        m = re.search(r"^// %s:[ \t]*(.*)$" % re.escape(key), src, re.M)
        return m.group(1).strip() if m else default

    crate = head("crate")
    feats = [f for f in head("features").split(",") if f.strip()]
    deff = head("default-features", "false") == "true"
    if not crate:
        print("native replay file without a `// crate:` line: %s" % path)
        return 2
    appends = []
    for m in re.finditer(r"^// append-to: (\S+)\n((?:^//\|.*\n)*)^// end-append", src, re.M):
        text = "\n".join(ln[4:] if ln.startswith("//| ") else ln[3:] for ln in m.group(2).rstrip("\n").split("\n"))
        appends.append((m.group(1), text))
    # program = everything after the header comment block
    lines = src.split("\n")
    k = 0
    while k < len(lines) and lines[k].startswith("//"):
        k += 1
    main_rs = "\n".join(lines[k:])
    scratch = tree.make_scratch("replay")
    try:
        t = engine.prepare_tree(os.path.join(scratch, "smt"))
        for f, text in appends:
            fp = os.path.join(t, f)
            if not os.path.exists(fp):
                print("REPLAY: could not run: %s no longer exists in the repository" % f)
                return 2
            with open(fp, "a", encoding="utf-8") as fh:
                fh.write("\n" + text)
        nat = engine.NativeCrate(os.path.join(scratch, "smt", "native"), t, [(crate, feats, deff)], name="m2s_replay")
        rc, out, err = nat.run(main_rs)
        print((out + err)[-3000:])
        if rc is None:
            print("REPLAY: could not run: %s" % err[-300:])
            return 2
        if rc != 0:
            m = re.search(r"panicked at ([^\n]*)\n([^\n]*)", err)
            print("REPLAY: reproduces (%s)" % ((m.group(1) + " " + m.group(2)).strip() if m else "exit code %d" % rc))
            return 1
        print("REPLAY: does not reproduce on the current tree")
        return 0
    finally:
        tree.cleanup(scratch)


def run(path):
    p = path if os.path.isabs(path) else os.path.join(VERIF, path)
    src = open(p).read()
    if re.search(r"^// kind: native\s*$", src, re.M):
        return run_native(path, src)
    m = re.search(r"^// group: (\S+)", src, re.M)
    if not m:
        print("not a replay file: %s" % path)
        return 2
    group = m.group(1)
    test = src[src.index("/// Test generated"):] if "/// Test generated" in src else src[src.index("#[test]"):]
    scratch = tree.make_scratch("replay")
    try:
        gdir = os.path.join(scratch, group)
        os.makedirs(gdir)
        t = tree.copy_repo(gdir)
        tree.apply_substitutions(t, GROUPS[group].get("stub_sets", []))
        hdir = tree.copy_harness_group(gdir, group)
        gen = GROUPS[group].get("generate")
        if gen:
            gen(hdir, t, "thorough")
        logp = os.path.join(gdir, "native.log")
        ran, pan, msg = kanirun.native_replay(hdir, test, logp, GROUPS[group].get("modules", []))
        print(open(logp, errors="replace").read()[-3000:])
        if pan:
            print("REPLAY: reproduces (%s)" % msg)
            return 1
        if ran:
            print("REPLAY: does not reproduce on the current tree")
            return 0
        print("REPLAY: could not run: %s" % msg)
        return 2
    finally:
        tree.cleanup(scratch)
