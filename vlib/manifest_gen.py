"""Regenerate MANIFEST.json from the registry (run: python3 -m vlib.manifest_gen)."""
import json
import os
import sys

sys.path.insert(0, os.path.dirname(os.path.dirname(os.path.abspath(__file__))))
from vlib.registry import PROPS  # noqa: E402
from vlib.tree import VERIF  # noqa: E402

ALL = ["C%02d" % i for i in range(1, 21)]


def main():
    na_path = os.path.join(VERIF, "vlib", "not_applicable.json")
    na = json.load(open(na_path)) if os.path.exists(na_path) else {}
    checks = []
    for pid in ALL:
        if pid not in PROPS:
            continue
        c = PROPS[pid]
        checks.append({
            "property_id": pid,
            "quick_cmd": "./check %s --tier quick" % pid,
            "thorough_cmd": "./check %s --tier thorough" % pid,
            "evidence_file": "/verif/evidence/%s.json" % pid,
            "replay_cmd_template": "./check replay {path}",
            "engine": c.get("engine", "kani-cbmc + mir2smt" if c.get("smt") else "kani-cbmc"),
            "level_claimed": {
                "category": "model_checking",
                "text": c.get("level_text", "Bounded model checking of the compiled code: the solver decides every "
                              "assertion for all symbolic inputs within the stated bounds; nothing outside them."),
                "design_ref": "DESIGN.md §4 " + pid,
            },
            "level_note": c.get("level_note", "Bounds: %s. Outside the claim: %s. Stubs: %s" % (
                c.get("bounds", ""), c.get("outside", ""), "; ".join(c.get("stubs", [])) or "none")),
            "technique": c.get("technique", "bounded model checking (Kani/CBMC)"),
        })
    m = {
        "version": 1,
        "setup_cmd": "./check --selftest",
        "hooks": {
            "guard": "emit_rs_emit_verif",
            "enable": "no hooks live in /repo: every check copies /repo's working tree to a scratch directory, applies "
                      "the substitutions of /verif/stubs/*.toml and appends /verif/inject/*.rs there; harness crates "
                      "are built with --cfg kani (cargo kani)",
            "baseline_off_cmd": "cd /repo && cargo test --workspace --no-fail-fast --offline",
            "source_commits": [],
            "add_only": True,
        },
        "engines": [
            {"name": "kani-cbmc", "path": "/verif/vlib/kanirun.py",
             "serves_properties": [p for p in ALL if p in PROPS],
             "kind_free_text": "Kani 0.68 / CBMC 6.11 bounded model checking of harness crates built against a fresh copy of /repo"},
            {"name": "mir2smt", "path": "/verif/mir2smt",
             "serves_properties": [p for p in ALL if p in PROPS and PROPS[p].get("smt")],
             "kind_free_text": "MIR text -> SMT-LIB (Int encoding) translator, decided by cvc5 and cross-checked with z3"},
        ],
        "checks": checks,
        "notes": "Exit 2 = inconclusive (timeout, out of memory, anchor moved, unwinding bound hit, vacuous cover, "
                 "counterexample that does not replay natively): never reported as pass or as violation.",
        "not_applicable": [{"property_id": p, "reason": na.get(p, "no check registered yet")} for p in ALL if p not in PROPS],
    }
    with open(os.path.join(VERIF, "MANIFEST.json"), "w") as f:
        json.dump(m, f, indent=1)
    print("MANIFEST.json: %d checks, %d not applicable" % (len(checks), len(m["not_applicable"])))


if __name__ == "__main__":
    main()
