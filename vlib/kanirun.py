"""Kani driver: build a harness group against the scratch tree, run harnesses in parallel
(each under a time and address-space cap), parse the per-check results, replay
counterexamples natively (concrete playback)."""
import glob
import json
import os
import re
import resource
import shutil
import signal
import subprocess
import threading
import time

from .tree import Inconclusive

KANI_ENV = {
    "CARGO_NET_OFFLINE": "true",
    "CARGO_TERM_COLOR": "never",
}


def _env():
    e = dict(os.environ)
    e.update(KANI_ENV)
    e.pop("RUSTFLAGS", None)
    e.pop("CARGO_TARGET_DIR", None)
    return e


class Harness:
    def __init__(self, name, meta):
        self.name = name          # pretty name (module path inside the harness crate)
        self.short = name.split("::")[-1]
        self.meta = meta

    @property
    def unwind(self):
        return self.meta.get("attributes", {}).get("unwind_value")

    @property
    def stubs(self):
        a = self.meta.get("attributes", {})
        return ["%s -> %s" % (s.get("original"), s.get("replacement")) if isinstance(s, dict) else str(s)
                for s in a.get("stubs", [])]


class Result:
    def __init__(self, harness):
        self.harness = harness
        self.status = "inconclusive"   # pass | fail | inconclusive
        self.reason = ""
        self.failed = []               # [{check, description, location}]
        self.covers = {}               # description -> status
        self.n_checks = 0
        self.n_failed = 0
        self.n_unreachable = 0
        self.wall_s = 0.0
        self.cbmc_s = 0.0
        self.log = ""
        self.replay = None             # dict describing native replay, when attempted
        self.vars = None
        self.clauses = None

    def to_json(self):
        return {
            "harness": self.harness.name, "status": self.status, "reason": self.reason,
            "unwind": self.harness.unwind, "checks": self.n_checks,
            "failed_checks": self.failed[:8], "unreachable_checks": self.n_unreachable,
            "covers": self.covers, "wall_s": round(self.wall_s, 1),
            "solver_s": round(self.cbmc_s, 1), "sat_vars": self.vars, "sat_clauses": self.clauses,
            "replay": self.replay,
        }


SHARED_MODULES = ("lib", "util", "env")


def _error_modules(txt):
    """Compiler errors of a failed group build -> (harness modules they are located in, all in the harness crate?)."""
    mods, foreign = set(), False
    for blk in re.split(r"^(?=error(?:\[E\d+\])?:)", txt, flags=re.M):
        if not blk.startswith("error") or blk.startswith("error: could not compile") or blk.startswith("error: Failed") or \
                blk.startswith("error: aborting"):
            continue
        m = re.search(r"-->\s+(\S+?):\d+:\d+", blk)
        if not m:
            foreign = True
            continue
        path = m.group(1)
        if path.startswith("src/"):
            mods.add(path[4:].split("/")[0].rsplit(".rs", 1)[0])
        else:
            foreign = True
    return mods, not foreign


def build_group(hdir, target_dir, log_path, extra_args=(), skipped=None):
    """Compile every harness of the group once (codegen only). Returns harness list.
    Degraded build: when the ONLY compile errors are inside harness modules (a changed tree altered a signature one
    harness family uses), those modules are dropped from the scratch copy of the harness crate and the rest of the
    group is built and run; the dropped modules are reported through `skipped` {module: first error} and make the
    check inconclusive (exit 2) unless another harness finds a violation."""
    cmd = ["cargo", "kani", "--target-dir", target_dir, "--only-codegen"] + list(extra_args)
    t0 = time.time()
    for attempt in range(3):
        with open(log_path, "w") as lf:
            r = subprocess.run(cmd, cwd=hdir, env=_env(), stdout=lf, stderr=subprocess.STDOUT)
        if r.returncode == 0:
            break
        txt = open(log_path, errors="replace").read()
        errs = re.findall(r"^error(?:\[E\d+\])?:.*(?:\n(?!error|warning).*){0,14}", txt, re.M)
        tail = "\n".join(errs)[:3000] if errs else txt[-3000:]
        mods, local = _error_modules(txt)
        lib = os.path.join(hdir, "src", "lib.rs")
        if skipped is not None and local and mods and not (mods & set(SHARED_MODULES)) and attempt < 2 and os.path.exists(lib):
            src = open(lib).read()
            for m in sorted(mods):
                src2 = re.sub(r"(?m)^(?:#\[cfg\(kani\)\]\s*\n)?pub mod %s;[^\n]*\n" % re.escape(m), "", src)
                if src2 == src:
                    mods = None
                    break
                src = src2
                skipped[m] = (errs[0].splitlines()[0] if errs else "does not compile")[:300]
            if mods:
                with open(lib, "w") as f:
                    f.write(src)
                continue
        raise Inconclusive("harness group %s does not build against the current tree "
                           "(cargo kani --only-codegen exit %d):\n%s"
                           % (os.path.basename(hdir), r.returncode, tail))
    metas = glob.glob(os.path.join(target_dir, "kani", "**", "*.kani-metadata.json"), recursive=True)
    crate = os.path.basename(hdir)
    hs = {}
    for m in metas:
        try:
            d = json.load(open(m))
        except Exception:
            continue
        if d.get("crate_name") != crate:
            continue
        for h in d.get("proof_harnesses", []):
            hs[h["pretty_name"]] = Harness(h["pretty_name"], h)
    return sorted(hs.values(), key=lambda h: h.name), time.time() - t0


_CHECK_RE = re.compile(r"^Check (\d+): (.+)$")


def parse_output(text, res):
    """Parse Kani's regular output format into res."""
    cur = None
    in_results = False
    checks = []
    for line in text.splitlines():
        m = _CHECK_RE.match(line)
        if m:
            cur = {"check": m.group(2).strip(), "status": None, "description": "", "location": ""}
            checks.append(cur)
            continue
        s = line.strip()
        if cur is not None and s.startswith("- Status:"):
            cur["status"] = s.split(":", 1)[1].strip()
        elif cur is not None and s.startswith("- Description:"):
            cur["description"] = s.split(":", 1)[1].strip().strip('"')
        elif cur is not None and s.startswith("- Location:"):
            cur["location"] = s.split(":", 1)[1].strip()
        elif s.startswith("SUMMARY:"):
            cur = None
        m2 = re.match(r"^\s*\*\* (\d+) of (\d+) failed(?: \((.*)\))?", line)
        if m2:
            res.n_failed = int(m2.group(1))
            res.n_checks = int(m2.group(2))
            mu = re.search(r"(\d+) unreachable", m2.group(3) or "")
            if mu:
                res.n_unreachable = int(mu.group(1))
        m3 = re.match(r"^Verification Time: ([0-9.]+)s", line)
        if m3:
            res.cbmc_s = float(m3.group(1))
        m4 = re.match(r"^(\d+) variables, (\d+) clauses", line)
        if m4:
            res.vars, res.clauses = int(m4.group(1)), int(m4.group(2))
    # later "Check" blocks override earlier ones for the same id (Kani prints results once)
    for c in checks:
        if ".cover." in c["check"] or c["status"] in ("SATISFIED", "UNSATISFIABLE"):
            res.covers[c["description"] or c["check"]] = c["status"]
        elif c["status"] == "FAILURE":
            res.failed.append({"check": c["check"], "description": c["description"], "location": c["location"]})
    return checks


def classify(text, rc, res, timed_out):
    checks = parse_output(text, res)
    if timed_out:
        res.status, res.reason = "inconclusive", "timeout"
        return
    if "Status: ERROR" in text or "CBMC failed" in text or "std::bad_alloc" in text or "Out of memory" in text:
        res.status, res.reason = "inconclusive", "CBMC error / out of memory"
        return
    ok = "VERIFICATION:- SUCCESSFUL" in text
    failed = "VERIFICATION:- FAILED" in text
    if not ok and not failed:
        res.status, res.reason = "inconclusive", "no verdict (exit %s)" % rc
        return
    genuine = [f for f in res.failed
               if ".unwind." not in f["check"] and "unwinding assertion" not in f["description"]
               and "unsupported_construct" not in f["check"]
               and "recursion unwinding" not in f["description"]]
    # arithmetic/index failures located in harness helper code are harness defects, not findings
    hbug = [f for f in genuine if f["location"].startswith("src/") and re.search(
        r"attempt to .* with overflow|index out of bounds|attempt to divide|attempt to calculate the remainder|attempt to negate|attempt to shift",
        f["description"])]
    if hbug:
        res.status = "inconclusive"
        res.reason = "harness defect (arithmetic/index failure inside harness code): %s %s" % (
            hbug[0]["description"], hbug[0]["location"])
        return
    bound = [f for f in res.failed if f not in genuine]
    undet = [c for c in checks if c["status"] == "UNDETERMINED"]
    if ok:
        bad = [d for d, s in res.covers.items() if s != "SATISFIED" and not d.startswith("opt:")]
        if bad:
            res.status, res.reason = "inconclusive", "vacuity: cover not satisfied: %s" % "; ".join(bad[:4])
        else:
            res.status = "pass"
        return
    # failed
    if genuine:
        res.status = "fail"
        res.failed = genuine
        if bound:
            res.reason = "also unwinding/unsupported failures: %d" % len(bound)
        return
    if bound:
        res.status = "inconclusive"
        res.reason = "bound too small or unsupported construct reachable: %s" % "; ".join(
            "%s (%s)" % (b["check"], b["description"]) for b in bound[:3])
        return
    res.status, res.reason = "inconclusive", "FAILED without a failed check (%d undetermined)" % len(undet)


CHILDREN = set()


def kill_children():
    for pid in list(CHILDREN):
        try:
            os.killpg(pid, signal.SIGKILL)
        except Exception:
            pass


def _limit(mem_gb):
    def f():
        os.setsid()
        b = int(mem_gb * (1 << 30))
        resource.setrlimit(resource.RLIMIT_AS, (b, b))
    return f


def resolve_caps(hdir, target_dir, harness, caps, extra_args, log_path):
    """Recursion caps are given by regex over *pretty* function names; CBMC wants mangled ids. Compile the
    harness (codegen only), read Kani's pretty_name_map.json for it and build --unwindset arguments.
    Unwinding (recursion) assertions stay on: a cap that cuts a reachable deeper call fails the harness
    (inconclusive), it cannot hide it."""
    if not caps:
        return []
    cmd = ["cargo", "kani", "--target-dir", target_dir, "--harness", harness.name, "--exact", "--only-codegen"]
    cmd += list(extra_args)
    with open(log_path + ".codegen", "w") as lf:
        subprocess.run(cmd, cwd=hdir, env=_env(), stdout=lf, stderr=subprocess.STDOUT)
    mangled_h = harness.meta.get("mangled_name", "")
    maps = glob.glob(os.path.join(target_dir, "kani", "**", "*%s.pretty_name_map.json" % mangled_h), recursive=True)
    if not maps:
        return []
    maps.sort(key=os.path.getmtime)
    try:
        d = json.load(open(maps[-1]))
    except Exception:
        return []
    sets = []
    for cap in caps:
        # (pattern, bound) caps the RECURSION of the matching functions; (pattern, bound, k) sets the bound of LOOP k
        # of the matching functions (a loop that needs more iterations than the harness-wide #[kani::unwind] without
        # inflating every other loop). Unwinding assertions stay on either way.
        pat, bound = cap[0], cap[1]
        rx = re.compile(pat)
        for mangled, pretty in d.items():
            if pretty and rx.search(pretty):
                if len(cap) > 2:
                    sets.append("%s.%d:%d" % (mangled, cap[2], bound))
                else:
                    sets.append("%s:%d" % (mangled, bound))
    if not sets:
        return []
    return ["--unwindset", ",".join(sorted(set(sets)))]


def run_one(hdir, target_dir, harness, log_path, timeout_s, mem_gb, extra_args=(), cbmc_args=(), caps=()):
    cbmc_args = list(cbmc_args) + resolve_caps(hdir, target_dir, harness, caps, extra_args, log_path)
    cmd = ["cargo", "kani", "--target-dir", target_dir, "--harness", harness.name, "--exact"]
    cmd += list(extra_args)
    if cbmc_args:
        if "-Z" not in cmd or "unstable-options" not in cmd:
            cmd += ["-Z", "unstable-options"]
        cmd += ["--cbmc-args"] + list(cbmc_args)
    res = Result(harness)
    res.log = log_path
    t0 = time.time()
    timed_out = False
    with open(log_path, "w") as lf:
        p = subprocess.Popen(cmd, cwd=hdir, env=_env(), stdout=lf, stderr=subprocess.STDOUT,
                             preexec_fn=_limit(mem_gb))
        CHILDREN.add(p.pid)
        try:
            rc = p.wait(timeout=timeout_s)
        except subprocess.TimeoutExpired:
            timed_out = True
            try:
                os.killpg(p.pid, signal.SIGKILL)
            except ProcessLookupError:
                pass
            rc = p.wait()
        finally:
            CHILDREN.discard(p.pid)
    res.wall_s = time.time() - t0
    text = open(log_path, errors="replace").read()
    classify(text, rc, res, timed_out)
    return res


def run_pool(hdir, base_target, harnesses, logdir, timeout_s, mem_gb, jobs, extra_args=(),
             cbmc_args_for=None, progress=None):
    """Run harnesses with `jobs` workers; each worker owns a copy of the built target dir."""
    results = {}
    lock = threading.Lock()
    queue = list(harnesses)
    jobs = max(1, min(jobs, len(queue)))

    def worker(i):
        tdir = base_target if i == 0 else "%s-w%d" % (base_target, i)
        if i != 0:
            subprocess.run(["cp", "-a", base_target, tdir], check=False)
        while True:
            with lock:
                if not queue:
                    break
                h = queue.pop(0)
            lp = os.path.join(logdir, h.name.replace("::", "__") + ".log")
            ca = cbmc_args_for(h) if cbmc_args_for else ()
            r = run_one(hdir, tdir, h, lp, timeout_s, mem_gb, extra_args, ca)
            with lock:
                results[h.name] = r
            if progress:
                progress(r)
        if i != 0:
            shutil.rmtree(tdir, ignore_errors=True)

    ts = [threading.Thread(target=worker, args=(i,)) for i in range(jobs)]
    for t in ts:
        t.start()
    for t in ts:
        t.join()
    return [results[h.name] for h in harnesses]


# ---------------------------------------------------------------------------------------
# replay


def concrete_playback(hdir, target_dir, harness, log_path, timeout_s, mem_gb, extra_args=(), cbmc_args=()):
    """Re-run a failing harness with concrete playback and return the generated unit tests."""
    cmd = ["cargo", "kani", "--target-dir", target_dir, "--harness", harness.name, "--exact",
           "-Z", "concrete-playback", "--concrete-playback=print"] + [a for a in extra_args]
    if cbmc_args:
        if "unstable-options" not in cmd:
            cmd += ["-Z", "unstable-options"]
        cmd += ["--cbmc-args"] + list(cbmc_args)
    with open(log_path, "w") as lf:
        # the trace-producing run needs more memory than the plain run
        p = subprocess.Popen(cmd, cwd=hdir, env=_env(), stdout=lf, stderr=subprocess.STDOUT,
                             preexec_fn=_limit(max(mem_gb * 1.5, 24)))
        CHILDREN.add(p.pid)
        try:
            p.wait(timeout=timeout_s)
        except subprocess.TimeoutExpired:
            try:
                os.killpg(p.pid, signal.SIGKILL)
            except ProcessLookupError:
                pass
            p.wait()
            return []
        finally:
            CHILDREN.discard(p.pid)
    text = open(log_path, errors="replace").read()
    tests = []
    for m in re.finditer(r"```\n(/// Test generated for harness.*?)```", text, re.S):
        tests.append(m.group(1))
    if not tests:
        for m in re.finditer(r"```\n(#\[test\].*?)```", text, re.S):
            tests.append(m.group(1))
    # Kani quotes the failed check's message in a `///` header; a message that spans several source lines (a multi-line
    # assert! condition) continues WITHOUT the `///` prefix and breaks the generated file: keep the test from `#[test]` on
    tests = [t[t.index("#[test]"):] if "#[test]" in t else t for t in tests]
    return tests


def native_replay(hdir, test_src, log_path, modules, timeout_s=600, release=False):
    """Compile the generated unit test into the harness crate and run it natively
    (cargo kani playback). Returns (ran, panicked, message)."""
    names = re.findall(r"fn (kani_concrete_playback_\w+)", test_src)
    if not names:
        return False, False, "no test name in generated playback"
    lib = os.path.join(hdir, "src", "lib.rs")
    orig = open(lib).read()
    # (a degraded build may have dropped harness modules from the scratch copy)
    modules = [m for m in modules if re.search(r"\bmod %s\b" % re.escape(m), orig)]
    uses = "".join("    #[allow(unused_imports)] use crate::%s::*;\n" % m for m in modules)
    add = ("\n#[cfg(test)]\nmod verif_replay_gen {\n    #[allow(unused_imports)] use super::*;\n%s%s\n}\n"
           % (uses, test_src))
    try:
        with open(lib, "w") as f:
            f.write(orig + add)
        cmd = ["cargo", "kani", "playback", "-Z", "concrete-playback"]
        if release:
            cmd.append("--release")
        cmd += ["--", names[0]]
        env = _env()
        env["CARGO_TARGET_DIR"] = os.path.join(os.path.dirname(hdir), "..", "t-playback")
        with open(log_path, "w") as lf:
            try:
                r = subprocess.run(cmd, cwd=hdir, env=env, stdout=lf, stderr=subprocess.STDOUT, timeout=timeout_s)
            except subprocess.TimeoutExpired:
                return False, False, "native replay timed out"
        text = open(log_path, errors="replace").read()
        if "test result: FAILED" in text or re.search(r"panicked at", text):
            msg = ""
            m = re.search(r"panicked at ([^\n]*)\n([^\n]*)", text)
            if m:
                msg = (m.group(1) + " " + m.group(2)).strip()
            if "concrete_playback.rs" in msg or "Not enough det vals" in text or "concrete values left over" in text:
                # the playback itself went out of step with the harness (e.g. a stub consumed a symbolic value):
                # that is NOT a reproduction of the counterexample
                return True, False, "playback out of step with the native run: " + msg[:200]
            return True, True, msg
        if "test result: ok" in text:
            return True, False, "test passed natively"
        return False, False, "playback build/run failed: " + text[-600:]
    finally:
        with open(lib, "w") as f:
            f.write(orig)
