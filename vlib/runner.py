"""Property runner: regenerate the encoding from /repo, decide obligations, replay
counterexamples, write evidence, print VIOLATION / KNOWN-FINDING lines."""
import json
import os
import re
import sys
import threading
import time
import traceback

from . import kanirun, tree
from .tree import Inconclusive, VERIF
from .registry import GROUPS, PROPS

TIER_TIMEOUT = {"quick": 900, "thorough": 7200}
NATIVE_LOCK = threading.Lock()
PLAYBACK_LOCK = threading.Lock()


def log(msg):
    print(msg, flush=True)


def load_known():
    p = os.path.join(VERIF, "known_findings.json")
    if not os.path.exists(p):
        return {"findings": [], "fixed": []}
    return json.load(open(p))


def match_known(known, prop, harness, failed_checks):
    """All failed checks of the harness must be covered by listed findings of this
    property for the harness to count as known; returns list of matched findings or None."""
    matched = []
    for fc in failed_checks:
        blob = "%s | %s | %s" % (fc["check"], fc["description"], fc["location"])
        hit = None
        for k in known.get("findings", []):
            if k["property"] != prop:
                continue
            if not re.search(k["harness"], harness):
                continue
            if re.search(k["check"], blob):
                hit = k
                break
        if hit is None:
            return None
        if hit not in matched:
            matched.append(hit)
    return matched


class Ctx:
    def __init__(self, prop, tier, seed, keep, only):
        self.prop, self.tier, self.seed, self.keep, self.only = prop, tier, seed, keep, only
        self.scratch = None
        self.jobs = int(os.environ.get("VERIF_JOBS", "10"))
        self.mem_gb = float(os.environ.get("VERIF_MEM_GB", "16"))
        self.results = []         # kani results
        self.smt = []             # smt obligation dicts
        self.notes = []
        self.inconclusive = []
        self.violations = []      # (harness, replay path)
        self.known_hits = []
        self.applied = []
        self.functions = []


def select(harnesses, prop, tier, only):
    pid = prop.lower()
    cfg = PROPS[prop]
    out = []
    for h in harnesses:
        s = h.short
        m = re.match(r"^((?:c\d\d)+)_([qtw])_", s)
        if not m:
            continue
        ids = re.findall(r"c\d\d", m.group(1))
        # a property file may also claim harnesses that are named after other properties ("also": [regex, ..]): the same
        # step decides a clause of this property too (e.g. the receiver's retry step under C12)
        if pid not in ids and not any(re.search(p, s) for p in cfg.get("also", ())):
            continue
        kind = m.group(2)
        if tier == "quick" and kind != "q":
            continue
        if only and not re.search(only, s):
            continue
        out.append(h)
    return out


def harness_timeout(cfg, h, tier):
    for pat, tq, tt in cfg.get("timeouts", []):
        if re.search(pat, h.short):
            return tq if tier == "quick" else tt
    return cfg.get("timeout", {}).get(tier, 600 if tier == "quick" else 3600)


def run_kani_group(ctx, group):
    gcfg = GROUPS[group]
    pcfg = PROPS[ctx.prop]
    gdir = os.path.join(ctx.scratch, group)
    os.makedirs(gdir)
    t = tree.copy_repo(gdir)
    ctx.applied += tree.apply_substitutions(t, gcfg.get("stub_sets", []))
    hdir = tree.copy_harness_group(gdir, group)
    gen = gcfg.get("generate")
    if gen:
        gen(hdir, t, ctx.tier)
    logdir = os.path.join(gdir, "logs")
    os.makedirs(logdir)
    target = os.path.join(gdir, "t")
    kargs = list(gcfg.get("kani_args", []))
    log("[%s] building harness group %s against a fresh copy of %s" % (ctx.prop, group, tree.REPO))
    skipped = {}
    hs, bt = kanirun.build_group(hdir, target, os.path.join(logdir, "_build.log"), kargs, skipped)
    for m, why in sorted(skipped.items()):
        # a harness family that no longer compiles against the current tree cannot decide anything: inconclusive
        log("[%s] %s: harness module %s does not compile against the current tree and was left out: %s" % (ctx.prop, group, m, why))
        ctx.inconclusive.append("%s::%s does not compile against the current tree (%s)" % (group, m, why))
    sel = select(hs, ctx.prop, ctx.tier, ctx.only)
    if not sel and not ctx.only and ctx.tier == "quick" and select(hs, ctx.prop, "thorough", None):
        # the group only has thorough-tier harnesses for this property: nothing to run in the quick tier
        log("[%s] %s: thorough-tier harnesses only; skipped in the quick tier" % (ctx.prop, group))
        ctx.notes.append("%s: thorough-tier harnesses only" % group)
        return hdir
    if not sel:
        if ctx.only:
            log("[%s] %s: no harness matches --only %s (group skipped)" % (ctx.prop, group, ctx.only))
            return hdir
        raise Inconclusive("no harness of group %s selected for %s/%s" % (group, ctx.prop, ctx.tier))
    # longest first
    order = pcfg.get("slow_first", [])
    sel.sort(key=lambda h: (0 if any(re.search(p, h.short) for p in order) else 1, h.short))
    log("[%s] %s: built in %.0fs, %d harnesses selected, %d jobs" % (ctx.prop, group, bt, len(sel), ctx.jobs))

    known = load_known()

    def progress(r, tdir):
        twin = re.match(r"^(?:c\d\d)+_w_", r.harness.short) is not None
        if twin:
            # a mutant twin asserts a deliberately false variant: it must come back FAILED
            if r.status == "fail":
                r.status = "pass"
                r.reason = "twin failed as required"
                r.failed = []
            elif r.status == "pass":
                r.status = "inconclusive"
                r.reason = "vacuity: mutant twin did not fail"
        if r.status == "fail":
            try:
                ca = list(cbmc_args_for(r.harness)) + kanirun.resolve_caps(
                    hdir, tdir, r.harness, gcfg.get("recursion_caps", ()), kargs, r.log)
                handle_failure(ctx, group, gcfg, hdir, tdir, logdir, r, known, kargs, ca)
            except Exception as e:
                r.status = "inconclusive"
                r.reason = "replay machinery failed: %s" % e
        log("[%s]   %-52s %-12s %6.1fs checks=%d %s" % (
            ctx.prop, r.harness.short, r.status.upper(), r.wall_s, r.n_checks, r.reason[:100]))

    # per-harness timeouts: run_pool takes one timeout; group by timeout value
    by_to = {}
    for h in sel:
        by_to.setdefault(harness_timeout(pcfg, h, ctx.tier), []).append(h)
    results = []
    ths = []
    share = max(1, ctx.jobs)

    def cbmc_args_for(h):
        for pat, args in gcfg.get("cbmc_args", []):
            if re.search(pat, h.short):
                return args
        return ()

    # run all in one pool but with per-harness timeout: wrap
    # a group may ask for more address space per solver and fewer solvers at once (memory-bound groups)
    g_mem = max(ctx.mem_gb, float(gcfg.get("mem_gb", 0)))
    g_jobs = min(ctx.jobs, int(gcfg.get("max_jobs", ctx.jobs)), int(pcfg.get("max_jobs", ctx.jobs)))
    results = run_pool_var(hdir, target, sel, logdir, lambda h: harness_timeout(pcfg, h, ctx.tier),
                           g_mem, g_jobs, kargs, cbmc_args_for, progress, gcfg.get("recursion_caps", ()))
    for r in results:
        if r.status == "inconclusive":
            ctx.inconclusive.append("%s: %s" % (r.harness.short, r.reason))
            keep_log(ctx, r)
    ctx.results += results
    return hdir


def keep_log(ctx, r):
    try:
        d = os.path.join(VERIF, "logs", ctx.prop)
        os.makedirs(d, exist_ok=True)
        txt = open(r.log, errors="replace").read()
        with open(os.path.join(d, r.harness.short + ".log"), "w") as f:
            f.write(txt[-200000:])
    except Exception:
        pass


RUNNING = [0]
MEM_HEADROOM_GB = float(os.environ.get("VERIF_MEM_HEADROOM_GB", "14"))


def _mem_available_gb():
    try:
        for line in open("/proc/meminfo"):
            if line.startswith("MemAvailable:"):
                return int(line.split()[1]) / (1 << 20)
    except Exception:
        pass
    return 1e9


def run_pool_var(hdir, base_target, harnesses, logdir, timeout_of, mem_gb, jobs, extra_args, cbmc_args_for, progress, caps=()):
    import shutil
    import subprocess
    results = {}
    lock = threading.Lock()
    queue = list(harnesses)
    jobs = max(1, min(jobs, len(queue)))

    def worker(i):
        tdir = base_target if i == 0 else "%s-w%d" % (base_target, i)
        if i != 0:
            subprocess.run(["cp", "-a", base_target, tdir], check=False)
        while True:
            # memory-aware admission: CBMC instances of 9-12 GB resident were measured; do not start another solver
            # while less than MEM_HEADROOM_GB is available (unless nothing of ours is running: no deadlock)
            waited = 0
            while RUNNING[0] > 0 and _mem_available_gb() < MEM_HEADROOM_GB and waited < 900:
                time.sleep(5)
                waited += 5
            with lock:
                if not queue:
                    break
                h = queue.pop(0)
                RUNNING[0] += 1
            lp = os.path.join(logdir, h.name.replace("::", "__") + ".log")
            try:
                r = kanirun.run_one(hdir, tdir, h, lp, timeout_of(h), mem_gb, extra_args, cbmc_args_for(h), caps)
            finally:
                with lock:
                    RUNNING[0] -= 1
            progress(r, tdir)
            with lock:
                results[h.name] = r
        if i != 0:
            shutil.rmtree(tdir, ignore_errors=True)

    ts = [threading.Thread(target=worker, args=(i,)) for i in range(jobs)]
    for t in ts:
        t.start()
    for t in ts:
        t.join()
    return [results[h.name] for h in harnesses]


def handle_failure(ctx, group, gcfg, hdir, target, logdir, r, known, kargs, cbmc_args):
    """A harness came back FAILED with genuine (non-bound) failed checks: obtain the
    concrete counterexample, replay it natively, then report."""
    hs = r.harness.short
    log("[%s]   counterexample in %s: %s" % (ctx.prop, hs, "; ".join(
        "%s [%s]" % (f["check"], f["description"][:80]) for f in r.failed[:3])))
    keep_log(ctx, r)
    tests = kanirun.concrete_playback(hdir, target, r.harness, os.path.join(logdir, hs + ".playback.log"),
                                      harness_timeout(PROPS[ctx.prop], r.harness, ctx.tier) * 2, ctx.mem_gb,
                                      kargs, cbmc_args)
    if not tests:
        # the trace-producing run is heavier than the plain run: retry once, alone (serialised), with a longer budget
        with PLAYBACK_LOCK:
            tests = kanirun.concrete_playback(hdir, target, r.harness, os.path.join(logdir, hs + ".playback2.log"),
                                              harness_timeout(PROPS[ctx.prop], r.harness, ctx.tier) * 4, ctx.mem_gb,
                                              kargs, cbmc_args)
    rep = {"generated_tests": len(tests), "dev": None, "release": None, "message": ""}
    r.replay = rep
    if not tests:
        r.status = "inconclusive"
        r.reason = "counterexample found but no concrete playback could be generated"
        return
    modules = gcfg.get("modules", [])
    reproduced = False
    chosen = None
    # Kani emits one test per failed check (and per satisfied cover); try until one panics natively
    for tsrc in tests[:6]:
        with NATIVE_LOCK:
            ran, pan, msg = kanirun.native_replay(hdir, tsrc, os.path.join(logdir, hs + ".native.log"), modules)
        rep["dev"] = "panicked" if pan else ("ran, no panic" if ran else "did not run")
        rep["message"] = msg[:300]
        if pan:
            reproduced = True
            chosen = tsrc
            break
    if not reproduced:
        r.status = "inconclusive"
        r.reason = ("counterexample does not reproduce natively (%s): encoding or stub suspect; "
                    "not reported as a violation" % rep["message"][:120])
        # keep the native log next to the harness log (the scratch directory is removed at the end of the run)
        try:
            nl = os.path.join(logdir, hs + ".native.log")
            if os.path.exists(nl):
                d = os.path.join(VERIF, "logs", ctx.prop)
                os.makedirs(d, exist_ok=True)
                with open(nl, errors="replace") as f, open(os.path.join(d, hs + ".native.log"), "w") as g:
                    g.write(f.read()[-200000:])
        except OSError:
            pass
        return
    with NATIVE_LOCK:
        ran, pan, msg = kanirun.native_replay(hdir, chosen, os.path.join(logdir, hs + ".native_rel.log"), modules,
                                              release=True)
    rep["release"] = "panicked" if pan else ("ran, no panic" if ran else "did not run")
    # known finding?
    mk = match_known(known, ctx.prop, hs, r.failed)
    if mk is not None:
        for k in mk:
            line = "KNOWN-FINDING: property=%s %s" % (ctx.prop, k["what"])
            if line not in ctx.known_hits:
                ctx.known_hits.append(line)
                log(line)
        r.status = "known"
        r.reason = "reproduced natively; listed in known_findings.json"
        return
    rdir = os.path.join(VERIF, "replays", ctx.prop)
    os.makedirs(rdir, exist_ok=True)
    path = os.path.join(rdir, hs + ".rs")
    with open(path, "w") as f:
        f.write("// replay for property %s\n// group: %s\n// harness: %s\n// failed checks:\n" % (ctx.prop, group, r.harness.name))
        for fc in r.failed[:8]:
            f.write("//   %s | %s | %s\n" % (fc["check"], fc["description"], fc["location"]))
        f.write("// native replay (dev): %s; (release): %s; %s\n" % (rep["dev"], rep["release"], rep["message"]))
        f.write("// re-run with: ./check replay %s\n" % os.path.relpath(path, VERIF))
        f.write(chosen)
    r.replay["path"] = os.path.relpath(path, VERIF)
    ctx.violations.append((hs, os.path.relpath(path, VERIF)))
    log("VIOLATION property=%s replay=%s" % (ctx.prop, os.path.relpath(path, VERIF)))


def run_property(prop, tier, seed, keep=False, only=None):
    import signal
    t0 = time.time()
    ctx = Ctx(prop, tier, seed, keep, only)
    cfg = PROPS[prop]
    ctx.scratch = tree.make_scratch(prop)

    def on_signal(signum, frame):
        # stop every solver we started and remove the scratch directory: a killed check is inconclusive
        kanirun.kill_children()
        if not keep:
            tree.cleanup(ctx.scratch)
        log("INCONCLUSIVE: property=%s interrupted by signal %d" % (prop, signum))
        os._exit(2)

    for sg in (signal.SIGTERM, signal.SIGINT, signal.SIGHUP):
        try:
            signal.signal(sg, on_signal)
        except Exception:
            pass
    rc = 0
    try:
        threads = []
        errors = []

        def guarded(fn, *a):
            try:
                fn(*a)
            except Inconclusive as e:
                errors.append(str(e))
            except Exception as e:
                errors.append("internal error: %s\n%s" % (e, traceback.format_exc()))

        for unit in ([] if (only and not os.environ.get("VERIF_SMT_WITH_ONLY")) else cfg.get("smt", [])):
            th = threading.Thread(target=guarded, args=(unit, ctx))
            th.start()
            threads.append(th)
        for group in cfg.get("kani_groups", []):
            th = threading.Thread(target=guarded, args=(run_kani_group, ctx, group))
            th.start()
            threads.append(th)
        for th in threads:
            th.join()
        for e in errors:
            ctx.inconclusive.append(e)
    finally:
        wall = time.time() - t0
        try:
            write_evidence(ctx, wall)
        except Exception as e:
            log("evidence writer failed: %s" % e)
            traceback.print_exc()
            ctx.inconclusive.append("evidence writer failed")
        if not keep:
            tree.cleanup(ctx.scratch)
        else:
            log("scratch kept at %s" % ctx.scratch)
    if ctx.violations:
        rc = 1
    elif ctx.inconclusive:
        for i in ctx.inconclusive:
            log("INCONCLUSIVE: property=%s %s" % (prop, i[:1500]))
        rc = 2
    n_pass = sum(1 for r in ctx.results if r.status == "pass")
    log("[%s] tier=%s harnesses=%d pass=%d known=%d violations=%d inconclusive=%d smt=%d wall=%.0fs exit=%d" % (
        prop, tier, len(ctx.results), n_pass, sum(1 for r in ctx.results if r.status == "known"),
        len(ctx.violations), len(ctx.inconclusive), len(ctx.smt), time.time() - t0, rc))
    return rc


def write_evidence(ctx, wall):
    cfg = PROPS[ctx.prop]
    res = ctx.results
    checks_total = sum(r.n_checks for r in res)
    smt_total = sum(o.get("queries", 1) for o in ctx.smt)
    nontrivial = sum(1 for r in res if r.status in ("pass", "known", "fail") and
                     any(s == "SATISFIED" for s in r.covers.values()))
    nontrivial += sum(1 for o in ctx.smt if o.get("status") in ("holds", "violated") and o.get("witness_ok", False))
    import random
    rnd = random.Random(ctx.seed)
    samples = []
    pool = [r for r in res]
    rnd.shuffle(pool)
    for r in pool[:6]:
        samples.append(r.to_json())
    spool = list(ctx.smt)
    rnd.shuffle(spool)
    for o in spool[:4]:
        samples.append(o)
    if not samples:
        samples.append({"note": "no obligation ran", "inconclusive": ctx.inconclusive[:3]})
    obligations = len(res) + len(ctx.smt)
    discharged = sum(1 for r in res if r.status == "pass") + sum(1 for o in ctx.smt if o.get("status") == "holds")
    ev = {
        "property_id": ctx.prop,
        "tier": ctx.tier,
        "seed": ctx.seed,
        "level": "model_checking",
        "coverage": {
            "evaluations": max(checks_total + smt_total, 0),
            "distinct_nontrivial": nontrivial,
            "rule": ("evaluations = CBMC property checks decided over all symbolic inputs within the harness bounds "
                     "+ SMT queries decided; distinct_nontrivial = distinct harness obligations (one per harness / "
                     "SMT obligation) whose reachability witness (kani::cover / pinned-input sat query) was satisfied "
                     "in this run"),
            "samples": samples,
            "obligations": obligations,
            "discharged": discharged,
            "exhaustive": False,
            "technique": cfg.get("technique", ""),
            "functions_encoded": cfg.get("functions", []),
            "bounds": cfg.get("bounds", ""),
            "outside_the_claim": cfg.get("outside", ""),
            "stubs_and_substitutions": ctx.applied + cfg.get("stubs", []),
            "harnesses": [r.to_json() for r in res],
            "smt_obligations": ctx.smt,
            "solver_time_s": round(sum(r.cbmc_s for r in res) + sum(o.get("solver_s", 0) for o in ctx.smt), 1),
            "known_findings_hit": ctx.known_hits,
            "inconclusive": ctx.inconclusive,
            "encoding_regenerated_from": tree.REPO + " working tree, copied at start of this run",
        },
        "assumptions": cfg.get("assumptions", []),
        "wall_s": round(wall, 1),
        "violations": len(ctx.violations),
    }
    # evidence/ is only ever written by runs against /repo itself; runs against another tree (VERIF_REPO, used to
    # try seeded changes and the pre-fix tree) and partial runs (--only) write to evidence_other/ (not committed)
    full_run = os.path.realpath(tree.REPO) == "/repo" and not ctx.only
    d = os.path.join(VERIF, "evidence" if full_run else "evidence_other")
    os.makedirs(d, exist_ok=True)
    with open(os.path.join(d, ctx.prop + ".json"), "w") as f:
        json.dump(ev, f, indent=1)
