// Appended to core/src/lib.rs of the scratch tree (never to /repo) by /verif/stubs/file_writer.toml (group hk_file_w).
// Stand-in for `alloc::collections::BTreeMap` inside `Dedup::for_each` (stubs/file_writer.toml `dedup-small-map`): an ordered
// map over a 3-slot array with exactly the three operations `Dedup::for_each` uses - `new()`, `entry(k).or_insert(v)`,
// by-value iteration in ascending key order - and std's semantics for them (keys unique under `Ord`, `or_insert` keeps the
// value already present). It uses the key type's own `Ord` (emit's `impl Ord for Str`, code under test). std's B-tree itself
// is trusted; under CBMC its node navigation loops (`first_leaf_edge`, `deallocating_next`, `deallocating_end`) are unrolled to
// the global bound at every level because the tree height is read back from the heap (measured: a 1-property event did not
// leave symbolic execution in 8 min, 3.5 GB). More than `CAP` distinct keys fail the harness (assert), never pass silently.
#[cfg(all(any(kani, emit_rs_emit_verif), feature = "alloc"))]
#[doc(hidden)]
#[allow(dead_code, missing_docs)]
pub mod verif_small_map {
    use core::cmp::Ordering;

    pub const CAP: usize = 3;

    pub struct SmallMap<K, V> {
        len: usize,
        slots: [Option<(K, V)>; CAP],
    }

    pub struct Entry<'a, K, V> {
        map: &'a mut SmallMap<K, V>,
        key: K,
    }

    impl<K: Ord, V> SmallMap<K, V> {
        pub fn new() -> Self {
            SmallMap { len: 0, slots: [None, None, None] }
        }

        pub fn entry(&mut self, key: K) -> Entry<'_, K, V> {
            Entry { map: self, key }
        }
    }

    impl<'a, K: Ord, V> Entry<'a, K, V> {
        pub fn or_insert(self, value: V) -> &'a mut V {
            let Entry { map, key } = self;
            // position of the first key that is not less than `key`
            let mut at = 0;
            let mut found = false;
            let mut i = 0;
            while i < CAP {
                if i < map.len {
                    if let Some((k, _)) = &map.slots[i] {
                        match k.cmp(&key) {
                            Ordering::Less => at = i + 1,
                            Ordering::Equal => {
                                at = i;
                                found = true;
                            }
                            Ordering::Greater => {}
                        }
                    }
                }
                i += 1;
            }
            if !found {
                assert!(map.len < CAP, "verif_small_map: more than CAP distinct keys");
                // shift [at, len) one to the right
                // (the slot written to is empty each time; `forget` instead of an assignment spares CBMC the drop glue of
                // a slot whose emptiness it cannot see: `Str` / `Value` drop through `Arc` on symbolic state)
                let mut j = CAP - 1;
                while j > 0 {
                    if j > at && j <= map.len {
                        let moved = map.slots[j - 1].take();
                        let old = core::mem::replace(&mut map.slots[j], moved);
                        assert!(old.is_none(), "verif_small_map: shifting into an occupied slot");
                        core::mem::forget(old);
                    }
                    j -= 1;
                }
                let old = core::mem::replace(&mut map.slots[at], Some((key, value)));
                assert!(old.is_none(), "verif_small_map: inserting into an occupied slot");
                core::mem::forget(old);
                map.len += 1;
            }
            match &mut map.slots[at] {
                Some((_, v)) => v,
                None => unreachable!(),
            }
        }
    }

    pub struct IntoIter<K, V> {
        at: usize,
        map: SmallMap<K, V>,
    }

    impl<K, V> Iterator for IntoIter<K, V> {
        type Item = (K, V);

        fn next(&mut self) -> Option<(K, V)> {
            // the cursor advances unconditionally, so that it stays a constant under symbolic execution and the caller's
            // `for` loop ends after at most CAP + 1 calls whatever the (symbolic) number of distinct keys is
            let i = self.at;
            if i < CAP {
                self.at = i + 1;
            }
            if i < CAP && i < self.map.len {
                self.map.slots[i].take()
            } else {
                None
            }
        }
    }

    impl<K, V> IntoIterator for SmallMap<K, V> {
        type Item = (K, V);
        type IntoIter = IntoIter<K, V>;

        fn into_iter(self) -> IntoIter<K, V> {
            IntoIter { at: 0, map: self }
        }
    }
}
