// ---------------------------------------------------------------------------------------------
// Appended by /verif to the scratch copy of emitter/otlp/src/client/http.rs (never to /repo).
// Constructor from explicit state only: an `HttpConnection` that was never connected, without
// going through hyper's URL parser (its symbolic execution does not finish; the connection is
// never used once the network request is substituted).
// ---------------------------------------------------------------------------------------------
#[cfg(any(kani, emit_rs_emit_verif))]
impl HttpConnection {
    #[allow(missing_docs, dead_code)]
    pub(crate) fn verif_unconnected(metrics: Arc<InternalMetrics>) -> Self {
        HttpConnection {
            uri: HttpUri(Uri::default()),
            version: HttpVersion::Http1,
            allow_compression: false,
            request: Box::new(|req| Ok(req)),
            response: Box::new(|res| {
                core::mem::forget(res);
                Box::pin(async { Ok(Vec::new()) })
            }),
            headers: Vec::new(),
            sender: Mutex::new(None),
            metrics,
        }
    }
}
