// Appended to emitter/file/src/lib.rs of the scratch tree (never to /repo) by /verif/stubs/file.toml.
// Add-only: `pub` mirrors of the private `Filesystem`/`File` traits with adapters, constructors of the
// private state types from explicit components, read-only snapshots, and one-line forwarding wrappers
// for the private kernels. No logic of the code under test lives here: every wrapper body is a single
// call of the real function (or a field read / struct literal).
/// Swallows a diagnostic macro invocation that stubs/file.toml switched off (see there).
#[cfg(any(kani, emit_rs_emit_verif))]
#[doc(hidden)]
#[macro_export]
macro_rules! __verif_diag_off {
    ($($t:tt)*) => {{}};
}

#[cfg(any(kani, emit_rs_emit_verif))]
#[allow(dead_code, missing_docs)]
pub mod verif {
    use super::*;

    // ---------------------------------------------------------------------------------
    // public mirrors of the private environment traits

    /// Mirror of the private `File` trait (+ the two `io::Write` methods `StdFile` implements;
    /// `write_all` stays std's default loop over `write`, exactly as for `StdFile`).
    pub trait VFile {
        fn write(&mut self, buf: &[u8]) -> io::Result<usize>;
        fn flush(&mut self) -> io::Result<()>;
        fn len(&self) -> io::Result<usize>;
        fn sync_all(&mut self) -> io::Result<()>;
    }

    /// Mirror of the private `Filesystem` trait.
    pub trait VFilesystem {
        type File: VFile + Send + Sync + 'static;
        fn create_dir_all(&self, path: &Path) -> io::Result<()>;
        fn sync_parent(&self, path: &Path) -> io::Result<()>;
        fn read_dir_files(&self, path: &Path) -> io::Result<Box<dyn Iterator<Item = PathBuf>>>;
        fn remove_file(&self, path: &Path) -> io::Result<()>;
        fn open_new(&self, path: &Path) -> io::Result<Self::File>;
        fn open_existing(&self, path: &Path) -> io::Result<Self::File>;
    }

    pub struct FileAdapter<T>(pub T);

    impl<T: VFile> Write for FileAdapter<T> {
        fn write(&mut self, buf: &[u8]) -> io::Result<usize> {
            self.0.write(buf)
        }
        fn flush(&mut self) -> io::Result<()> {
            self.0.flush()
        }
    }

    impl<T: VFile> File for FileAdapter<T> {
        fn len(&self) -> io::Result<usize> {
            self.0.len()
        }
        fn sync_all(&mut self) -> io::Result<()> {
            self.0.sync_all()
        }
    }

    pub struct FsAdapter<F>(pub F);

    impl<F: VFilesystem> Filesystem for FsAdapter<F> {
        fn create_dir_all(&self, path: &Path) -> io::Result<()> {
            self.0.create_dir_all(path)
        }
        fn sync_parent(&self, path: &Path) -> io::Result<()> {
            self.0.sync_parent(path)
        }
        fn read_dir_files(&self, path: &Path) -> io::Result<Box<dyn Iterator<Item = PathBuf>>> {
            self.0.read_dir_files(path)
        }
        fn remove_file(&self, path: &Path) -> io::Result<()> {
            self.0.remove_file(path)
        }
        fn open_new(&self, path: &Path) -> io::Result<Box<dyn File + Send + Sync>> {
            Ok(Box::new(FileAdapter(self.0.open_new(path)?)))
        }
        fn open_existing(&self, path: &Path) -> io::Result<Box<dyn File + Send + Sync>> {
            Ok(Box::new(FileAdapter(self.0.open_existing(path)?)))
        }
    }

    // ---------------------------------------------------------------------------------
    // metrics (the kernels take `&InternalMetrics`)

    pub struct VMetrics(InternalMetrics);

    impl VMetrics {
        pub fn new() -> Self {
            VMetrics(InternalMetrics::default())
        }
        pub fn file_delete(&self) -> usize {
            self.0.file_delete.sample()
        }
        pub fn file_delete_failed(&self) -> usize {
            self.0.file_delete_failed.sample()
        }
    }

    // ---------------------------------------------------------------------------------
    // ActiveFile

    pub struct VActiveFile(ActiveFile);

    impl VActiveFile {
        /// An `ActiveFile` in an explicit state.
        pub fn from_state<T: VFile + Send + Sync + 'static>(
            file: T,
            file_path: PathBuf,
            file_ts: String,
            file_needs_recovery: bool,
            file_size_bytes: usize,
        ) -> Self {
            VActiveFile(ActiveFile {
                file: Box::new(FileAdapter(file)),
                file_path,
                file_ts,
                file_needs_recovery,
                file_size_bytes,
            })
        }

        pub fn try_open_reuse<F: VFilesystem>(fs: &FsAdapter<F>, file_path: &Path) -> Result<Self, io::Error> {
            ActiveFile::try_open_reuse(fs, file_path).map(VActiveFile)
        }

        pub fn try_open_create<F: VFilesystem>(fs: &FsAdapter<F>, file_path: &Path) -> Result<Self, io::Error> {
            ActiveFile::try_open_create(fs, file_path).map(VActiveFile)
        }

        pub fn write_event(&mut self, event_buf: &[u8], separator: &'static [u8]) -> Result<(), io::Error> {
            self.0.write_event(event_buf, separator)
        }

        /// The two calls `on_batch` makes on `file.file` after the last event of a batch.
        pub fn flush(&mut self) -> io::Result<()> {
            self.0.file.flush()
        }
        pub fn sync_all(&mut self) -> io::Result<()> {
            self.0.file.sync_all()
        }

        pub fn needs_recovery(&self) -> bool {
            self.0.file_needs_recovery
        }
        pub fn size_bytes(&self) -> usize {
            self.0.file_size_bytes
        }
        pub fn ts(&self) -> &str {
            &self.0.file_ts
        }
        pub fn path(&self) -> &Path {
            &self.0.file_path
        }
    }

    // ---------------------------------------------------------------------------------
    // ActiveFileSet

    pub struct VFileSet<'a>(ActiveFileSet<'a>);

    impl<'a> VFileSet<'a> {
        pub fn empty(metrics: &'a VMetrics, dir: &'a str) -> Self {
            VFileSet(ActiveFileSet::empty(&metrics.0, dir))
        }

        /// A file set in an explicit state (`names` as `read` leaves them: sorted descending).
        pub fn from_state(metrics: &'a VMetrics, dir: &'a str, names: Vec<String>) -> Self {
            VFileSet(ActiveFileSet {
                metrics: &metrics.0,
                dir,
                file_set: names,
            })
        }

        pub fn read<F: VFilesystem>(
            &mut self,
            fs: &FsAdapter<F>,
            file_prefix: &str,
            file_ext: &str,
        ) -> Result<(), io::Error> {
            self.0.read(fs, file_prefix, file_ext)
        }

        pub fn current_file_name(&self) -> Option<&str> {
            self.0.current_file_name()
        }

        pub fn apply_retention<F: VFilesystem>(&mut self, fs: &FsAdapter<F>, max_files: usize) {
            self.0.apply_retention(fs, max_files)
        }

        pub fn names(&self) -> &[String] {
            &self.0.file_set
        }
    }

    // ---------------------------------------------------------------------------------
    // EventBatch (inherent API + its `emit_batcher::Channel` impl, which is what the batcher calls)

    pub struct VEventBatch(EventBatch);

    impl VEventBatch {
        pub fn new() -> Self {
            VEventBatch(<EventBatch as emit_batcher::Channel>::new())
        }
        pub fn push(&mut self, item: Box<[u8]>) {
            <EventBatch as emit_batcher::Channel>::push(&mut self.0, item)
        }
        pub fn len(&self) -> usize {
            <EventBatch as emit_batcher::Channel>::len(&self.0)
        }
        pub fn is_empty(&self) -> bool {
            <EventBatch as emit_batcher::Channel>::is_empty(&self.0)
        }
        pub fn clear(&mut self) {
            <EventBatch as emit_batcher::Channel>::clear(&mut self.0)
        }
        pub fn current(&self) -> Option<&[u8]> {
            self.0.current()
        }
        pub fn advance(&mut self) {
            self.0.advance()
        }
        pub fn remaining_bytes(&self) -> usize {
            self.0.remaining_bytes
        }
        pub fn index(&self) -> usize {
            self.0.index
        }
        pub fn bufs_len(&self) -> usize {
            self.0.bufs.len()
        }
    }

    // ---------------------------------------------------------------------------------
    // model of std's `<[T]>::sort_by` for at most three elements (see stubs/file.toml `read-sort-upto3`):
    // a stable compare-and-swap network driven by the caller's comparator.

    pub fn sort_by_upto3<T>(v: &mut [T], mut cmp: impl FnMut(&T, &T) -> std::cmp::Ordering) {
        let n = v.len();
        assert!(n <= 3, "verif: sort model covers at most three elements");
        if n >= 2 && cmp(&v[0], &v[1]) == std::cmp::Ordering::Greater {
            v.swap(0, 1);
        }
        if n == 3 {
            if cmp(&v[1], &v[2]) == std::cmp::Ordering::Greater {
                v.swap(1, 2);
                if cmp(&v[0], &v[1]) == std::cmp::Ordering::Greater {
                    v.swap(0, 1);
                }
            }
        }
    }

    // ---------------------------------------------------------------------------------
    // naming kernels

    #[derive(Clone, Copy)]
    pub enum VRollBy {
        Day,
        Hour,
        Minute,
    }

    fn roll_by(r: VRollBy) -> RollBy {
        match r {
            VRollBy::Day => RollBy::Day,
            VRollBy::Hour => RollBy::Hour,
            VRollBy::Minute => RollBy::Minute,
        }
    }

    pub fn v_file_ts(r: VRollBy, parts: emit::timestamp::Parts) -> String {
        file_ts(roll_by(r), parts)
    }

    pub fn v_rolling_millis(r: VRollBy, ts: emit::Timestamp, parts: emit::timestamp::Parts) -> u32 {
        rolling_millis(roll_by(r), ts, parts)
    }

    pub fn v_rolling_id(rng: impl emit::Rng) -> u32 {
        rolling_id(rng)
    }

    pub fn v_file_id(rolling_millis: u32, rolling_id: u32) -> String {
        file_id(rolling_millis, rolling_id)
    }

    pub fn v_file_name(file_prefix: &str, file_ext: &str, ts: &str, id: &str) -> String {
        file_name(file_prefix, file_ext, ts, id)
    }

    pub fn v_read_file_name_ts(file_name: &str) -> Result<&str, io::Error> {
        read_file_name_ts(file_name)
    }

    pub fn v_read_file_path_ts(path: &Path) -> Result<&str, io::Error> {
        read_file_path_ts(path)
    }

    pub fn v_dir_prefix_ext(file_set: &Path) -> Option<(String, String, String)> {
        dir_prefix_ext(file_set).ok()
    }
}
