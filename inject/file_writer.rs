// Appended to emitter/file/src/lib.rs of the scratch tree (never to /repo) by /verif/stubs/file_writer.toml (group hk_file_w).
// Add-only. Holds (1) a `pub` door to the private `default_writer`, and (2) the stand-in for sval_json: a recording
// `sval::Stream` that `default_writer`'s single `sval_json::stream_to_io_write(buf, EventValue(evt))` call is redirected to
// (stubs/file_writer.toml `writer-json-to-recorder`). The recorder writes down the calls the REAL `EventValue::stream`
// makes; it contains no logic of the code under test and takes no decision except "fail at call number `fail_at`"
// (set by the harness; usize::MAX = never), which models a consumer whose underlying writer fails.
#[cfg(all(any(kani, emit_rs_emit_verif), feature = "default_writer"))]
#[allow(dead_code, missing_docs)]
pub mod verif_writer {
    use super::*;

    pub const RECORD_BEGIN: u8 = 1;
    pub const RECORD_END: u8 = 2;
    pub const VALUE_BEGIN: u8 = 3; // record_value_begin(label)
    pub const VALUE_END: u8 = 4; // record_value_end(label)
    pub const TEXT_BEGIN: u8 = 5;
    pub const TEXT_END: u8 = 6;
    pub const NULL: u8 = 7;
    pub const BOOL: u8 = 8;
    pub const I64: u8 = 9;
    pub const F64: u8 = 10;
    /// any other structural call (seq_*, map_*, tagged_*, ...): not produced by the events of the harnesses
    pub const OTHER: u8 = 11;

    pub const MAX_EV: usize = 40;
    pub const HEAD: usize = 8;

    /// One recorded call. `len`/`head`: length and first `HEAD` bytes of the label text (VALUE_BEGIN / VALUE_END) or of
    /// the concatenated text fragments (TEXT_BEGIN, filled in while fragments arrive); `ident`: the label carries
    /// `sval::tags::VALUE_IDENT` (the one tag on which sval_json skips escaping); `tagged`: the label carries some tag;
    /// `num`: scalar payload (bool as 0/1, i64; f64 is not kept).
    #[derive(Clone, Copy)]
    pub struct Ev {
        pub kind: u8,
        pub ident: bool,
        pub tagged: bool,
        pub len: usize,
        pub head: [u8; HEAD],
        pub num: i64,
    }

    pub const EV0: Ev = Ev { kind: 0, ident: false, tagged: false, len: 0, head: [0; HEAD], num: 0 };

    pub struct Rec {
        /// number of recorded calls (saturates at MAX_EV, then `overflow`)
        pub n: usize,
        pub ev: [Ev; MAX_EV],
        pub overflow: bool,
        /// calls seen so far (recorded or not), and the call number that answers Err
        pub calls: usize,
        pub fail_at: usize,
        /// index of the TEXT_BEGIN event still open (fragments are added to it), MAX_EV = none
        pub open_text: usize,
        /// how often stream_to_recorder was entered
        pub entered: usize,
    }

    // distinctive non-zero initialiser (kani-compiler 0.68 may alias a zeroed `static mut` with std constants);
    // the harness calls `reset` first.
    pub static mut REC: Rec = Rec { n: 0x5a5a, ev: [EV0; MAX_EV], overflow: true, calls: 0x5a5b, fail_at: 0x5a5c, open_text: 0x5a5d, entered: 0x5a5e };

    pub fn reset(fail_at: usize) {
        unsafe {
            REC.n = 0;
            REC.overflow = false;
            REC.calls = 0;
            REC.fail_at = fail_at;
            REC.open_text = MAX_EV;
            REC.entered = 0;
        }
    }

    /// Pub door to the private default writer (one forwarding call).
    pub fn default_writer(buf: &mut FileBuf, evt: &emit::Event<&dyn emit::props::ErasedProps>) -> io::Result<()> {
        super::default_writer(buf, evt)
    }

    pub fn new_buf() -> FileBuf {
        FileBuf::new()
    }

    pub fn buf_len(buf: &FileBuf) -> usize {
        buf.0.len()
    }

    /// Stand-in for `sval_json::stream_to_io_write(buf, value)`: streams `value` (the real `EventValue`) into the recorder.
    pub fn stream_to_recorder<V: sval::Value>(_buf: &mut FileBuf, value: V) -> sval::Result {
        let rec: &mut Rec = unsafe { &mut *core::ptr::addr_of_mut!(REC) };
        rec.entered += 1;
        value.stream(rec)
    }

    impl Rec {
        #[inline(never)]
        fn step(&mut self) -> sval::Result {
            let c = self.calls;
            self.calls = c + 1;
            if c == self.fail_at {
                return sval::error();
            }
            Ok(())
        }

        fn push(&mut self, ev: Ev) -> sval::Result {
            self.step()?;
            if self.n < MAX_EV {
                self.ev[self.n] = ev;
                self.n += 1;
            } else {
                self.overflow = true;
            }
            Ok(())
        }

        fn label(kind: u8, label: &sval::Label) -> Ev {
            let s = label.as_str().as_bytes();
            let mut head = [0u8; HEAD];
            let mut i = 0;
            while i < HEAD {
                if i < s.len() {
                    head[i] = s[i];
                }
                i += 1;
            }
            let ident = match label.tag() {
                Some(t) => *t == sval::tags::VALUE_IDENT,
                None => false,
            };
            Ev { kind, ident, tagged: label.tag().is_some(), len: s.len(), head, num: 0 }
        }
    }

    impl<'sval> sval::Stream<'sval> for Rec {
        fn null(&mut self) -> sval::Result {
            self.push(Ev { kind: NULL, ..EV0 })
        }

        fn bool(&mut self, v: bool) -> sval::Result {
            self.push(Ev { kind: BOOL, num: v as i64, ..EV0 })
        }

        fn i64(&mut self, v: i64) -> sval::Result {
            self.push(Ev { kind: I64, num: v, ..EV0 })
        }

        fn f64(&mut self, _: f64) -> sval::Result {
            self.push(Ev { kind: F64, ..EV0 })
        }

        fn text_begin(&mut self, _: Option<usize>) -> sval::Result {
            let at = self.n;
            self.push(Ev { kind: TEXT_BEGIN, ..EV0 })?;
            self.open_text = if at < MAX_EV { at } else { MAX_EV };
            Ok(())
        }

        fn text_fragment_computed(&mut self, fragment: &str) -> sval::Result {
            // fragments are not calls of their own in the record: they fill in the open TEXT_BEGIN event
            let at = self.open_text;
            if at < MAX_EV {
                let s = fragment.as_bytes();
                let have = self.ev[at].len;
                let mut i = 0;
                while i < HEAD {
                    if have <= i && i - have < s.len() {
                        self.ev[at].head[i] = s[i - have];
                    }
                    i += 1;
                }
                self.ev[at].len = have + s.len();
            }
            Ok(())
        }

        fn text_end(&mut self) -> sval::Result {
            self.open_text = MAX_EV;
            self.push(Ev { kind: TEXT_END, ..EV0 })
        }

        fn seq_begin(&mut self, _: Option<usize>) -> sval::Result {
            self.push(Ev { kind: OTHER, ..EV0 })
        }

        fn seq_value_begin(&mut self) -> sval::Result {
            self.push(Ev { kind: OTHER, ..EV0 })
        }

        fn seq_value_end(&mut self) -> sval::Result {
            self.push(Ev { kind: OTHER, ..EV0 })
        }

        fn seq_end(&mut self) -> sval::Result {
            self.push(Ev { kind: OTHER, ..EV0 })
        }

        fn record_begin(
            &mut self,
            _: Option<&sval::Tag>,
            _: Option<&sval::Label>,
            _: Option<&sval::Index>,
            _: Option<usize>,
        ) -> sval::Result {
            self.push(Ev { kind: RECORD_BEGIN, ..EV0 })
        }

        fn record_value_begin(&mut self, _: Option<&sval::Tag>, label: &sval::Label) -> sval::Result {
            self.push(Self::label(VALUE_BEGIN, label))
        }

        fn record_value_end(&mut self, _: Option<&sval::Tag>, label: &sval::Label) -> sval::Result {
            self.push(Self::label(VALUE_END, label))
        }

        fn record_end(&mut self, _: Option<&sval::Tag>, _: Option<&sval::Label>, _: Option<&sval::Index>) -> sval::Result {
            self.push(Ev { kind: RECORD_END, ..EV0 })
        }
    }
}
