// ---------------------------------------------------------------------------------------------
// Appended by /verif to the scratch copy of emitter/otlp/src/client.rs (never to /repo).
// Only ADDS wrappers: constructors from explicit state, read-only snapshots and `pub` doors to
// crate-private items. It contains no logic of the code under test.
// ---------------------------------------------------------------------------------------------
#[cfg(any(kani, emit_rs_emit_verif))]
#[allow(missing_docs, dead_code, private_interfaces, private_bounds, unused_imports, static_mut_refs)]
pub mod verif {
    use super::*;
    use crate::data::{
        logs::LogsEventEncoder, metrics::MetricsEventEncoder, traces::TracesEventEncoder,
        EncodedEvent, EncodedPayload, EncodedScopeItems, EventEncoder, RawEncoder,
    };

    // ---- raw encoders that do not serialise -------------------------------------------------

    /// Stand-in for the trace/span id wrappers of a raw encoder.
    pub struct NoId;
    impl From<emit::TraceId> for NoId {
        fn from(_: emit::TraceId) -> NoId {
            NoId
        }
    }
    impl From<emit::SpanId> for NoId {
        fn from(_: emit::SpanId) -> NoId {
            NoId
        }
    }
    impl sval::Value for NoId {
        fn stream<'sval, S: sval::Stream<'sval> + ?Sized>(&'sval self, stream: &mut S) -> sval::Result {
            stream.null()
        }
    }

    /// A `RawEncoder` that drops the record without streaming it. Whether an event encoder
    /// accepts an event is decided before `E::encode` is reached, so this isolates the
    /// accept/decline decision from sval_json / sval_protobuf.
    pub struct NullEnc;
    impl RawEncoder for NullEnc {
        type TraceId = NoId;
        type SpanId = NoId;
        fn encode<V: sval::Value>(_value: V) -> EncodedPayload {
            EncodedPayload::Json(sval_json::JsonStr::boxed(""))
        }
    }

    /// `MetricsEventEncoder::default().encode_event(evt).is_some()`
    pub fn metrics_accepts(evt: &emit::event::Event<impl emit::props::Props>) -> bool {
        let r = MetricsEventEncoder::default().encode_event::<NullEnc>(evt);
        let a = r.is_some();
        core::mem::forget(r);
        a
    }

    /// `TracesEventEncoder::default().encode_event(evt).is_some()`
    pub fn traces_accepts(evt: &emit::event::Event<impl emit::props::Props>) -> bool {
        let r = TracesEventEncoder::default().encode_event::<NullEnc>(evt);
        let a = r.is_some();
        core::mem::forget(r);
        a
    }

    /// `LogsEventEncoder::default().encode_event(evt).is_some()`
    pub fn logs_accepts(evt: &emit::event::Event<impl emit::props::Props>) -> bool {
        let r = LogsEventEncoder::default().encode_event::<NullEnc>(evt);
        let a = r.is_some();
        core::mem::forget(r);
        a
    }
}
