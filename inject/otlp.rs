// ---------------------------------------------------------------------------------------------
// Appended by /verif to the scratch copy of emitter/otlp/src/client.rs (never to /repo).
// Only ADDS wrappers: constructors from explicit state, read-only snapshots and `pub` doors to
// crate-private items. It contains no logic of the code under test.
// ---------------------------------------------------------------------------------------------
#[cfg(any(kani, emit_rs_emit_verif))]
#[allow(missing_docs, dead_code, private_interfaces, private_bounds, unused_imports, static_mut_refs)]
pub mod verif {
    use super::*;
    use crate::data::{
        logs::LogsEventEncoder, metrics::MetricsEventEncoder, traces::TracesEventEncoder,
        EncodedEvent, EncodedPayload, EncodedScopeItems, EventEncoder, RawEncoder,
    };

    // ---- raw encoders that do not serialise -------------------------------------------------

    /// Stand-in for the trace/span id wrappers of a raw encoder.
    pub struct NoId;
    impl From<emit::TraceId> for NoId {
        fn from(_: emit::TraceId) -> NoId {
            NoId
        }
    }
    impl From<emit::SpanId> for NoId {
        fn from(_: emit::SpanId) -> NoId {
            NoId
        }
    }
    impl sval::Value for NoId {
        fn stream<'sval, S: sval::Stream<'sval> + ?Sized>(&'sval self, stream: &mut S) -> sval::Result {
            stream.null()
        }
    }

    /// A `RawEncoder` that drops the record without streaming it. Whether an event encoder
    /// accepts an event is decided before `E::encode` is reached, so this isolates the
    /// accept/decline decision from sval_json / sval_protobuf.
    pub struct NullEnc;
    impl RawEncoder for NullEnc {
        type TraceId = NoId;
        type SpanId = NoId;
        fn encode<V: sval::Value>(_value: V) -> EncodedPayload {
            EncodedPayload::Json(sval_json::JsonStr::boxed(""))
        }
    }

    /// `MetricsEventEncoder::default().encode_event(evt).is_some()`
    pub fn metrics_accepts(evt: &emit::event::Event<impl emit::props::Props>) -> bool {
        let r = MetricsEventEncoder::default().encode_event::<NullEnc>(evt);
        let a = r.is_some();
        core::mem::forget(r);
        a
    }

    /// `TracesEventEncoder::default().encode_event(evt).is_some()`
    pub fn traces_accepts(evt: &emit::event::Event<impl emit::props::Props>) -> bool {
        let r = TracesEventEncoder::default().encode_event::<NullEnc>(evt);
        let a = r.is_some();
        core::mem::forget(r);
        a
    }

    /// `LogsEventEncoder::default().encode_event(evt).is_some()`
    pub fn logs_accepts(evt: &emit::event::Event<impl emit::props::Props>) -> bool {
        let r = LogsEventEncoder::default().encode_event::<NullEnc>(evt);
        let a = r.is_some();
        core::mem::forget(r);
        a
    }

    // ---- association list standing in for std's HashMap inside `EncodedScopeItems` ---------------
    //
    // hashbrown's SIMD group probing does not finish under CBMC (one insert: > 15 min of symbolic
    // execution). `EncodedScopeItems` only uses `new`, `entry(..).or_default()`, `len`, `values`
    // and `iter`; the substitution `otlp:scope-items-map` (stubs/otlp.toml) swaps the import in
    // data.rs for this type. Iteration order of a HashMap is unspecified; insertion order is one
    // of its possible orders. std's HashMap itself is trusted.
    pub struct VecMap<K, V> {
        // inline, fixed capacity: the harnesses use at most two scopes, and a heap-allocated
        // list inside the heap-allocated request vector is one pointer level too many for CBMC
        slots: [Option<(K, V)>; 2],
    }

    impl<K, V> Default for VecMap<K, V> {
        fn default() -> Self {
            VecMap { slots: [None, None] }
        }
    }

    pub struct VecEntry<'a, K, V> {
        map: &'a mut VecMap<K, V>,
        key: K,
    }

    impl<K: PartialEq, V> VecMap<K, V> {
        pub fn new() -> Self {
            VecMap { slots: [None, None] }
        }

        pub fn entry(&mut self, key: K) -> VecEntry<'_, K, V> {
            VecEntry { map: self, key }
        }

        pub fn len(&self) -> usize {
            self.slots.iter().filter(|s| s.is_some()).count()
        }

        pub fn values(&self) -> impl Iterator<Item = &V> {
            self.slots.iter().filter_map(|s| s.as_ref().map(|(_, v)| v))
        }

        pub fn iter(&self) -> impl Iterator<Item = (&K, &V)> {
            self.slots.iter().filter_map(|s| s.as_ref().map(|(k, v)| (k, v)))
        }
    }

    impl<'a, K: PartialEq, V: Default> VecEntry<'a, K, V> {
        pub fn or_default(self) -> &'a mut V {
            let VecEntry { map, key } = self;
            let mut at = 2;
            let mut i = 0;
            while i < 2 {
                match &map.slots[i] {
                    Some((k, _)) => {
                        if *k == key {
                            at = i;
                            break;
                        }
                    }
                    None => {
                        map.slots[i] = Some((key, V::default()));
                        at = i;
                        break;
                    }
                }
                i += 1;
            }
            match map.slots.get_mut(at) {
                Some(Some((_, v))) => v,
                _ => panic!("verif: VecMap holds at most two keys"),
            }
        }
    }

    // ---- C12: the batching channel and the request loop of `OtlpTransport::send` -------------

    /// Door to the crate-private `Channel` (the `emit_batcher::Channel` of every OTLP signal).
    pub struct VChannel(pub(crate) Channel);

    impl VChannel {
        /// `<Channel as emit_batcher::Channel>::new()`
        pub fn new() -> Self {
            VChannel(<Channel as emit_batcher::Channel>::new())
        }

        /// `<Channel as emit_batcher::Channel>::push` of an event in scope `a` whose encoded
        /// payload is `payload_len` bytes long (<= 3), with the given request size limit.
        pub fn push(&mut self, payload_len: usize, max_request_size_bytes: usize) {
            emit_batcher::Channel::push(
                &mut self.0,
                ChannelItem {
                    max_request_size_bytes,
                    event: EncodedEvent {
                        scope: emit::Path::new_raw("a"),
                        // one allocation of constant size per arm: an allocation of symbolic
                        // size makes CBMC's array post-processing exhaust memory
                        payload: EncodedPayload::Json(match payload_len {
                            0 => sval_json::JsonStr::boxed(""),
                            1 => sval_json::JsonStr::boxed("x"),
                            2 => sval_json::JsonStr::boxed("xx"),
                            3 => sval_json::JsonStr::boxed("xxx"),
                            _ => panic!("verif: payload_len > 3"),
                        }),
                    },
                },
            )
        }

        /// As `push`, for a *symbolic* `payload_len <= 3`: the payload is a 3-byte allocation of
        /// which only the first `payload_len` bytes are exposed (a symbolic allocation size, or a
        /// symbolic choice between allocations, exhausts CBMC's array post-processing). The box
        /// must never be freed: channels filled this way are leaked by the harness.
        pub fn push_leaky(&mut self, payload_len: usize, max_request_size_bytes: usize) {
            assert!(payload_len <= 3);
            let raw: *mut str = Box::into_raw(Box::<str>::from("xxx"));
            let short = core::ptr::slice_from_raw_parts_mut(raw as *mut u8, payload_len) as *mut str;
            let payload = sval_json::JsonStr::boxed(unsafe { Box::from_raw(short) });
            emit_batcher::Channel::push(
                &mut self.0,
                ChannelItem {
                    max_request_size_bytes,
                    event: EncodedEvent {
                        scope: emit::Path::new_raw("a"),
                        payload: EncodedPayload::Json(payload),
                    },
                },
            )
        }

        /// `<Channel as emit_batcher::Channel>::len`
        pub fn len(&self) -> usize {
            emit_batcher::Channel::len(&self.0)
        }

        /// `<Channel as emit_batcher::Channel>::clear`
        pub fn clear(&mut self) {
            emit_batcher::Channel::clear(&mut self.0)
        }

        /// Constructor from explicit state: a batch of `n` requests without items. The request
        /// loop of `send` never looks inside a request; payload-carrying requests make the drop
        /// glue of the popped requests (both payload representations, per element) exhaust memory.
        pub fn with_empty_requests(n: usize) -> Self {
            let mut requests = Vec::with_capacity(n);
            let mut i = 0;
            while i < n {
                requests.push(EncodedScopeItems::new());
                i += 1;
            }
            VChannel(Channel {
                requests,
                current_request_size_bytes: 0,
                total_items: 0,
            })
        }

        /// read-only: where request `r` lives (requests without items can only be told apart by
        /// their slot in the batch's request vector)
        pub fn request_addr(&self, r: usize) -> usize {
            &self.0.requests[r] as *const EncodedScopeItems as usize
        }

        /// read-only: number of requests
        pub fn n_requests(&self) -> usize {
            self.0.requests.len()
        }

        /// read-only: number of items of request `r`
        pub fn request_items(&self, r: usize) -> usize {
            self.0.requests[r].total_items()
        }

        /// read-only: payload length of item `i` of request `r` (all items are in scope `a`)
        pub fn item_len(&self, r: usize, i: usize) -> usize {
            match self.0.requests[r].items().next() {
                // not `EncodedPayload::len()`: its protobuf arm follows pointers, and CBMC does not
                // resolve the representation of a payload read back from the heap
                Some((_, items)) => match &items[i] {
                    EncodedPayload::Json(json) => json.as_str().len(),
                    EncodedPayload::Proto(_) => panic!("verif: the harness only pushes JSON payloads"),
                },
                None => panic!("verif: request without scope"),
            }
        }
    }

    /// Number of calls to the (substituted) network request so far.
    pub static mut ATTEMPTS: usize = 0;
    /// Scripted outcome of the i-th network request: `true` = acknowledged, `false` = failed (retryable).
    pub static mut SCRIPT: [bool; 8] = [true; 8];
    /// Address of the request handed to the i-th network request.
    pub static mut ATTEMPTED: [usize; 8] = [0; 8];

    #[derive(Debug)]
    struct ScriptedFailure;
    impl std::fmt::Display for ScriptedFailure {
        fn fmt(&self, f: &mut std::fmt::Formatter) -> std::fmt::Result {
            f.write_str("scripted failure")
        }
    }
    impl std::error::Error for ScriptedFailure {}

    /// Stand-in for `OtlpTransport::send_batch` (the hyper/tokio network request), put in place
    /// by the call-site substitution `otlp:send-batch-call`: records which request it was handed
    /// and answers with the scripted outcome (failures are retryable, as every transport failure is).
    pub(crate) async fn send_batch_outcome<R>(
        _http: &HttpConnection,
        _resource: &Option<EncodedPayload>,
        _request_encoder: &ClientRequestEncoder<R>,
        batch: &EncodedScopeItems,
    ) -> Result<(), BatchError<()>> {
        unsafe {
            let i = ATTEMPTS;
            ATTEMPTS += 1;
            ATTEMPTED[i] = batch as *const EncodedScopeItems as usize;
            if SCRIPT[i] {
                Ok(())
            } else {
                Err(BatchError::retry(ScriptedFailure, ()))
            }
        }
    }

    /// Door to the crate-private `OtlpTransport`, around a connection that was never connected
    /// (`HttpConnection::verif_unconnected`, inject/otlp_http.rs): with the network request
    /// substituted, `send` never touches the connection.
    pub struct VTransport(OtlpTransport<crate::data::logs::LogsRequestEncoder>);

    impl VTransport {
        pub fn new() -> Self {
            VTransport(OtlpTransport::Http {
                http: HttpConnection::verif_unconnected(Arc::new(InternalMetrics::default())),
                resource: None,
                request_encoder: ClientRequestEncoder::new(
                    Encoding::Json,
                    crate::data::logs::LogsRequestEncoder::default(),
                ),
            })
        }

        /// `OtlpTransport::send(channel)` driven to completion: with the network request
        /// substituted the future has no suspension point, so one poll must complete it.
        /// Returns `(Ok?, retryable remainder)`.
        pub fn send(&self, channel: VChannel) -> (bool, Option<VChannel>) {
            let fut = self.0.send(channel.0);
            let mut fut = core::pin::pin!(fut);
            let mut cx = std::task::Context::from_waker(std::task::Waker::noop());
            match fut.as_mut().poll(&mut cx) {
                std::task::Poll::Ready(Ok(())) => (true, None),
                std::task::Poll::Ready(Err(e)) => (false, e.into_retryable().map(VChannel)),
                std::task::Poll::Pending => panic!("verif: send did not complete in one poll"),
            }
        }
    }

    // ---- C13: the any-value bridge ---------------------------------------------------------------

    /// Door to `data::any_value::EmitValue`: stream `value` through the real adapter into `stream`.
    pub fn stream_any_value<'v>(
        value: emit::Value<'v>,
        stream: &mut impl sval::Stream<'v>,
    ) -> sval::Result {
        sval_ref::stream_ref(stream, crate::data::EmitValue(value))
    }
}
