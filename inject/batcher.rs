// ---- appended by /verif (inject/batcher.rs) to batcher/src/lib.rs of the SCRATCH tree only ----
// Read-only snapshots, a constructor from an explicit state and `pub` wrappers around private items.
// No logic of the code under test lives here: every wrapper forwards to the real item.
#[cfg(any(kani, emit_rs_emit_verif))]
#[doc(hidden)]
#[allow(missing_docs, dead_code)]
pub mod verif {
    use super::*;

    /// The type of a registered callback (`Watcher` is private).
    pub type Callback = Box<dyn FnOnce() + Send>;

    /// Everything observable about the shared state, by value.
    #[derive(Clone, Copy, Debug, PartialEq, Eq)]
    pub struct Snapshot {
        pub pending_len: usize,
        pub is_open: bool,
        pub is_in_batch: bool,
        pub on_take: usize,
        pub on_flush: usize,
        pub truncated: usize,
        pub blocked: usize,
        pub processed: usize,
        pub failed: usize,
        pub panicked: usize,
        pub retried: usize,
    }

    fn snapshot_shared<T: Channel>(shared: &Shared<T>) -> Snapshot {
        let state = shared.state.peek();
        Snapshot {
            pending_len: state.next_batch.channel.len(),
            is_open: state.is_open,
            is_in_batch: state.is_in_batch,
            on_take: state.next_batch.watchers.on_take.len(),
            on_flush: state.next_batch.watchers.on_flush.len(),
            truncated: shared.metrics.queue_full_truncated.sample(),
            blocked: shared.metrics.queue_full_blocked.sample(),
            processed: shared.metrics.queue_batch_processed.sample(),
            failed: shared.metrics.queue_batch_failed.sample(),
            panicked: shared.metrics.queue_batch_panicked.sample(),
            retried: shared.metrics.queue_batch_retry.sample(),
        }
    }

    pub fn snapshot<T: Channel>(sender: &Sender<T>) -> Snapshot {
        snapshot_shared(&sender.shared)
    }

    pub fn snapshot_rx<T: Channel>(receiver: &Receiver<T>) -> Snapshot {
        snapshot_shared(&receiver.shared)
    }

    /// Read-only access to the pending queue (to compare its content).
    pub fn pending<T: Channel>(sender: &Sender<T>) -> &T {
        &sender.shared.state.peek().next_batch.channel
    }

    /// An explicit channel state.
    pub struct Init<T> {
        pub max_capacity: usize,
        pub pending: T,
        pub on_take: Vec<Callback>,
        pub on_flush: Vec<Callback>,
        pub is_open: bool,
        pub is_in_batch: bool,
        pub truncated: usize,
    }

    /// `bounded(max_capacity)` with the shared state then overwritten by the given one.
    pub fn pair<T: Channel>(init: Init<T>) -> (Sender<T>, Receiver<T>) {
        let (sender, receiver) = bounded::<T>(init.max_capacity);
        set_state(&sender, init);
        (sender, receiver)
    }

    /// Overwrite the shared state (models an arbitrary sequence of other actors' steps); returns the parts of the
    /// old pending batch (so that the caller decides whether their drop glue runs).
    pub fn set_state<T: Channel>(sender: &Sender<T>, init: Init<T>) -> (T, Vec<Callback>, Vec<Callback>) {
        let old = sender.shared.state.init(State {
            next_batch: Batch {
                channel: init.pending,
                watchers: Watchers {
                    on_take: init.on_take,
                    on_flush: init.on_flush,
                },
            },
            is_open: init.is_open,
            is_in_batch: init.is_in_batch,
        });
        let t = sender.shared.metrics.queue_full_truncated.sample();
        sender
            .shared
            .metrics
            .queue_full_truncated
            .increment_by(init.truncated.wrapping_sub(t));
        (
            old.next_batch.channel,
            old.next_batch.watchers.on_take,
            old.next_batch.watchers.on_flush,
        )
    }

    /// Replace the retry budget (10 in `bounded`) by a smaller one.
    pub fn set_retry_max<T>(receiver: &mut Receiver<T>, max: u32) {
        receiver.retry = Retry::new(max);
    }

    /// Overwrite the receiver-local state an earlier batch may have left behind: retry counter and budget, current
    /// retry back-off, current idle back-off (steps and caps stay the ones `bounded` configured).
    pub fn set_receiver_history<T>(
        receiver: &mut Receiver<T>,
        retry_current: u32,
        retry_max: u32,
        retry_delay_current: Duration,
        idle_delay_current: Duration,
    ) {
        receiver.retry.current = retry_current;
        receiver.retry.max = retry_max;
        receiver.retry_delay.current = retry_delay_current;
        receiver.idle_delay.current = idle_delay_current;
    }

    pub fn retry_state<T>(receiver: &Receiver<T>) -> (u32, u32) {
        (receiver.retry.current, receiver.retry.max)
    }

    pub fn max_capacity<T>(sender: &Sender<T>) -> usize {
        sender.max_capacity
    }

    /// `Batch::new()`: (channel, on_take count, on_flush count).
    pub fn batch_new<T: Channel>() -> (T, usize, usize) {
        let b = Batch::<T>::new();
        let (t, f) = (b.watchers.on_take.len(), b.watchers.on_flush.len());
        (b.channel, t, f)
    }

    /// `Batch::default()` (what `mem::take` leaves behind).
    pub fn batch_default<T: Channel>() -> (T, usize, usize) {
        let b = <Batch<T> as Default>::default();
        let (t, f) = (b.watchers.on_take.len(), b.watchers.on_flush.len());
        (b.channel, t, f)
    }

    pub struct VWatchers(Watchers);

    impl VWatchers {
        pub fn new() -> Self {
            VWatchers(Watchers::new())
        }
        pub fn from_parts(on_take: Vec<Callback>, on_flush: Vec<Callback>) -> Self {
            VWatchers(Watchers { on_take, on_flush })
        }
        pub fn push_on_flush(&mut self, w: Callback) {
            self.0.push_on_flush(w)
        }
        pub fn push_on_take(&mut self, w: Callback) {
            self.0.push_on_take(w)
        }
        pub fn notify_on_flush(&mut self) {
            self.0.notify_on_flush()
        }
        pub fn notify_on_take(&mut self) {
            self.0.notify_on_take()
        }
        pub fn counts(&self) -> (usize, usize) {
            (self.0.on_take.len(), self.0.on_flush.len())
        }
    }

    pub struct VRetry(Retry);

    impl VRetry {
        pub fn new(max: u32) -> Self {
            VRetry(Retry::new(max))
        }
        pub fn from_parts(current: u32, max: u32) -> Self {
            VRetry(Retry { current, max })
        }
        pub fn reset(&mut self) {
            self.0.reset()
        }
        pub fn next(&mut self) -> bool {
            self.0.next()
        }
        pub fn parts(&self) -> (u32, u32) {
            (self.0.current, self.0.max)
        }
    }

    pub struct VDelay(Delay);

    impl VDelay {
        pub fn new(step: Duration, max: Duration) -> Self {
            VDelay(Delay::new(step, max))
        }
        pub fn from_parts(current: Duration, step: Duration, max: Duration) -> Self {
            VDelay(Delay { current, step, max })
        }
        pub fn reset(&mut self) {
            self.0.reset()
        }
        pub fn next(&mut self) -> Duration {
            self.0.next()
        }
        pub fn parts(&self) -> (Duration, Duration, Duration) {
            (self.0.current, self.0.step, self.0.max)
        }
    }

    /// The delays a receiver made by `bounded` starts with: (idle, retry).
    pub fn receiver_delays<T>(receiver: &Receiver<T>) -> (VDelay, VDelay) {
        (
            VDelay(Delay {
                current: receiver.idle_delay.current,
                step: receiver.idle_delay.step,
                max: receiver.idle_delay.max,
            }),
            VDelay(Delay {
                current: receiver.retry_delay.current,
                step: receiver.retry_delay.step,
                max: receiver.retry_delay.max,
            }),
        )
    }

    pub const CAPACITY_WINDOW: usize = super::CAPACITY_WINDOW;

    pub struct VCapacity(Capacity);

    impl VCapacity {
        pub fn new() -> Self {
            VCapacity(Capacity::new())
        }
        pub fn from_parts(rolling_values: [usize; super::CAPACITY_WINDOW], idx: usize) -> Self {
            VCapacity(Capacity { rolling_values, idx })
        }
        pub fn next(&mut self, last_len: usize) -> usize {
            self.0.next(last_len)
        }
        pub fn parts(&self) -> ([usize; super::CAPACITY_WINDOW], usize) {
            (self.0.rolling_values, self.0.idx)
        }
    }

    /// The private `CatchUnwind` future adapter, as `exec` builds it.
    pub fn catch_unwind_future<F: Future>(
        f: F,
    ) -> impl Future<Output = Result<F::Output, Box<dyn Any + Send>>> {
        CatchUnwind(AssertUnwindSafe(f))
    }
}
