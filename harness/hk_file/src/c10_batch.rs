//! `EventBatch` kernels (the channel type between `FileSet::emit` and the worker).
//!
//! C10 needs the cursor: a batch handed back for retry after `a` successful `write_event`s must present
//! exactly the events `a..` again, each byte-identical (`current`/`advance`/`len`).
//! C11 (size-limit clause) needs `remaining_bytes` to be the number of bytes the batch would write: it is
//! what `on_batch` adds to the file size when it decides whether to roll. That must also hold for a
//! batch the batcher `clear`ed on overflow and then kept filling.
//!
//! Shape is concrete (K pushes), event lengths (1..=2) and bytes are symbolic.
use emit_file::verif::VEventBatch;

#[cfg(kani)]
fn sym_item() -> (Box<[u8]>, [u8; 2], usize) {
    let b: [u8; 2] = kani::any();
    let long: bool = kani::any();
    if long {
        (Box::new([b[0], b[1]]), b, 2)
    } else {
        (Box::new([b[0]]), b, 1)
    }
}

fn same(cur: Option<&[u8]>, b: &[u8; 2], n: usize) -> bool {
    match cur {
        Some(c) => c.len() == n && c[0] == b[0] && (n < 2 || c[1] == b[1]),
        None => false,
    }
}

/// Push K events, then drain with `current`/`advance`, checking at every position.
#[cfg(kani)]
fn cursor<const K: usize, const BYTES: bool>(twin: bool) {
    let mut batch = VEventBatch::new();
    let mut bs = [[0u8; 2]; K];
    let mut ns = [0usize; K];
    let mut total = 0usize;
    let mut i = 0;
    while i < K {
        let (item, b, n) = sym_item();
        bs[i] = b;
        ns[i] = n;
        total += n;
        batch.push(item);
        i += 1;
    }
    let mut a = 0;
    while a < K {
        if BYTES {
            assert!(batch.remaining_bytes() == total, "remaining_bytes = bytes of the events not yet advanced past");
        } else {
            assert!(batch.len() == K - a, "len = events not yet advanced past");
            assert!(same(batch.current(), &bs[a], ns[a]), "current = the first event not yet advanced past, byte-identical");
        }
        batch.advance();
        if !(twin && a == 0) {
            total -= ns[a];
        }
        a += 1;
    }
    if BYTES {
        assert!(batch.remaining_bytes() == total);
    } else {
        assert!(batch.len() == 0 && batch.is_empty());
        assert!(batch.current().is_none(), "drained");
    }
    kani::cover!(K > 1 && ns[0] == 2 && ns[K - 1] == 1, "mixed lengths");
    core::mem::forget(batch);
}

#[cfg(kani)]
#[kani::proof]
#[kani::unwind(5)]
pub fn c10_q_batch_cursor() {
    cursor::<3, false>(false)
}

#[cfg(kani)]
#[kani::proof]
#[kani::unwind(5)]
pub fn c11_q_batch_bytes() {
    cursor::<3, true>(false)
}

/// Mutant twin: claims `advance` does not reduce `remaining_bytes` - must FAIL.
#[cfg(kani)]
#[kani::proof]
#[kani::unwind(5)]
pub fn c11_w_batch_bytes_stale() {
    cursor::<3, true>(true)
}

/// Mutant twin of the cursor: claims the second event is presented first - must FAIL.
#[cfg(kani)]
#[kani::proof]
#[kani::unwind(5)]
pub fn c10_w_batch_cursor_skips() {
    let mut batch = VEventBatch::new();
    let (i0, b0, n0) = sym_item();
    let (i1, b1, n1) = sym_item();
    batch.push(i0);
    batch.push(i1);
    kani::assume(b0[0] != b1[0]);
    assert!(same(batch.current(), &b1, n1));
    kani::cover!(true, "reached");
    core::mem::forget(batch);
}

/// The batcher clears the pending batch when it overflows (`Sender::send`: `channel.clear()` then `push`),
/// and the worker later receives that same object: P events pushed, `clear`, one more event pushed.
#[cfg(kani)]
#[kani::proof]
#[kani::unwind(5)]
pub fn c11_q_batch_clear() {
    let mut batch = VEventBatch::new();
    let (i0, _, n0) = sym_item();
    let (i1, _, n1) = sym_item();
    batch.push(i0);
    batch.push(i1);
    batch.clear();
    let (i2, b2, n2) = sym_item();
    batch.push(i2);
    assert!(same(batch.current(), &b2, n2), "the event pushed after the clear is the next one written");
    assert!(
        batch.remaining_bytes() == n2,
        "remaining_bytes counts only the events the batch still holds (cleared events are gone)"
    );
    kani::cover!(n0 + n1 == 3 && n2 == 2, "cleared two, pushed one");
    core::mem::forget(batch);
}
