//! C11-K2: membership. `ActiveFileSet::read` over a directory listing must keep exactly the names of the
//! form `prefix.period.counter.id.ext` of THIS set - whatever else shares the directory - sorted newest
//! first, and `current_file_name` is the newest of them. Everything the worker later appends to
//! (`try_open_reuse(current_file_name)`) or deletes (`apply_retention`) comes out of this list, so a
//! foreign name in it is a foreign file written to or deleted.
//!
//! (M1) one listed file whose name is ANY string of exactly L bytes over the alphabet
//!      {a b c x l g 1 .} (set: prefix `ab`, extension `lg`): it is in the set iff it reads
//!      `ab.P.C.I.lg` with P, C, I non-empty and dot-free. One harness per L; the lengths are chosen so
//!      that the sibling shapes occur: `abc.1.1.1.lg` (prefix extended), `ab.x.1.1.1.lg` (prefix extended
//!      by a dotted part), `ab.lg` (the template itself), `ab.1.1.1.xlg` (extension is a suffix of another),
//!      `ab.1.1.lg` (too few parts), `a.1.1.1.lg`.
//! (M2) two own files, listed oldest first: the set is sorted newest first; current = newest.
//! Membership is structural, so the period / counter / id parts are short tokens here.
use emit_file::verif::{FsAdapter, VFileSet, VMetrics};

use crate::hfs::*;

pub const DIR: &str = "d";
pub const PREFIX: &str = "ab";
pub const EXT: &str = "lg";

pub const OWN_OLD: &str = "d/ab.1.c.i.lg";
pub const OWN_NEW: &str = "d/ab.2.c.i.lg";
pub const OWN_OLD_NAME: &str = "ab.1.c.i.lg";
pub const OWN_NEW_NAME: &str = "ab.2.c.i.lg";

pub const ALPHA: &[u8] = b"abcxlg1.";

/// Reference: `name` is `ab.P.C.I.lg` with P, C, I non-empty and dot-free.
pub fn is_own<const L: usize>(name: &[u8; L]) -> bool {
    if L < 11 {
        return false;
    }
    if !(name[0] == b'a' && name[1] == b'b' && name[2] == b'.') {
        return false;
    }
    if !(name[L - 3] == b'.' && name[L - 2] == b'l' && name[L - 1] == b'g') {
        return false;
    }
    // the middle name[3 .. L-3] must be three non-empty dot-free parts: exactly two dots, none at either
    // end, not adjacent
    let mut dots = 0;
    let mut prev_dot = true;
    let mut i = 3;
    while i < L - 3 {
        let d = name[i] == b'.';
        if d {
            if prev_dot {
                return false;
            }
            dots += 1;
        }
        prev_dot = d;
        i += 1;
    }
    !prev_dot && dots == 2
}

/// (M1) for names of exactly L bytes.
#[cfg(kani)]
fn member<const L: usize>(twin: bool) -> ([u8; L], bool) {
    reset();
    let mut name = [0u8; L];
    let s = st();
    s.buf[0] = b'd';
    s.buf[1] = b'/';
    let mut i = 0;
    while i < L {
        let k: usize = kani::any();
        kani::assume(k < 8);
        name[i] = ALPHA[k];
        s.buf[2 + i] = name[i];
        i += 1;
    }
    // a directory entry is not named `.something` by any of the shapes of interest (and the path stub
    // asserts it)
    kani::assume(name[0] != b'.');
    s.buf_len = L + 2;
    let metrics = VMetrics::new();
    let fs = FsAdapter(HFs);
    let mut set = VFileSet::empty(&metrics, DIR);
    let r = set.read(&fs, PREFIX, EXT);
    assert!(r.is_ok());
    core::mem::forget(r);

    let own = is_own(&name) != twin;
    let names = set.names();
    assert!(names.len() <= 1);
    let listed = names.len() == 1;
    assert!(!listed || own, "a file that is not of the form prefix.period.counter.id.ext of this set is not a member");
    assert!(!own || listed, "every file of the set is a member");
    assert!(set.current_file_name().is_some() == listed);
    let s = st();
    assert!(s.n_log == 1 && s.log[0].0 == OP_READ_DIR, "reading the set touches nothing");
    core::mem::forget(set);
    (name, listed)
}

fn eq<const L: usize>(name: &[u8; L], s: &str) -> bool {
    let b = s.as_bytes();
    if b.len() != L {
        return false;
    }
    let mut i = 0;
    while i < L {
        if name[i] != b[i] {
            return false;
        }
        i += 1;
    }
    true
}

macro_rules! member_harness {
    ($name:ident, $l:expr, $($shape:expr),+) => {
        #[cfg(kani)]
        #[kani::proof]
        #[kani::unwind(17)]
        #[kani::stub(std::path::Path::file_name, crate::hfs::stub_file_name)]
        #[kani::stub(std::ffi::OsStr::to_str, crate::hfs::stub_to_str)]
        #[kani::stub(core::slice::memchr::memchr, crate::hfs::stub_memchr)]
#[kani::stub(core::slice::memchr::memrchr, crate::hfs::stub_memrchr)]
        pub fn $name() {
            let (name, listed) = member::<$l>(false);
            $( kani::cover!(eq(&name, $shape), $shape); )+
        }
    };
}

member_harness!(c11_q_member_len12, 12, "abc.1.1.1.lg", "ab.1.1.1.xlg", "ab.11.1.1.lg");
member_harness!(c11_q_member_len13, 13, "ab.x.1.1.1.lg", "ab.1.1.1.1.lg", "ab.1.11.1x.lg");
member_harness!(c11_q_member_len11, 11, "ab.1.1.1.lg", "ab..1.1.1lg", "xb.1.1.1.lg");
member_harness!(c11_q_member_len5, 5, "ab.lg", "ablg1");
member_harness!(c11_t_member_len9, 9, "ab.1.1.lg", "ab.1.1.1l");
member_harness!(c11_t_member_len10, 10, "a.1.1.1.lg", "ab.1.1..lg");

/// Mutant twin: claims the complement - must FAIL.
#[cfg(kani)]
#[kani::proof]
#[kani::unwind(17)]
#[kani::stub(std::path::Path::file_name, crate::hfs::stub_file_name)]
#[kani::stub(std::ffi::OsStr::to_str, crate::hfs::stub_to_str)]
#[kani::stub(core::slice::memchr::memchr, crate::hfs::stub_memchr)]
#[kani::stub(core::slice::memchr::memrchr, crate::hfs::stub_memrchr)]
pub fn c11_w_member_len11() {
    let (name, listed) = member::<11>(true);
    kani::cover!(listed, "a member");
}

/// (M2) two own files listed oldest first: sorted newest first, current = newest.
#[cfg(kani)]
#[kani::proof]
#[kani::unwind(17)]
#[kani::stub(std::path::Path::file_name, crate::hfs::stub_file_name)]
#[kani::stub(std::ffi::OsStr::to_str, crate::hfs::stub_to_str)]
#[kani::stub(core::slice::memchr::memchr, crate::hfs::stub_memchr)]
#[kani::stub(core::slice::memchr::memrchr, crate::hfs::stub_memrchr)]
pub fn c11_q_member_order() {
    reset();
    let p_old = true;
    let p_new = true;
    let s = st();
    s.listing = [Some(OWN_OLD), Some(OWN_NEW), None];
    let metrics = VMetrics::new();
    let fs = FsAdapter(HFs);
    let mut set = VFileSet::empty(&metrics, DIR);
    let r = set.read(&fs, PREFIX, EXT);
    assert!(r.is_ok());
    core::mem::forget(r);
    let names = set.names();
    assert!(names.len() == (p_old as usize) + (p_new as usize), "every own file is a member");
    if p_new {
        assert!(names[0].as_str() == OWN_NEW_NAME, "newest first");
        if p_old {
            assert!(names[1].as_str() == OWN_OLD_NAME);
        }
    }
    let cur = set.current_file_name();
    assert!(cur.is_some() == (p_old || p_new));
    if let Some(c) = cur {
        assert!(c == if p_new { OWN_NEW_NAME } else { OWN_OLD_NAME }, "current = newest own file");
    }
    kani::cover!(p_old && p_new, "two own files");
    core::mem::forget(set);
}
