//! C10 kernels: `ActiveFile::{write_event, try_open_reuse, try_open_create}` over the harness filesystem.
//!
//! Record discipline decided here (separator `"\n"`; the buffers handed to `write_event` are the batch
//! items, i.e. the formatted event *including* its trailing separator as `FileSetInner::emit` builds them):
//!
//!   (W1) one `write_event(e)` from any `ActiveFile` state appends, to whatever the file held, exactly a
//!        prefix of `[sep if needs_recovery] ++ e` - nothing else is ever written, nothing is overwritten;
//!   (W2) the call returns `Ok` iff that whole string was appended, and `needs_recovery` is `false`
//!        afterwards iff it returned `Ok`;
//!   (W3) hence (two steps) after a failed or short write the next event is preceded by a separator:
//!        `old ++ [sep] ++ prefix(e1) ++ sep ++ e2` - bytes of two events are never run together;
//!   (R1) a file opened for reuse is in the needs-recovery state with `size = len`, so by (W1) the first
//!        thing ever appended to it is a separator (torn tail protection);
//!   (N1) `try_open_create` only ever yields a file that did not exist (exclusive create), is empty,
//!        clean (`needs_recovery = false`, size 0) and whose directory entry has been synced.
//!
//! The step from these kernel facts to the property (whole-worker histories) needs the control-flow
//! obligations on `Worker::on_batch` that are decided separately (DESIGN.md §4 C10-K2).
use std::path::{Path, PathBuf};

use emit_file::verif::{FsAdapter, VActiveFile};

use crate::hfs::*;

pub const SEP: &[u8] = b"\n";

/// The shortest path from which `read_file_path_ts` can extract a period part (`prefix.period`): the open
/// kernels do not look at the name beyond that, and every path-parsing loop is bounded by its length
/// (naming itself is the subject of the C11 harnesses).
// a well-formed member name `prefix.period.counter.id.ext`: the period is read back from the 4th part from the end
pub const P0: &str = "a.t.0.0.x";

/// Fill slot 0 with `n <= max <= 2` symbolic bytes, `synced <= written` symbolic.
#[cfg(kani)]
fn sym_old(max: usize) -> (u128, usize) {
    let s = st();
    let old: [u8; 2] = kani::any();
    let n: usize = kani::any();
    kani::assume(n <= max && max <= 2);
    s.exists[0] = true;
    if n >= 1 {
        s.data[0][0] = old[0];
    }
    if n >= 2 {
        s.data[0][1] = old[1];
    }
    s.written[0] = n;
    let sy: usize = kani::any();
    kani::assume(sy <= n);
    s.synced[0] = sy;
    (pack(&old), n)
}

const SEPV: u128 = b'\n' as u128;

/// A symbolic event buffer of 1..=EV bytes (the batch items always end with the separator, so they
/// are never empty; their content is unconstrained here).
#[cfg(kani)]
fn sym_event<const EV: usize>() -> ([u8; EV], usize) {
    let ev: [u8; EV] = kani::any();
    let n: usize = kani::any();
    kani::assume(n >= 1 && n <= EV);
    (ev, n)
}

/// (W1), (W2): one step from an arbitrary state, one fault of kind `KIND` at a symbolic call index.
#[cfg(kani)]
fn step<const KIND: u8, const EV: usize, const SIZE: bool>(twin: bool) -> Obs {
    reset();
    st().names[0] = P0;
    let (old, old_n) = sym_old(2);
    let nr: bool = kani::any();
    let size: usize = kani::any();
    // representation invariant: the recorded size is the size of a file that can exist
    kani::assume(size <= (1usize << 62));
    let (ev, n) = sym_event::<EV>();
    // write_event makes at most 1 write for the separator + EV + 1 writes for the event
    sym_fault(KIND, EV + 2);

    let mut f = VActiveFile::from_state(HFile { slot: 0 }, PathBuf::new(), String::new(), nr, size);
    let r = f.write_event(&ev[..n], SEP);
    let ok = r.is_ok();
    core::mem::forget(r);

    let mut exp = Exp::new();
    exp.push(old, old_n);
    if nr && !twin {
        exp.push(SEPV, 1);
    }
    exp.push(pack(&ev), n);

    let s = st();
    assert!(!s.overflowed, "harness sizes");
    // (W1)
    assert!(s.written[0] >= old_n, "write_event never shrinks the file");
    assert!(exp.has_prefix_content(0), "content = old ++ [sep iff recovery needed] ++ prefix(event)");
    // (W2)
    let whole = s.written[0] == exp.n;
    assert!(!ok || whole, "reported as written only if the whole record was appended");
    assert!(f.needs_recovery() || whole, "needs_recovery is cleared only if the whole record was written");
    assert!(ok || f.needs_recovery(), "after a failed write the file is in the needs-recovery state");
    if ok && SIZE {
        // C11 (size-limit clause): the size the rolling decision uses grows by exactly what was appended
        assert!(f.size_bytes() - size == s.written[0] - old_n, "size accounting on success");
    }

    core::mem::forget(f);
    Obs { ok, nr, faulted: s.faulted, grown: s.written[0] - old_n, n }
}

/// What the per-kind harnesses build their reachability witnesses from.
pub struct Obs {
    pub ok: bool,
    pub nr: bool,
    pub faulted: bool,
    /// bytes appended by the call
    pub grown: usize,
    /// event length
    pub n: usize,
}

#[cfg(kani)]
#[kani::proof]
#[kani::unwind(6)]
pub fn c10_q_write_step_err() {
    let o = step::<K_ERR, 2, false>(false);
    kani::cover!(o.ok && o.nr && o.n == 2, "clean write with recovery separator");
    kani::cover!(o.ok && !o.nr && !o.faulted, "clean write without separator");
    kani::cover!(!o.ok && o.nr && o.grown == 0, "separator write failed");
    kani::cover!(!o.ok && o.nr && o.grown == 1, "separator written, event not");
}

#[cfg(kani)]
#[kani::proof]
#[kani::unwind(6)]
pub fn c10_q_write_step_short() {
    let o = step::<K_SHORT, 2, false>(false);
    kani::cover!(!o.ok && !o.nr && o.grown == 1 && o.n == 2, "torn record");
    kani::cover!(!o.ok && o.nr && o.grown == 2 && o.n == 2, "separator and torn record");
    kani::cover!(o.ok && o.faulted, "fault armed after the last write");
}

#[cfg(kani)]
#[kani::proof]
#[kani::unwind(6)]
pub fn c10_q_write_step_part() {
    let o = step::<K_PART, 2, false>(false);
    kani::cover!(o.ok && o.faulted && o.n == 2, "partial write completed by write_all");
}

#[cfg(kani)]
#[kani::proof]
#[kani::unwind(6)]
pub fn c10_t_write_step_intr() {
    let o = step::<K_INTR, 2, false>(false);
    kani::cover!(o.ok && o.faulted, "EINTR retried by write_all");
}

#[cfg(kani)]
#[kani::proof]
#[kani::unwind(6)]
pub fn c10_t_write_step_short3() {
    let o = step::<K_SHORT, 3, false>(false);
    kani::cover!(!o.ok && o.grown == 2 && o.n == 3 && !o.nr, "torn record, 2 of 3 bytes");
}

#[cfg(kani)]
#[kani::proof]
#[kani::unwind(6)]
pub fn c10_t_write_step_part3() {
    let o = step::<K_PART, 3, false>(false);
    kani::cover!(o.ok && o.faulted && o.n == 3, "partial write completed by write_all");
}

/// C11, size-limit clause: `file_size_bytes` after a successful `write_event` = before + bytes appended.
#[cfg(kani)]
#[kani::proof]
#[kani::unwind(6)]
pub fn c11_q_write_size() {
    let o = step::<K_PART, 2, true>(false);
    kani::cover!(o.ok && o.nr && o.n == 2, "sized a record with recovery separator");
    kani::cover!(o.ok && !o.nr && o.faulted, "sized a record written in two parts");
}

/// Mutant twin: claims no separator is written when recovery is needed - must FAIL.
#[cfg(kani)]
#[kani::proof]
#[kani::unwind(6)]
pub fn c10_w_write_step_no_sep() {
    let o = step::<K_ERR, 2, false>(true);
    kani::cover!(o.ok, "written");
}

/// (W3): two consecutive `write_event`s on the same `ActiveFile` with one fault anywhere.
#[cfg(kani)]
fn two<const KIND: u8, const EV: usize>(twin: bool) {
    reset();
    st().names[0] = P0;
    let (old, old_n) = sym_old(1);
    let nr: bool = kani::any();
    let (e1, n1) = sym_event::<EV>();
    let (e2, n2) = sym_event::<EV>();
    sym_fault(KIND, 2 * EV + 4);

    let mut f = VActiveFile::from_state(HFile { slot: 0 }, PathBuf::new(), String::new(), nr, old_n);
    let r1 = f.write_event(&e1[..n1], SEP);
    let ok1 = r1.is_ok();
    core::mem::forget(r1);
    let w1 = st().written[0];
    let c1 = content(0);
    let r2 = f.write_event(&e2[..n2], SEP);
    let ok2 = r2.is_ok();
    core::mem::forget(r2);

    // expected: old ++ [sep] ++ e1      ++ e2          when the first call succeeded
    //           (what the failed first call left) ++ sep ++ e2   otherwise
    let mut exp = Exp::new();
    if ok1 {
        exp.push(old, old_n);
        if nr {
            exp.push(SEPV, 1);
        }
        exp.push(pack(&e1), n1);
    } else {
        exp.push(c1, w1);
        if !twin {
            exp.push(SEPV, 1);
        }
    }
    exp.push(pack(&e2), n2);

    let s = st();
    assert!(!s.overflowed, "harness sizes");
    assert!(exp.has_prefix_content(0), "the second record starts on a record boundary");
    assert!(!ok2 || s.written[0] == exp.n, "reported as written only if the whole second record was appended");
    if ok1 && ok2 {
        // the acknowledgement sequence of on_batch: flush, then sync_all
        let r = f.flush();
        let mut acked = r.is_ok();
        core::mem::forget(r);
        if acked {
            let r = f.sync_all();
            acked = r.is_ok();
            core::mem::forget(r);
        }
        if acked {
            assert!(st().synced[0] == exp.n, "acknowledged content is synced content");
        }
        kani::cover!(acked, "both written and synced");
    }
    kani::cover!(!ok1 && ok2 && w1 > old_n, "torn first record, second complete");
    kani::cover!(ok1 && !ok2, "fault in second record");
    core::mem::forget(f);
}

#[cfg(kani)]
#[kani::proof]
#[kani::unwind(6)]
pub fn c10_q_write_two_short() {
    two::<K_SHORT, 2>(false)
}

#[cfg(kani)]
#[kani::proof]
#[kani::unwind(6)]
pub fn c10_t_write_two_err() {
    two::<K_ERR, 2>(false)
}

/// Mutant twin: claims the record after a torn one is appended directly - must FAIL.
#[cfg(kani)]
#[kani::proof]
#[kani::unwind(6)]
pub fn c10_w_write_two_run_together() {
    two::<K_SHORT, 2>(true)
}

/// (R1): reuse of an existing file with an arbitrary (possibly torn) tail. With `WRITE` the first
/// `write_event` is performed as well; that combined harness does not fit (CBMC out of memory at 10 GB after
/// 450 s) and is not registered: the first write after a reuse is the (W1) step harness started from the
/// state asserted here (`needs_recovery = true`, `size = len`), which (W1) covers (arbitrary flags/size).
#[cfg(kani)]
fn reuse<const KIND: u8, const WRITE: bool>(twin: bool) -> (bool, usize, u8, bool) {
    let (mut opened, mut wrote, mut torn) = (false, 0u8, false);
    reset();
    st().names[0] = P0;
    let (old, old_n) = sym_old(2);
    let (ev, n) = sym_event::<2>();
    // open_existing, len, then write_event's writes (separator + up to 3)
    sym_fault(KIND, if WRITE { 6 } else { 2 });
    let fs = FsAdapter(HFs);
    let r = VActiveFile::try_open_reuse(&fs, Path::new(P0));
    let s = st();
    match r {
        Ok(mut f) => {
            assert!(f.needs_recovery() != twin, "a reused file is in the needs-recovery state");
            assert!(f.size_bytes() == old_n, "size = current length");
            assert!(s.written[0] == old_n, "opening does not write");
            assert!(count_op(OP_OPEN_EXISTING) == 1 && count_op(OP_OPEN_NEW) == 0);
            if WRITE {
                let w = f.write_event(&ev[..n], SEP);
                let ok = w.is_ok();
                core::mem::forget(w);
                let mut exp = Exp::new();
                exp.push(old, old_n);
                exp.push(SEPV, 1);
                exp.push(pack(&ev), n);
                assert!(exp.has_prefix_content(0), "reused file: the first append is a separator");
                assert!(!ok || st().written[0] == exp.n);
                wrote = 1 + (ok as u8);
                torn = !ok && st().written[0] > old_n;
            }
            opened = true;
            core::mem::forget(f);
        }
        Err(e) => {
            core::mem::forget(e);
            assert!(s.written[0] == old_n, "a failed open leaves the file alone");
        }
    }
    assert!(!st().overflowed, "harness sizes");
    (opened, old_n, wrote, torn)
}

#[cfg(kani)]
#[kani::proof]
#[kani::unwind(12)]
#[kani::stub(core::slice::memchr::memchr, crate::hfs::stub_memchr)]
#[kani::stub(core::slice::memchr::memrchr, crate::hfs::stub_memrchr)]
pub fn c10_q_open_reuse() {
    let (opened, old_n, _, _) = reuse::<K_ERR, false>(false);
    kani::cover!(opened && old_n == 2, "reused a non-empty file");
    kani::cover!(!opened && st().faulted, "open for reuse failed");
}

/// Mutant twin: claims a reused file is clean - must FAIL.
#[cfg(kani)]
#[kani::proof]
#[kani::unwind(12)]
#[kani::stub(core::slice::memchr::memchr, crate::hfs::stub_memchr)]
#[kani::stub(core::slice::memchr::memrchr, crate::hfs::stub_memrchr)]
pub fn c10_w_open_reuse_clean() {
    let (opened, _, _, _) = reuse::<K_ERR, false>(true);
    kani::cover!(opened, "reused");
}

/// (N1): exclusive create + directory entry sync.
#[cfg(kani)]
#[kani::proof]
#[kani::unwind(12)]
#[kani::stub(core::slice::memchr::memchr, crate::hfs::stub_memchr)]
#[kani::stub(core::slice::memchr::memrchr, crate::hfs::stub_memrchr)]
pub fn c10_q_open_create() {
    reset();
    st().names[0] = P0;
    let pre_exists: bool = kani::any();
    if pre_exists {
        let _ = sym_old(2);
    }
    let pre_w = st().written[0];
    // open_new, sync_parent
    sym_fault(K_ERR, 2);
    let fs = FsAdapter(HFs);
    let r = VActiveFile::try_open_create(&fs, Path::new(P0));
    let s = st();
    match r {
        Ok(f) => {
            assert!(!pre_exists, "never yields an existing file");
            assert!(!f.needs_recovery() && f.size_bytes() == 0);
            assert!(s.exists[0] && s.written[0] == 0);
            assert!(s.entry_synced[0], "directory entry synced before the file is used");
            assert!(count_op(OP_OPEN_NEW) == 1 && count_op(OP_OPEN_EXISTING) == 0);
            kani::cover!(true, "created");
            core::mem::forget(f);
        }
        Err(e) => {
            core::mem::forget(e);
            if pre_exists {
                assert!(s.written[0] == pre_w, "an existing file is left alone");
            }
            kani::cover!(pre_exists && !s.faulted, "create refused: exists");
            kani::cover!(!pre_exists && s.exists[0], "created but directory sync failed");
        }
    }
}
