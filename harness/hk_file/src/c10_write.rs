//! C10 kernels: `ActiveFile::{write_event, try_open_reuse, try_open_create}` over the harness filesystem.
//!
//! Record discipline decided here (separator `"\n"`; the buffers handed to `write_event` are the batch
//! items, i.e. the formatted event *including* its trailing separator as `FileSetInner::emit` builds them):
//!
//!   (W1) one `write_event(e)` from any `ActiveFile` state appends, to whatever the file held, exactly a
//!        prefix of `[sep if needs_recovery] ++ e` - nothing else is ever written, nothing is overwritten;
//!   (W2) the call returns `Ok` iff that whole string was appended, and `needs_recovery` is `false`
//!        afterwards iff it returned `Ok`;
//!   (W3) hence (two steps) after a failed or short write the next event is preceded by a separator:
//!        `old ++ [sep] ++ prefix(e1) ++ sep ++ e2` - bytes of two events are never run together;
//!   (R1) a file opened for reuse is in the needs-recovery state with `size = len`, so by (W1) the first
//!        thing ever appended to it is a separator (torn tail protection);
//!   (N1) `try_open_create` only ever yields a file that did not exist (exclusive create), is empty,
//!        clean (`needs_recovery = false`, size 0) and whose directory entry has been synced.
//!
//! The step from these kernel facts to the property (whole-worker histories) needs the control-flow
//! obligations on `Worker::on_batch` that are decided separately (DESIGN.md §4 C10-K2).
use std::path::{Path, PathBuf};

use emit_file::verif::{FsAdapter, VActiveFile};

use crate::hfs::*;

pub const SEP: &[u8] = b"\n";

pub const P0: &str = "logs/app.2024-01-01-00.00000000.00000001.log";

/// Fill slot 0 with `n <= 4` symbolic bytes, `synced <= written` symbolic.
#[cfg(kani)]
fn sym_old(max: usize) -> ([u8; 4], usize) {
    let s = st();
    let old: [u8; 4] = kani::any();
    let n: usize = kani::any();
    kani::assume(n <= max && max <= 4);
    s.exists[0] = true;
    let mut i = 0;
    while i < 4 {
        if i < n {
            s.data[0][i] = old[i];
        }
        i += 1;
    }
    s.written[0] = n;
    let sy: usize = kani::any();
    kani::assume(sy <= n);
    s.synced[0] = sy;
    (old, n)
}

/// Expected byte string builder (fixed array, explicit length).
pub struct Exp {
    pub b: [u8; CAP],
    pub n: usize,
}

impl Exp {
    pub fn new() -> Self {
        Exp { b: [0; CAP], n: 0 }
    }
    pub fn push(&mut self, s: &[u8]) {
        let mut i = 0;
        while i < s.len() {
            if self.n < CAP {
                self.b[self.n] = s[i];
                self.n += 1;
            }
            i += 1;
        }
    }
}

/// data[0][..written] == exp[..written]
fn content_is_prefix_of(exp: &Exp) -> bool {
    let s = st();
    let w = s.written[0];
    if w > exp.n {
        return false;
    }
    let mut i = 0;
    while i < CAP {
        if i < w && s.data[0][i] != exp.b[i] {
            return false;
        }
        i += 1;
    }
    true
}

#[cfg(kani)]
fn sym_event() -> ([u8; 3], usize) {
    let ev: [u8; 3] = kani::any();
    let n: usize = kani::any();
    kani::assume(n <= 3);
    (ev, n)
}

#[cfg(kani)]
fn step(twin: bool) {
    reset();
    st().names[0] = P0;
    let (old, old_n) = sym_old(4);
    let nr: bool = kani::any();
    let size: usize = kani::any();
    // representation invariant: the recorded size is the size of a file that can exist
    kani::assume(size <= (1usize << 62));
    let (ev, n) = sym_event();
    // write_event makes at most: 1 write (separator) + up to 3 writes for the event (partial writes, EINTR)
    sym_fault(5);

    let mut f = VActiveFile::from_state(HFile { slot: 0 }, PathBuf::new(), String::new(), nr, size);
    let r = f.write_event(&ev[..n], SEP);

    let mut exp = Exp::new();
    exp.push(&old[..old_n]);
    if nr && !twin {
        exp.push(SEP);
    }
    exp.push(&ev[..n]);

    let s = st();
    assert!(!s.overflowed, "harness sizes");
    // (W1)
    assert!(s.written[0] >= old_n, "write_event never shrinks the file");
    assert!(content_is_prefix_of(&exp), "content = old ++ [sep iff recovery needed] ++ prefix(event)");
    // (W2)
    let whole = s.written[0] == exp.n;
    assert!(r.is_ok() == whole, "Ok iff the whole record was appended");
    assert!(f.needs_recovery() == r.is_err(), "needs_recovery cleared iff the whole record was written");
    if r.is_ok() {
        assert!(f.size_bytes() - size == s.written[0] - old_n, "size accounting on success");
    }

    kani::cover!(r.is_ok() && nr && n == 3, "clean write with recovery separator");
    kani::cover!(r.is_ok() && !nr && s.faulted, "partial write / EINTR absorbed by write_all");
    kani::cover!(r.is_err() && s.written[0] > old_n && !whole, "torn record");
    kani::cover!(r.is_err() && nr && s.written[0] == old_n, "separator write failed");
    kani::cover!(r.is_err() && nr && s.written[0] == old_n + 1, "separator written, event not");
    core::mem::forget(f);
}

#[cfg(kani)]
#[kani::proof]
#[kani::unwind(18)]
pub fn c10_q_write_event_step() {
    step(false)
}

/// Mutant twin: claims no separator is written when recovery is needed - must FAIL.
#[cfg(kani)]
#[kani::proof]
#[kani::unwind(18)]
pub fn c10_w_write_event_step_no_sep() {
    step(true)
}

/// (W3): two consecutive `write_event`s with one fault anywhere.
#[cfg(kani)]
#[kani::proof]
#[kani::unwind(18)]
pub fn c10_q_write_event_two() {
    reset();
    st().names[0] = P0;
    let (old, old_n) = sym_old(2);
    let nr: bool = kani::any();
    let (e1, n1) = sym_event();
    let (e2, n2) = sym_event();
    kani::assume(n1 >= 1 && n2 >= 1);
    sym_fault(8);

    let mut f = VActiveFile::from_state(HFile { slot: 0 }, PathBuf::new(), String::new(), nr, old_n);
    let r1 = f.write_event(&e1[..n1], SEP);
    let w1 = st().written[0];
    let r2 = f.write_event(&e2[..n2], SEP);

    // expected: old ++ [sep] ++ e1[..k1] ++ (sep if first failed) ++ e2
    let mut exp = Exp::new();
    exp.push(&old[..old_n]);
    if nr {
        exp.push(SEP);
    }
    if r1.is_ok() {
        exp.push(&e1[..n1]);
    } else {
        // what the failed first call left behind, then the recovery separator
        let s = st();
        let mut e = Exp::new();
        e.push(&s.data[0][..w1]);
        exp = e;
        exp.push(SEP);
    }
    exp.push(&e2[..n2]);

    let s = st();
    assert!(!s.overflowed, "harness sizes");
    assert!(content_is_prefix_of(&exp), "second record starts on a record boundary");
    assert!(r2.is_ok() == (s.written[0] == exp.n));
    if r1.is_err() && s.written[0] > w1 {
        assert!(s.data[0][w1] == SEP[0], "a separator follows the torn record");
    }
    if r1.is_ok() && r2.is_ok() {
        // the acknowledgement sequence of on_batch: flush, then sync_all
        let ok = f.flush().is_ok() && f.sync_all().is_ok();
        if ok {
            assert!(st().synced[0] == exp.n, "acknowledged content is synced content");
        }
        kani::cover!(ok, "both written and synced");
    }
    kani::cover!(r1.is_err() && r2.is_ok() && w1 > old_n, "torn first record, second complete");
    kani::cover!(r1.is_ok() && r2.is_err(), "fault in second record");
    core::mem::forget(f);
}

/// (R1): reuse of an existing file with an arbitrary (possibly torn) tail.
#[cfg(kani)]
fn reuse(twin: bool) {
    reset();
    st().names[0] = P0;
    let (old, old_n) = sym_old(4);
    let (ev, n) = sym_event();
    kani::assume(n >= 1);
    // open_existing, len, then write_event's writes
    sym_fault(6);
    let fs = FsAdapter(HFs);
    let r = VActiveFile::try_open_reuse(&fs, Path::new(P0));
    let s = st();
    match r {
        Ok(mut f) => {
            assert!(f.needs_recovery(), "a reused file is in the needs-recovery state");
            assert!(f.size_bytes() == old_n, "size = current length");
            assert!(s.written[0] == old_n, "opening does not write");
            assert!(count_op(OP_OPEN_EXISTING) == 1 && count_op(OP_OPEN_NEW) == 0);
            let w = f.write_event(&ev[..n], SEP);
            let mut exp = Exp::new();
            exp.push(&old[..old_n]);
            if !twin {
                exp.push(SEP);
            }
            exp.push(&ev[..n]);
            assert!(content_is_prefix_of(&exp), "reused file: first append is a separator");
            assert!(w.is_ok() == (st().written[0] == exp.n));
            kani::cover!(w.is_ok(), "reuse then complete write");
            kani::cover!(w.is_err() && st().written[0] > old_n, "reuse then torn write");
            core::mem::forget(f);
        }
        Err(_) => {
            assert!(s.written[0] == old_n, "failed open leaves the file alone");
            kani::cover!(s.faulted, "open for reuse failed");
        }
    }
    assert!(!st().overflowed, "harness sizes");
}

#[cfg(kani)]
#[kani::proof]
#[kani::unwind(48)]
pub fn c10_q_open_reuse() {
    reuse(false)
}

#[cfg(kani)]
#[kani::proof]
#[kani::unwind(48)]
pub fn c10_w_open_reuse_no_sep() {
    reuse(true)
}

/// (N1): exclusive create + directory entry sync.
#[cfg(kani)]
#[kani::proof]
#[kani::unwind(48)]
pub fn c10_q_open_create() {
    reset();
    st().names[0] = P0;
    let pre_exists: bool = kani::any();
    if pre_exists {
        let _ = sym_old(4);
    }
    let pre_w = st().written[0];
    // open_new, sync_parent
    sym_fault(2);
    let fs = FsAdapter(HFs);
    let r = VActiveFile::try_open_create(&fs, Path::new(P0));
    let s = st();
    match r {
        Ok(f) => {
            assert!(!pre_exists, "never yields an existing file");
            assert!(!f.needs_recovery() && f.size_bytes() == 0);
            assert!(s.exists[0] && s.written[0] == 0);
            assert!(s.entry_synced[0], "directory entry synced before the file is used");
            assert!(count_op(OP_OPEN_NEW) == 1 && count_op(OP_OPEN_EXISTING) == 0);
            kani::cover!(true, "created");
            core::mem::forget(f);
        }
        Err(_) => {
            if pre_exists {
                assert!(s.written[0] == pre_w, "an existing file is left alone");
            }
            kani::cover!(pre_exists && !s.faulted, "create refused: exists");
            kani::cover!(!pre_exists && s.exists[0], "created but directory sync failed");
        }
    }
}
