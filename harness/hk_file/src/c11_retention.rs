//! C11-K1: `ActiveFileSet::apply_retention`, called as `on_batch` calls it (its only call site, before a
//! new file is created): `apply_retention(fs, max_files.saturating_sub(1))`.
//!
//! Decided for a set of N in 0..=4 files (N concrete per harness, names as `read` leaves them: sorted
//! descending, i.e. newest first) and every `max_files` in 1..=4:
//!   * the call returns (no panic, loop terminates);
//!   * it leaves at most `max_files - 1` files, so that the set holds at most `max_files` after the create;
//!   * what it deletes are the oldest files (smallest names), oldest first, each through `remove_file`
//!     on `dir/name`, and the names it keeps are the newest ones, unchanged and in order.
//! The names are short (`a.1` .. `a.4`): `apply_retention` never looks inside a name.
use emit_file::verif::{FsAdapter, VFileSet, VMetrics};

use crate::hfs::*;

pub const DIR: &str = "d";
/// newest first
pub const PATHS: [&str; NF] = ["d/a.4", "d/a.3", "d/a.2", "d/a.1"];
pub const NAMES: [&str; NF] = ["a.4", "a.3", "a.2", "a.1"];

#[cfg(kani)]
fn retention<const N: usize>(twin: bool) -> (usize, usize) {
    reset();
    let s = st();
    s.names = PATHS;
    let mut names = Vec::with_capacity(N);
    let mut i = 0;
    while i < N {
        s.exists[i] = true;
        names.push(String::from(NAMES[i]));
        i += 1;
    }
    let max_files: usize = kani::any();
    kani::assume(max_files >= 1 && max_files <= 4);

    let metrics = VMetrics::new();
    let fs = FsAdapter(HFs);
    let mut set = VFileSet::from_state(&metrics, DIR, names);
    // as at the call site in `Worker::on_batch`
    set.apply_retention(&fs, max_files.saturating_sub(1));

    let left = set.names().len();
    assert!(left <= N);
    let bound = if twin { 0 } else { max_files - 1 };
    assert!(left <= bound, "at most max_files - 1 files are left before the new one is created");
    // kept: the `left` newest, unchanged, still on disk; deleted: the others, oldest first
    let s = st();
    let mut i = 0;
    while i < N {
        if i < left {
            assert!(set.names()[i].as_str() == NAMES[i], "kept names are the newest, in order");
            assert!(s.exists[i], "a kept file is not deleted");
        } else {
            assert!(!s.exists[i], "a dropped name was deleted from disk");
            // the k-th removal (k = 0 first) hit slot N-1-k: oldest first
            let k = N - 1 - i;
            assert!(k < s.n_log && s.log[k] == (OP_REMOVE, i), "oldest deleted first");
        }
        i += 1;
    }
    assert!(s.n_log == N - left, "nothing else was touched");
    assert!(!s.overflowed, "harness sizes");
    core::mem::forget(set);
    (max_files, left)
}

#[cfg(kani)]
#[kani::proof]
#[kani::unwind(8)]
pub fn c11_q_retention_n0() {
    let (m, left) = retention::<0>(false);
    kani::cover!(m == 1, "max_files = 1 on an empty set");
    kani::cover!(m == 4, "max_files = 4 on an empty set");
}

#[cfg(kani)]
#[kani::proof]
#[kani::unwind(8)]
pub fn c11_q_retention_n2() {
    let (m, left) = retention::<2>(false);
    kani::cover!(m == 1 && left == 0, "max_files = 1 deletes everything");
    kani::cover!(m == 2, "max_files = 2");
    kani::cover!(m == 4, "nothing to delete");
}

#[cfg(kani)]
#[kani::proof]
#[kani::unwind(8)]
pub fn c11_q_retention_n4() {
    let (m, left) = retention::<4>(false);
    kani::cover!(m == 1 && left == 0, "max_files = 1 deletes everything");
    kani::cover!(m == 4 && left <= 3, "full set makes room");
}

#[cfg(kani)]
#[kani::proof]
#[kani::unwind(8)]
pub fn c11_t_retention_n1() {
    let (m, left) = retention::<1>(false);
    kani::cover!(m == 1 && left == 0, "max_files = 1 deletes everything");
    kani::cover!(m == 3, "nothing to delete");
}

#[cfg(kani)]
#[kani::proof]
#[kani::unwind(8)]
pub fn c11_t_retention_n3() {
    let (m, left) = retention::<3>(false);
    kani::cover!(m == 2, "max_files = 2");
    kani::cover!(m == 4, "max_files = 4");
}

/// Mutant twin: claims retention always empties the set - must FAIL.
#[cfg(kani)]
#[kani::proof]
#[kani::unwind(8)]
pub fn c11_w_retention_empties() {
    let (m, left) = retention::<4>(true);
    kani::cover!(m == 4, "max_files = 4");
}
