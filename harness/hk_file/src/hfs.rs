//! Harness filesystem: a fixed table of files held in one static (the harnesses and their native
//! replays are single-threaded), each file a fixed byte array with a `written` and a `synced` length.
//! Every filesystem / file call consults the fault plan: the call whose index equals `fault_at`
//! misbehaves according to `fault_kind`; all other calls succeed.
//!
//! fault kinds
//!   K_ERR    the call fails (nothing is written)
//!   K_SHORT  a `write` accepts only `fault_j` bytes, and the *next* `write` on any file fails
//!            (short write then error); on a non-write call: the call fails
//!   K_PART   a `write` accepts only `fault_j` bytes, later calls succeed (`write_all` must continue);
//!            on a non-write call: the call fails
//!   K_INTR   a `write` fails with `ErrorKind::Interrupted` (`write_all` must retry); on a non-write
//!            call: the call fails
//! Errors are built from concrete `io::ErrorKind`s (no heap, trivial drop glue).
use std::io;
use std::path::{Path, PathBuf};

use emit_file::verif::{VFile, VFilesystem};

pub const NF: usize = 4;
pub const CAP: usize = 16;
pub const NLIST: usize = 3;
pub const NBUF: usize = 16;

pub const K_ERR: u8 = 0;
pub const K_SHORT: u8 = 1;
pub const K_PART: u8 = 2;
pub const K_INTR: u8 = 3;

pub const NO_FAULT: usize = usize::MAX;

// operation codes of the log
pub const OP_CREATE_DIR: u8 = 1;
pub const OP_SYNC_PARENT: u8 = 2;
pub const OP_READ_DIR: u8 = 3;
pub const OP_REMOVE: u8 = 4;
pub const OP_OPEN_NEW: u8 = 5;
pub const OP_OPEN_EXISTING: u8 = 6;

pub const NLOG: usize = 8;

pub struct FsState {
    /// full paths (as the code under test passes them) of the file slots
    pub names: [&'static str; NF],
    pub exists: [bool; NF],
    pub data: [[u8; CAP]; NF],
    pub written: [usize; NF],
    pub synced: [usize; NF],
    /// directory entry of the slot made durable (`sync_parent` after `open_new`)
    pub entry_synced: [bool; NF],
    /// what `read_dir_files` lists (full paths); independent of `names` so that listings can
    /// contain foreign files
    pub listing: [Option<&'static str>; NLIST],
    /// one more listed path with symbolic content: `buf[..buf_len]` (listed first; `buf_len == 0`: none)
    pub buf: [u8; NBUF],
    pub buf_len: usize,
    // fault plan
    pub calls: usize,
    pub fault_at: usize,
    pub fault_kind: u8,
    pub fault_j: usize,
    pub pending_err: bool,
    pub faulted: bool,
    // log of filesystem-level operations: (op, slot or NF when the path is not in the table)
    pub log: [(u8, usize); NLOG],
    pub n_log: usize,
    /// a write did not fit into CAP bytes or the log overflowed: the harness chose its sizes wrongly
    pub overflowed: bool,
}

pub static mut FS: FsState = FsState::new();

impl FsState {
    pub const fn new() -> Self {
        FsState {
            names: [""; NF],
            exists: [false; NF],
            data: [[0; CAP]; NF],
            written: [0; NF],
            synced: [0; NF],
            entry_synced: [false; NF],
            listing: [None; NLIST],
            buf: [0; NBUF],
            buf_len: 0,
            calls: 0,
            fault_at: NO_FAULT,
            fault_kind: K_ERR,
            fault_j: 0,
            pending_err: false,
            faulted: false,
            log: [(0, 0); NLOG],
            n_log: 0,
            overflowed: false,
        }
    }
}

/// The harness filesystem state (single-threaded use only).
pub fn st() -> &'static mut FsState {
    unsafe { &mut *core::ptr::addr_of_mut!(FS) }
}

pub fn reset() {
    *st() = FsState::new();
}

fn err() -> io::Error {
    io::Error::from(io::ErrorKind::Other)
}

/// Consult the fault plan for the next call.
fn tick() -> Option<u8> {
    let s = st();
    let i = s.calls;
    if s.calls < usize::MAX {
        s.calls += 1;
    }
    if i == s.fault_at {
        s.faulted = true;
        Some(s.fault_kind)
    } else {
        None
    }
}

fn log(op: u8, slot: usize) {
    let s = st();
    if s.n_log < NLOG {
        s.log[s.n_log] = (op, slot);
        s.n_log += 1;
    } else {
        s.overflowed = true;
    }
}

pub fn slot_of(path: &Path) -> usize {
    let p = path.as_os_str().as_encoded_bytes();
    let s = st();
    let mut i = 0;
    while i < NF {
        if s.names[i].as_bytes() == p {
            return i;
        }
        i += 1;
    }
    NF
}

/// Number of logged operations with code `op`.
pub fn count_op(op: u8) -> usize {
    let s = st();
    let mut n = 0;
    let mut i = 0;
    while i < s.n_log {
        if s.log[i].0 == op {
            n += 1;
        }
        i += 1;
    }
    n
}

#[derive(Clone, Copy)]
pub struct HFs;

pub struct HFile {
    pub slot: usize,
}

/// Append `buf[..n]` to the slot; loop-free for the sizes the harnesses use (`n <= 3`).
fn append(slot: usize, buf: &[u8], n: usize) {
    if n > 3 || n > buf.len() {
        st().overflowed = true;
        return;
    }
    if n > 0 {
        put(slot, buf[0]);
    }
    if n > 1 {
        put(slot, buf[1]);
    }
    if n > 2 {
        put(slot, buf[2]);
    }
}

fn put(slot: usize, b: u8) {
    let s = st();
    let w = s.written[slot];
    if w < CAP {
        s.data[slot][w] = b;
        s.written[slot] = w + 1;
    } else {
        s.overflowed = true;
    }
}

/// The 16 content bytes of a slot packed little-endian (byte `i` of the file = bits `8i..8i+8`).
pub fn content(slot: usize) -> u128 {
    u128::from_le_bytes(st().data[slot])
}

/// The low `n` bytes of `x`.
pub fn low_bytes(x: u128, n: usize) -> u128 {
    if n >= 16 {
        x
    } else {
        x & ((1u128 << (8 * (n as u32))) - 1)
    }
}

/// Expected file content, packed like `content`.
#[derive(Clone, Copy)]
pub struct Exp {
    pub v: u128,
    pub n: usize,
}

impl Exp {
    pub fn new() -> Self {
        Exp { v: 0, n: 0 }
    }
    /// append the low `n` bytes of `bytes`
    pub fn push(&mut self, bytes: u128, n: usize) {
        if self.n + n <= 16 && self.n < 16 {
            self.v |= low_bytes(bytes, n) << (8 * (self.n as u32));
            self.n += n;
        } else if n > 0 {
            self.n = usize::MAX / 2;
        }
    }
    /// `content(slot)[..written] == self[..written]` and `written <= self.n`
    pub fn has_prefix_content(&self, slot: usize) -> bool {
        let w = st().written[slot];
        w <= self.n && w <= CAP && low_bytes(content(slot), w) == low_bytes(self.v, w)
    }
}

/// Pack up to 3 bytes.
pub fn pack<const N: usize>(b: &[u8; N]) -> u128 {
    let mut v = 0u128;
    if N > 0 {
        v |= b[0] as u128;
    }
    if N > 1 {
        v |= (b[1] as u128) << 8;
    }
    if N > 2 {
        v |= (b[2] as u128) << 16;
    }
    v
}

impl VFile for HFile {
    fn write(&mut self, buf: &[u8]) -> io::Result<usize> {
        let s = st();
        if s.pending_err {
            s.pending_err = false;
            if s.calls < usize::MAX {
                s.calls += 1;
            }
            return Err(err());
        }
        match tick() {
            None => {
                append(self.slot, buf, buf.len());
                Ok(buf.len())
            }
            Some(K_SHORT) => {
                let n = if s.fault_j < buf.len() { s.fault_j } else { buf.len() };
                append(self.slot, buf, n);
                s.pending_err = true;
                if n == 0 {
                    s.pending_err = false;
                    return Err(err());
                }
                Ok(n)
            }
            Some(K_PART) => {
                let n = if s.fault_j < buf.len() { s.fault_j } else { buf.len() };
                if n == 0 {
                    return Err(err());
                }
                append(self.slot, buf, n);
                Ok(n)
            }
            Some(K_INTR) => Err(io::Error::from(io::ErrorKind::Interrupted)),
            Some(_) => Err(err()),
        }
    }

    fn flush(&mut self) -> io::Result<()> {
        match tick() {
            None => Ok(()),
            Some(_) => Err(err()),
        }
    }

    fn len(&self) -> io::Result<usize> {
        match tick() {
            None => Ok(st().written[self.slot]),
            Some(_) => Err(err()),
        }
    }

    fn sync_all(&mut self) -> io::Result<()> {
        match tick() {
            None => {
                let s = st();
                s.synced[self.slot] = s.written[self.slot];
                Ok(())
            }
            Some(_) => Err(err()),
        }
    }
}

impl VFilesystem for HFs {
    type File = HFile;

    fn create_dir_all(&self, _path: &Path) -> io::Result<()> {
        log(OP_CREATE_DIR, NF);
        match tick() {
            None => Ok(()),
            Some(_) => Err(err()),
        }
    }

    fn sync_parent(&self, path: &Path) -> io::Result<()> {
        let slot = slot_of(path);
        log(OP_SYNC_PARENT, slot);
        match tick() {
            None => {
                if slot < NF {
                    st().entry_synced[slot] = true;
                }
                Ok(())
            }
            Some(_) => Err(err()),
        }
    }

    fn read_dir_files(&self, _path: &Path) -> io::Result<Box<dyn Iterator<Item = PathBuf>>> {
        log(OP_READ_DIR, NF);
        match tick() {
            None => {
                Ok(Box::new(ListIter { i: 0 }))
            }
            Some(_) => Err(err()),
        }
    }

    fn remove_file(&self, path: &Path) -> io::Result<()> {
        let slot = slot_of(path);
        log(OP_REMOVE, slot);
        match tick() {
            None => {
                if slot < NF && st().exists[slot] {
                    st().exists[slot] = false;
                    Ok(())
                } else {
                    Err(io::Error::from(io::ErrorKind::NotFound))
                }
            }
            Some(_) => Err(err()),
        }
    }

    /// `create_new(true)`: fails if the file exists.
    fn open_new(&self, path: &Path) -> io::Result<HFile> {
        let slot = slot_of(path);
        log(OP_OPEN_NEW, slot);
        match tick() {
            None => {
                if slot >= NF {
                    return Err(io::Error::from(io::ErrorKind::NotFound));
                }
                let s = st();
                if s.exists[slot] {
                    return Err(io::Error::from(io::ErrorKind::AlreadyExists));
                }
                s.exists[slot] = true;
                s.written[slot] = 0;
                s.synced[slot] = 0;
                s.entry_synced[slot] = false;
                Ok(HFile { slot })
            }
            Some(_) => Err(err()),
        }
    }

    /// append-only open of an existing file.
    fn open_existing(&self, path: &Path) -> io::Result<HFile> {
        let slot = slot_of(path);
        log(OP_OPEN_EXISTING, slot);
        match tick() {
            None => {
                if slot < NF && st().exists[slot] {
                    Ok(HFile { slot })
                } else {
                    Err(io::Error::from(io::ErrorKind::NotFound))
                }
            }
            Some(_) => Err(err()),
        }
    }
}

/// Iterator over `buf` (if any) and then the present entries of `listing`. Which entries are present is
/// concrete in every harness, so the position stays concrete and `read`'s loop has a concrete trip count.
pub struct ListIter {
    i: usize,
}

impl Iterator for ListIter {
    type Item = PathBuf;
    fn next(&mut self) -> Option<PathBuf> {
        let s = st();
        if self.i == 0 {
            self.i = 1;
            if s.buf_len > 0 {
                let b: &'static [u8] = &st().buf[..s.buf_len];
                return Some(PathBuf::from(unsafe { core::str::from_utf8_unchecked(b) }));
            }
        }
        while self.i <= NLIST {
            let k = self.i - 1;
            self.i += 1;
            if let Some(p) = s.listing[k] {
                return Some(PathBuf::from(p));
            }
        }
        None
    }
}

/// Install a single-fault plan of the given kind: symbolic fault index < `n_calls`, or no fault at all.
#[cfg(kani)]
pub fn sym_fault(kind: u8, n_calls: usize) {
    let s = st();
    let at: usize = kani::any();
    kani::assume(at <= n_calls);
    s.fault_at = if at == n_calls { NO_FAULT } else { at };
    s.fault_kind = kind;
    let j: usize = kani::any();
    kani::assume(j >= 1 && j <= 2);
    s.fault_j = j;
}

// -------------------------------------------------------------------------------------------------
// Stand-ins for two std path functions (Kani stubs, used where named in the harness attributes).
// `Path::file_name` goes through `Components` (prefix parsing, `.`/`..` handling, backwards scanning) and
// `OsStr::to_str` through `run_utf8_validation`; over heap-allocated `PathBuf`s neither leaves symbolic
// execution within the budget (measured: > 15 min for one 13-byte listing entry).

/// `Path::file_name` for the paths the harness filesystem lists: `d/<name>` with a non-empty `name` that
/// contains no `/` and does not start with `.` (all asserted): the bytes after `d/`.
pub fn stub_file_name(p: &Path) -> Option<&std::ffi::OsStr> {
    let b = p.as_os_str().as_encoded_bytes();
    assert!(b.len() > 2 && b[0] == b'd' && b[1] == b'/', "harness paths are d/<name>");
    let mut i = 2;
    while i < b.len() {
        assert!(b[i] != b'/', "harness file names contain no separator");
        i += 1;
    }
    assert!(b[2] != b'.', "harness file names do not start with a dot");
    Some(unsafe { std::ffi::OsStr::from_encoded_bytes_unchecked(&b[2..]) })
}

/// `OsStr::to_str` for ASCII names (asserted), skipping the UTF-8 validation loop.
pub fn stub_to_str(s: &std::ffi::OsStr) -> Option<&str> {
    let b = s.as_encoded_bytes();
    let mut i = 0;
    while i < b.len() {
        assert!(b[i] < 0x80, "harness file names are ASCII");
        i += 1;
    }
    Some(unsafe { core::str::from_utf8_unchecked(b) })
}

/// `core::slice::memchr::{memchr, memrchr}` (what `str::split(char)` / `rsplit(char)` search with): std's
/// versions read a `usize` word at a time after aligning the pointer, which CBMC has to treat as symbolic
/// pointer arithmetic (measured: 41 M clauses / out of memory for one 12-byte name). Contract: index of the
/// first / last occurrence of the byte.
pub fn stub_memchr(x: u8, text: &[u8]) -> Option<usize> {
    let mut i = 0;
    while i < text.len() {
        if text[i] == x {
            return Some(i);
        }
        i += 1;
    }
    None
}

pub fn stub_memrchr(x: u8, text: &[u8]) -> Option<usize> {
    let mut i = text.len();
    while i > 0 {
        i -= 1;
        if text[i] == x {
            return Some(i);
        }
    }
    None
}
