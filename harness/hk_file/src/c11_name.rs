//! C11-K4: naming kernels. A file is named `prefix.period.counter.id.ext`; newest-first relies on the byte
//! order of names being the order of (period, counter, id), which holds iff each part has a fixed width
//! and is zero padded.
//!
//!   (I4) `rolling_millis(roll_by, ts, parts)` < 86_400_000 (eight digits) for every instant;
//!   (I5) the period read back from a name the set generated (`read_file_name_ts`, used to decide whether
//!        a (re)opened file still belongs to the current period) is the period it was generated with,
//!        also for a prefix that contains a dot (template `a.b.log`).
//!
//! NOT decided here (did not fit, see vlib/reg/prop_C11.py "outside"): the formatted width/order lemmas for
//! `file_id` / `file_ts` / `file_name` (`format!` with padding under CBMC: out of memory at 10 GB after
//! 12 min for two `file_id` calls with symbolic u32s), and the creation-order clause built on them.
use emit::Timestamp;
use emit::timestamp::Parts;
use emit_file::verif::*;

/// (I4) `rolling_millis` < 86_400_000 for every calendar-valid reading. `parts` is what `on_batch` passes:
/// the parts of `ts` (here `ts` is built from the symbolic parts; that `to_parts`/`from_parts` are inverse
/// is C15's obligation).
#[cfg(kani)]
fn rolling_millis_bound(y_lo: u16, y_hi: u16, twin: bool) {
    let parts = Parts {
        years: kani::any(),
        months: kani::any(),
        days: kani::any(),
        hours: kani::any(),
        minutes: kani::any(),
        seconds: kani::any(),
        nanos: kani::any(),
    };
    kani::assume(parts.years >= y_lo && parts.years <= y_hi);
    kani::assume(parts.months >= 1 && parts.months <= 12 && parts.days >= 1 && parts.days <= 31);
    kani::assume(parts.hours < 24 && parts.minutes < 60 && parts.seconds < 60 && parts.nanos < 1_000_000_000);
    let r: u8 = kani::any();
    kani::assume(r < 3);
    let roll = match r {
        0 => VRollBy::Day,
        1 => VRollBy::Hour,
        _ => VRollBy::Minute,
    };
    let ts = Timestamp::from_parts(parts);
    kani::assume(ts.is_some());
    let m = v_rolling_millis(roll, ts.unwrap(), parts);
    let bound = if twin { 3_600_000 } else { 86_400_000 };
    assert!(m < bound, "the counter has at most eight digits");
    kani::cover!(r == 0 && m == 86_399_999, "last millisecond of a day");
    kani::cover!(r == 2 && m == 59_999, "last millisecond of a minute");
}

#[cfg(kani)]
#[kani::proof]
#[kani::unwind(4)]
pub fn c11_q_name_rolling_millis() {
    rolling_millis_bound(1970, 2038, false)
}

#[cfg(kani)]
#[kani::proof]
#[kani::unwind(4)]
pub fn c11_t_name_rolling_millis_all_years() {
    rolling_millis_bound(1970, 9999, false)
}

/// Mutant twin: claims the counter stays below one hour when rolling by day - must FAIL.
#[cfg(kani)]
#[kani::proof]
#[kani::unwind(4)]
pub fn c11_w_name_rolling_millis_hour() {
    rolling_millis_bound(1970, 2038, true)
}

/// (I5) the period read back from a name of the form `prefix.period.counter.id.ext` is the period, for a
/// plain prefix (`abc`) and for a prefix that contains a dot (`a.b`, template `a.b.lg`). The names are
/// concrete (a symbolic choice between two names already costs 41 M clauses in `CharSearcher`); what the
/// model checker adds over a unit test here is only that the real code is executed with all checks on.
#[cfg(kani)]
fn period_read_back(name: &'static str, want: u8) {
    let r = v_read_file_name_ts(name);
    assert!(r.is_ok());
    if let Ok(ts) = r {
        assert!(ts.len() == 1 && ts.as_bytes()[0] == want, "the period read back is the period in the name");
    } else {
        core::mem::forget(r);
    }
    kani::cover!(true, "read back");
}

#[cfg(kani)]
#[kani::proof]
#[kani::unwind(14)]
#[kani::stub(core::slice::memchr::memchr, crate::hfs::stub_memchr)]
#[kani::stub(core::slice::memchr::memrchr, crate::hfs::stub_memrchr)]
pub fn c11_q_name_period_read_back_plain() {
    period_read_back("abc.7.c.i.lg", b'7')
}

#[cfg(kani)]
#[kani::proof]
#[kani::unwind(14)]
#[kani::stub(core::slice::memchr::memchr, crate::hfs::stub_memchr)]
#[kani::stub(core::slice::memchr::memrchr, crate::hfs::stub_memrchr)]
pub fn c11_q_name_period_read_back_dotted() {
    period_read_back("a.b.7.c.i.lg", b'7')
}

/// Mutant twin: claims the counter part is read back - must FAIL.
#[cfg(kani)]
#[kani::proof]
#[kani::unwind(14)]
#[kani::stub(core::slice::memchr::memchr, crate::hfs::stub_memchr)]
#[kani::stub(core::slice::memchr::memrchr, crate::hfs::stub_memrchr)]
pub fn c11_w_name_period_read_back_counter() {
    period_read_back("abc.7.c.i.lg", b'c')
}
