#![allow(dead_code, unused_imports, unused_variables, unused_mut)]
//! Kani harnesses over the kernels of `emit_file` (rolling-file emitter), C10 / C11.
//! Naming: `cNN_q_*` quick+thorough, `cNN_t_*` thorough only, `cNN_w_*` mutant twin (must FAIL).

pub mod hfs;
pub mod c10_write;
pub mod c10_batch;
pub mod c11_retention;
pub mod c11_member;
pub mod c11_name;
