//! Shared helpers for harnesses.
use core::fmt;

/// Fixed-size text sink (no allocation).
pub struct Buf<const N: usize> {
    pub b: [u8; N],
    pub n: usize,
    pub overflow: bool,
}

impl<const N: usize> Buf<N> {
    pub fn new() -> Self {
        Buf { b: [0; N], n: 0, overflow: false }
    }
    pub fn bytes(&self) -> &[u8] {
        &self.b[..self.n]
    }
    pub fn as_str(&self) -> &str {
        unsafe { core::str::from_utf8_unchecked(&self.b[..self.n]) }
    }
}

impl<const N: usize> fmt::Write for Buf<N> {
    fn write_str(&mut self, s: &str) -> fmt::Result {
        let s = s.as_bytes();
        let mut i = 0;
        while i < s.len() {
            if self.n >= N {
                self.overflow = true;
                return Err(fmt::Error);
            }
            self.b[self.n] = s[i];
            self.n += 1;
            i += 1;
        }
        Ok(())
    }
}

/// A symbolic byte drawn from a concrete alphabet.
#[cfg(kani)]
pub fn sym_from(alpha: &[u8]) -> u8 {
    let k: usize = kani::any();
    kani::assume(k < alpha.len());
    alpha[k]
}

/// A symbolic array drawn from a concrete alphabet.
#[cfg(kani)]
pub fn sym_arr<const N: usize>(alpha: &[u8]) -> [u8; N] {
    let mut b = [0u8; N];
    let mut i = 0;
    while i < N {
        b[i] = sym_from(alpha);
        i += 1;
    }
    b
}

pub fn is_digit(b: u8) -> bool {
    b >= b'0' && b <= b'9'
}

/// Stand-in for `core::str::from_utf8` in harnesses whose text is produced by a formatter
/// that only writes ASCII: symbolic execution of `run_utf8_validation` over symbolic bytes
/// does not finish (DESIGN.md §3). The stub *asserts* the bytes are ASCII (so a formatter
/// that writes anything else is reported) and then skips the validation loop.
pub fn ascii_from_utf8(v: &[u8]) -> Result<&str, core::str::Utf8Error> {
    let mut i = 0;
    while i < v.len() {
        assert!(v[i] < 0x80, "formatter output must be ASCII");
        i += 1;
    }
    Ok(unsafe { core::str::from_utf8_unchecked(v) })
}
