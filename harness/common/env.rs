//! Environment stand-ins: an array-backed ambient context (the harness instantiation of emit's
//! public `Ctxt` trait: a frame is a fixed array of pairs; enter/exit swap it with the current
//! slot, exactly the protocol the trait documents), recording emitter/filter/completion, scripted
//! clock and counter rng.
use core::cell::{Cell, RefCell};
use core::ops::ControlFlow;
use core::time::Duration;
use emit::span::{SpanId, TraceId};
use emit_core::clock::Clock;
use emit_core::ctxt::Ctxt;
use emit_core::emitter::Emitter;
use emit_core::event::ToEvent;
use emit_core::filter::Filter;
use emit_core::props::Props;
use emit_core::rng::Rng;
use emit_core::str::{Str, ToStr};
use emit_core::timestamp::Timestamp;
use emit_core::value::{ToValue, Value};

pub const KEYS: [&str; 6] = ["a", "b", "trace_id", "span_id", "span_parent", "lvl"];
pub const K_A: usize = 0;
pub const K_B: usize = 1;
pub const K_TRACE: usize = 2;
pub const K_SPAN: usize = 3;
pub const K_PARENT: usize = 4;
pub const K_LVL: usize = 5;

pub fn key_idx(k: &str) -> usize {
    let mut i = 0;
    while i < KEYS.len() {
        if KEYS[i] == k { return i; }
        i += 1;
    }
    99
}

#[derive(Clone, Copy, PartialEq, Eq)]
pub enum Val {
    None,
    I(i32),
    Trace(u128),
    Span(u64),
    Other,
}

/// One frame's worth of ambient properties: at most one value per pool key. Plain fields (no arrays,
/// no loops): CBMC's field-sensitive SSA handles this far better than an indexed array of enums.
#[derive(Clone, Copy)]
pub struct ArrProps {
    pub a: Option<i32>,
    pub b: Option<i32>,
    pub trace: Option<TraceId>,
    pub span: Option<SpanId>,
    pub parent: Option<SpanId>,
}

impl ArrProps {
    pub const EMPTY: ArrProps = ArrProps { a: None, b: None, trace: None, span: None, parent: None };

    pub fn view(&self) -> [Val; 6] {
        [
            match self.a { Some(x) => Val::I(x), None => Val::None },
            match self.b { Some(x) => Val::I(x), None => Val::None },
            match self.trace { Some(t) => Val::Trace(t.to_u128()), None => Val::None },
            match self.span { Some(s) => Val::Span(s.to_u64()), None => Val::None },
            match self.parent { Some(s) => Val::Span(s.to_u64()), None => Val::None },
            Val::None,
        ]
    }

    /// Collect any `Props` (first value for a key wins). The value's type is chosen by the KEY (ids under
    /// the id keys, i32 under a/b): typed downcasts only - no speculative casts, which would send CBMC
    /// through value-bag's text-parsing fallbacks (ids that arrive as TEXT are therefore not held by this context).
    pub fn collect<P: Props>(props: P) -> ArrProps {
        let mut out = ArrProps::EMPTY;
        let _ = props.for_each(|k, v| {
            match k.get() {
                "a" => if out.a.is_none() { out.a = v.cast::<i32>(); },
                "b" => if out.b.is_none() { out.b = v.cast::<i32>(); },
                "trace_id" => if out.trace.is_none() { out.trace = v.downcast_ref::<TraceId>().copied(); },
                "span_id" => if out.span.is_none() { out.span = v.downcast_ref::<SpanId>().copied(); },
                "span_parent" => if out.parent.is_none() { out.parent = v.downcast_ref::<SpanId>().copied(); },
                _ => {}
            }
            ControlFlow::Continue(())
        });
        out
    }
}

impl Props for ArrProps {
    fn for_each<'kv, F: FnMut(Str<'kv>, Value<'kv>) -> ControlFlow<()>>(&'kv self, mut for_each: F) -> ControlFlow<()> {
        if let Some(ref x) = self.a { for_each(Str::new("a"), x.to_value())?; }
        if let Some(ref x) = self.b { for_each(Str::new("b"), x.to_value())?; }
        if let Some(ref t) = self.trace { for_each(Str::new("trace_id"), t.to_value())?; }
        if let Some(ref s) = self.span { for_each(Str::new("span_id"), s.to_value())?; }
        if let Some(ref s) = self.parent { for_each(Str::new("span_parent"), s.to_value())?; }
        ControlFlow::Continue(())
    }
    fn is_unique(&self) -> bool { true }
}

/// The ambient "current" slot of one context instance on one thread.
pub struct ArrCtxt {
    pub cur: RefCell<ArrProps>,
    pub enters: Cell<u32>,
    pub exits: Cell<u32>,
}

impl ArrCtxt {
    pub fn new() -> Self { ArrCtxt { cur: RefCell::new(ArrProps::EMPTY), enters: Cell::new(0), exits: Cell::new(0) } }
    pub fn view(&self) -> [Val; 6] { self.cur.borrow().view() }
}

impl Ctxt for ArrCtxt {
    type Current = ArrProps;
    type Frame = ArrProps;
    fn open_root<P: Props>(&self, props: P) -> ArrProps { ArrProps::collect(props) }
    // open_push / open_disabled: the trait's DEFAULT methods (code under test)
    fn enter(&self, frame: &mut ArrProps) {
        self.enters.set(self.enters.get() + 1);
        let mut cur = self.cur.borrow_mut();
        let tmp = *cur;
        *cur = *frame;
        *frame = tmp;
    }
    fn with_current<R, F: FnOnce(&ArrProps) -> R>(&self, with: F) -> R {
        let cur = *self.cur.borrow();
        with(&cur)
    }
    fn exit(&self, frame: &mut ArrProps) {
        self.exits.set(self.exits.get() + 1);
        let mut cur = self.cur.borrow_mut();
        let tmp = *cur;
        *cur = *frame;
        *frame = tmp;
    }
    fn close(&self, _: ArrProps) {}
}

pub fn same_view(a: &[Val; 6], b: &[Val; 6]) -> bool {
    let mut i = 0;
    while i < 6 {
        if a[i] != b[i] { return false; }
        i += 1;
    }
    true
}

/// What a component saw of an event.
#[derive(Clone, Copy)]
pub struct SeenEvt {
    pub has_extent: bool,
    pub is_range: bool,
    pub start: u64,
    pub end: u64,
    pub vals: [Val; 6],
    pub dup: bool,
    pub mdl0: u8,
    pub tpl_lit0: u8,
}

impl SeenEvt {
    pub const NONE: SeenEvt = SeenEvt { has_extent: false, is_range: false, start: 0, end: 0, vals: [Val::None; 6], dup: false, mdl0: 0, tpl_lit0: 0 };
    pub fn of<E: ToEvent>(evt: E) -> SeenEvt {
        let evt = evt.to_event();
        let mut s = SeenEvt::NONE;
        if let Some(x) = evt.extent() {
            s.has_extent = true;
            if let Some(r) = x.as_range() { s.is_range = true; s.start = r.start.to_unix().as_secs(); s.end = r.end.to_unix().as_secs(); }
            else { s.end = x.as_point().to_unix().as_secs(); }
        }
        let p = ArrProps::collect(evt.props());
        s.vals = p.view();
        s
    }
}

pub struct RecEmitter { pub calls: Cell<u32>, pub seen: Cell<SeenEvt> }
impl RecEmitter { pub fn new() -> Self { RecEmitter { calls: Cell::new(0), seen: Cell::new(SeenEvt::NONE) } } }
impl Emitter for RecEmitter {
    fn emit<E: ToEvent>(&self, evt: E) { self.calls.set(self.calls.get() + 1); self.seen.set(SeenEvt::of(evt)); }
    fn blocking_flush(&self, _: Duration) -> bool { true }
}

pub struct RecFilter { pub verdict: bool, pub calls: Cell<u32>, pub seen: Cell<SeenEvt> }
impl RecFilter { pub fn new(v: bool) -> Self { RecFilter { verdict: v, calls: Cell::new(0), seen: Cell::new(SeenEvt::NONE) } } }
impl Filter for RecFilter {
    fn matches<E: ToEvent>(&self, evt: E) -> bool { self.calls.set(self.calls.get() + 1); self.seen.set(SeenEvt::of(evt)); self.verdict }
}

/// Scripted clock: the i-th reading is `readings[i]` (any Option, so backwards steps and
/// unavailability are included); counts calls.
pub struct SeqClock { pub readings: [Option<Timestamp>; 4], pub calls: Cell<usize> }
impl Clock for SeqClock {
    fn now(&self) -> Option<Timestamp> {
        let i = self.calls.get();
        self.calls.set(i + 1);
        if i < 4 { self.readings[i] } else { None }
    }
}

/// Counter rng: non-zero, non-repeating (the documented precondition for distinct ids).
pub struct CountRng { pub next: Cell<u64> }
impl CountRng { pub fn new(start: u64) -> Self { CountRng { next: Cell::new(start) } } }
impl Rng for CountRng {
    fn fill<A: AsMut<[u8]>>(&self, _arr: A) -> Option<A> { None }
    fn gen_u64(&self) -> Option<u64> { let v = self.next.get(); self.next.set(v + 1); Some(v) }
    fn gen_u128(&self) -> Option<u128> { let v = self.next.get(); self.next.set(v + 1); Some(v as u128) }
}

#[cfg(kani)]
pub fn sym_ts() -> Timestamp {
    let s: u64 = kani::any();
    kani::assume(s <= 253402300799);
    Timestamp::from_unix(Duration::new(s, 0)).unwrap()
}

#[cfg(kani)]
pub fn sym_opt_ts() -> Option<Timestamp> {
    if kani::any() { Some(sym_ts()) } else { None }
}

// ---- cuts for value-bag's text fallbacks -------------------------------------------------------
// `FromValue` for ids / kinds / levels first tries a typed downcast and only then falls back to
// FORMATTING the value and parsing the text. CBMC cannot prune the fallback during symbolic
// execution (the downcast is decided only in the solver), and the fallback drags in core::fmt
// (integer/float formatting, padding), which does not finish. In harnesses where every value under an
// id / kind key is typed, the fallback is dead code; the stubs below replace it by an assertion that it
// is NOT reached - so a change that breaks the typed fast path is still reported.

pub fn trace_hex_unreachable<D: core::fmt::Display>(_hex: D) -> Result<TraceId, emit::span::ParseIdError> {
    panic!("text fallback of TraceId::from_value reached although the value is typed")
}

pub fn span_hex_unreachable<D: core::fmt::Display>(_hex: D) -> Result<SpanId, emit::span::ParseIdError> {
    panic!("text fallback of SpanId::from_value reached although the value is typed")
}

pub fn parse_unreachable<'v, T: core::str::FromStr>(_v: &Value<'v>) -> Option<T> where Value<'v>: Sized {
    panic!("text fallback Value::parse reached although the value is typed")
}

pub fn u128_from_value_unreachable<'v>(_v: Value<'v>) -> Option<u128> where Value<'v>: Sized {
    panic!("integer fallback of TraceId::from_value reached although the value is typed")
}

pub fn u64_from_value_unreachable<'v>(_v: Value<'v>) -> Option<u64> where Value<'v>: Sized {
    panic!("integer fallback of SpanId::from_value reached although the value is typed")
}
