//! C16 — templates compare by meaning (however text is split into fragments, also non-ASCII,
//! never panicking; reflexive, symmetric, transitive) and render their parts verbatim in order
//! with first-wins values, `{label}` for absent properties, identically for `by_ref`.
use crate::util::*;
use core::fmt::Write as _;
use emit_core::props::Props;
use emit_core::template::{self, Formatter, Part, Template};
use emit_core::value::Value;

const LABELS: [&str; 3] = ["x", "y", ""];

/// Symbolic text of up to `NCH` characters drawn from {a, b, U+00E9}; returns (bytes, byte length,
/// char start offsets incl. end).
struct Text<const CAP: usize> {
    b: [u8; CAP],
    n: usize,
    /// bnd[i] = byte offset of the i-th character boundary; bnd[nch] = n
    bnd: [usize; 4],
    nch: usize,
}

fn sym_text3() -> Text<6> { sym_text(3) }

fn sym_text(maxch: usize) -> Text<6> {
    let mut t = Text { b: [0u8; 6], n: 0, bnd: [0; 4], nch: 0 };
    let nch: usize = kani::any();
    kani::assume(nch <= maxch && nch <= 3);
    let mut i = 0;
    while i < 3 {
        if i < nch {
            let k: u8 = kani::any();
            kani::assume(k < 3);
            t.bnd[i] = t.n;
            if k == 0 { t.b[t.n] = b'a'; t.n += 1; }
            else if k == 1 { t.b[t.n] = b'b'; t.n += 1; }
            else { t.b[t.n] = 0xC3; t.b[t.n + 1] = 0xA9; t.n += 2; }
        }
        i += 1;
    }
    t.nch = nch;
    t.bnd[nch] = t.n;
    t
}

/// A symbolic template of up to 3 parts over `t`: each part is a hole (symbolic label) or the next
/// text fragment `t[cut_k..cut_{k+1}]` where cuts are symbolic CHARACTER boundaries (fragments may be
/// empty, the last text part takes the rest).
struct Shape {
    n: usize,            // number of parts 0..=3
    hole: [bool; 3],
    label: [usize; 3],
    lo: [usize; 3],      // byte range of text parts
    hi: [usize; 3],
}

fn sym_shape(t: &Text<6>) -> Shape { sym_shape_n(t, 3) }

fn sym_shape_n(t: &Text<6>, maxparts: usize) -> Shape {
    let mut s = Shape { n: kani::any(), hole: [false; 3], label: [0; 3], lo: [0; 3], hi: [0; 3] };
    kani::assume(s.n <= 3 && s.n <= maxparts);
    let mut cur = 0usize; // char index
    let mut i = 0;
    while i < 3 {
        if i < s.n {
            s.hole[i] = kani::any();
            if s.hole[i] {
                let l: usize = kani::any();
                kani::assume(l < 3);
                s.label[i] = l;
            } else {
                let next: usize = kani::any();
                kani::assume(next >= cur && next <= t.nch);
                s.lo[i] = t.bnd[cur];
                s.hi[i] = t.bnd[next];
                cur = next;
            }
        }
        i += 1;
    }
    // all of the text is used (otherwise the meaning would depend on the unused tail: fine, but
    // then normal forms below are computed from the used ranges only)
    s
}

fn build<'a>(t: &'a Text<6>, s: &Shape) -> [Part<'a>; 3] {
    let mk = |i: usize| -> Part<'a> {
        if s.hole[i] {
            Part::hole_ref(LABELS[s.label[i]])
        } else {
            Part::text_ref(unsafe { core::str::from_utf8_unchecked(&t.b[s.lo[i]..s.hi[i]]) })
        }
    };
    [mk(0), mk(1), mk(2)]
}

/// Reference equality on normal forms: same holes (labels) in the same order, and the same bytes
/// between consecutive holes.
fn ref_eq(ta: &Text<6>, sa: &Shape, tb: &Text<6>, sb: &Shape) -> bool {
    // walk both part lists, comparing hole sequences and gap texts
    let mut ia = 0;
    let mut ib = 0;
    loop {
        // gap text ranges: consecutive text parts are consecutive slices, so a gap is [lo of first, hi of last]
        let mut ga_lo = 0; let mut ga_hi = 0; let mut seen = false;
        while ia < sa.n && !sa.hole[ia] {
            if !seen { ga_lo = sa.lo[ia]; seen = true; }
            ga_hi = sa.hi[ia];
            ia += 1;
        }
        let mut gb_lo = 0; let mut gb_hi = 0; let mut seenb = false;
        while ib < sb.n && !sb.hole[ib] {
            if !seenb { gb_lo = sb.lo[ib]; seenb = true; }
            gb_hi = sb.hi[ib];
            ib += 1;
        }
        let la = ga_hi - ga_lo;
        let lb = gb_hi - gb_lo;
        if la != lb { return false; }
        let mut k = 0;
        while k < la {
            if ta.b[ga_lo + k] != tb.b[gb_lo + k] { return false; }
            k += 1;
        }
        let a_end = ia >= sa.n;
        let b_end = ib >= sb.n;
        if a_end || b_end { return a_end && b_end; }
        // both at a hole
        if sa.label[ia] != sb.label[ib] { return false; }
        ia += 1;
        ib += 1;
    }
}

fn eq_body(maxch: usize, maxparts_a: usize, maxparts_b: usize) {
    let ta = sym_text(maxch);
    let tb = sym_text(maxch);
    let sa = sym_shape_n(&ta, maxparts_a);
    let sb = sym_shape_n(&tb, maxparts_b);
    let pa = build(&ta, &sa);
    let pb = build(&tb, &sb);
    let a = Template::new_ref(&pa[..sa.n]);
    let b = Template::new_ref(&pb[..sb.n]);
    let want = ref_eq(&ta, &sa, &tb, &sb);
    let got = a == b;
    assert!(got == want, "equality is equality of normal forms");
    kani::cover!(want && sa.n != sb.n, "equal with different fragmentation");
    kani::cover!(want && sa.n == 2 && sb.n == 1 && !sa.hole[0] && sa.hole[1] && sa.hi[0] == sa.lo[0], "empty text before hole");
    kani::cover!(!want, "unequal");
    kani::cover!(ta.n >= 3 && tb.n >= 3 && ta.b[0] == 0xC3 && tb.b[0] == b'a', "opt:multi-byte vs ascii offsets");
}

/// <= 2 characters per side, 3 parts vs 2 parts (and the mirror image below)
#[kani::proof]
#[kani::unwind(12)]
pub fn c16_q_tpl_eq_by_meaning_3x2() { eq_body(2, 3, 2); }

#[kani::proof]
#[kani::unwind(12)]
pub fn c16_q_tpl_eq_by_meaning_2x3() { eq_body(2, 2, 3); }

/// <= 3 characters per side, 3 parts each
#[kani::proof]
#[kani::unwind(14)]
pub fn c16_t_tpl_eq_by_meaning_3x3() { eq_body(3, 3, 3); }

/// symmetric and reflexive
#[kani::proof]
#[kani::unwind(12)]
pub fn c16_q_tpl_eq_symmetric() {
    let ta = sym_text(2);
    let tb = sym_text(2);
    let sa = sym_shape_n(&ta, 3);
    let sb = sym_shape_n(&tb, 2);
    let pa = build(&ta, &sa);
    let pb = build(&tb, &sb);
    let a = Template::new_ref(&pa[..sa.n]);
    let b = Template::new_ref(&pb[..sb.n]);
    assert!((a == b) == (b == a), "symmetric");
    assert!(a == a, "reflexive");
    kani::cover!(a == b && sa.n != sb.n, "equal with different fragmentation");
}

/// literal (single text part, `Template::literal_ref`) against a multi-part template
#[kani::proof]
#[kani::unwind(12)]
pub fn c16_q_tpl_eq_literal() {
    let ta = sym_text(3);
    let tb = sym_text(3);
    let sb = sym_shape(&tb);
    let pb = build(&tb, &sb);
    let a = Template::literal_ref(unsafe { core::str::from_utf8_unchecked(&ta.b[..ta.n]) });
    let b = Template::new_ref(&pb[..sb.n]);
    let sa = Shape { n: 1, hole: [false; 3], label: [0; 3], lo: [0, 0, 0], hi: [ta.n, 0, 0] };
    let want = ref_eq(&ta, &sa, &tb, &sb);
    assert!((a == b) == want);
    kani::cover!(want && sb.n == 3, "literal equals three fragments");
    kani::cover!(!want, "unequal");
}

/// transitivity on three templates over ASCII+non-ASCII text of <= 2 chars
#[kani::proof]
#[kani::unwind(12)]
pub fn c16_t_tpl_eq_transitive() {
    let ta = sym_text(2);
    let tb = sym_text(2);
    let tc = sym_text(2);
    let sa = sym_shape_n(&ta, 2);
    let sb = sym_shape_n(&tb, 3);
    let sc = sym_shape_n(&tc, 2);
    let pa = build(&ta, &sa);
    let pb = build(&tb, &sb);
    let pc = build(&tc, &sc);
    let a = Template::new_ref(&pa[..sa.n]);
    let b = Template::new_ref(&pb[..sb.n]);
    let c = Template::new_ref(&pc[..sc.n]);
    if a == b && b == c {
        assert!(a == c, "transitive");
    }
    assert!(a == a, "reflexive");
    kani::cover!(a == b && b == c && sa.n != sc.n, "chain");
}

#[kani::proof]
#[kani::unwind(12)]
pub fn c16_w_tpl_twin_eq_is_partwise() {
    // false claim: equal templates have the same number of parts
    let ta = sym_text(1);
    let tb = sym_text(1);
    let sa = sym_shape_n(&ta, 2);
    let sb = sym_shape_n(&tb, 2);
    let pa = build(&ta, &sa);
    let pb = build(&tb, &sb);
    let a = Template::new_ref(&pa[..sa.n]);
    let b = Template::new_ref(&pb[..sb.n]);
    if a == b { assert!(sa.n == sb.n); }
}

// ---- rendering ----------------------------------------------------------------------------

#[derive(Clone, Copy, PartialEq, Eq)]
enum Call { None, Text, Value, Fmt, Label }

struct Rec {
    n: usize,
    kind: [Call; 4],
    b0: [u8; 4],
    len: [usize; 4],
    val: [i32; 4],
}

impl Rec {
    fn new() -> Self { Rec { n: 0, kind: [Call::None; 4], b0: [0; 4], len: [0; 4], val: [0; 4] } }
    fn push(&mut self, k: Call, s: &str, v: i32) {
        if self.n < 4 {
            self.kind[self.n] = k;
            self.b0[self.n] = if s.len() > 0 { s.as_bytes()[0] } else { 0 };
            self.len[self.n] = s.len();
            self.val[self.n] = v;
        }
        self.n += 1;
    }
}

impl core::fmt::Write for Rec {
    fn write_str(&mut self, _s: &str) -> core::fmt::Result { panic!("raw write_str is not part of the template protocol here") }
}

impl template::Write for Rec {
    fn write_text(&mut self, text: &str) -> core::fmt::Result { self.push(Call::Text, text, 0); Ok(()) }
    fn write_hole_value(&mut self, label: &str, value: Value) -> core::fmt::Result {
        self.push(Call::Value, label, value.cast::<i32>().unwrap_or(-1)); Ok(())
    }
    fn write_hole_fmt(&mut self, label: &str, value: Value, _f: Formatter) -> core::fmt::Result {
        self.push(Call::Fmt, label, value.cast::<i32>().unwrap_or(-1)); Ok(())
    }
    fn write_hole_label(&mut self, label: &str) -> core::fmt::Result { self.push(Call::Label, label, 0); Ok(()) }
}

fn noop_fmt(_v: Value, _f: &mut core::fmt::Formatter) -> core::fmt::Result { Ok(()) }

/// Render protocol: one writer call per part, in order; text verbatim (same slice); hole -> first
/// value for the label (through the formatter variant iff one is set) or the label when absent.
#[kani::proof]
#[kani::unwind(8)]
pub fn c16_q_tpl_render_protocol() {
    let t = sym_text(2);
    let s = sym_shape(&t);
    let mut parts = build(&t, &s);
    let with_fmt: [bool; 3] = [kani::any(), kani::any(), kani::any()];
    let mut i = 0;
    while i < 3 {
        if with_fmt[i] { parts[i] = parts[i].clone().with_formatter(Formatter::new(noop_fmt)); }
        i += 1;
    }
    let tpl = Template::new_ref(&parts[..s.n]);
    // two properties with symbolic keys from the label pool (duplicates allowed), positions as values
    let k0: usize = kani::any();
    let k1: usize = kani::any();
    kani::assume(k0 < 3 && k1 < 3);
    let np: usize = kani::any();
    kani::assume(np <= 2);
    let props_arr = [(LABELS[k0], 10i32), (LABELS[k1], 11i32)];
    let props = &props_arr[..np];
    let mut rec = Rec::new();
    let r = tpl.render(props).write(&mut rec);
    assert!(r.is_ok());
    assert!(rec.n == s.n, "one writer call per part");
    let mut i = 0;
    while i < 3 {
        if i < s.n {
            if s.hole[i] {
                let l = s.label[i];
                let first = if np >= 1 && k0 == l { Some(10) } else if np >= 2 && k1 == l { Some(11) } else { None };
                match first {
                    Some(v) => {
                        assert!(rec.kind[i] == if with_fmt[i] { Call::Fmt } else { Call::Value });
                        assert!(rec.val[i] == v, "first value for the key wins");
                    }
                    None => assert!(rec.kind[i] == Call::Label),
                }
                assert!(rec.len[i] == LABELS[l].len() && (rec.len[i] == 0 || rec.b0[i] == LABELS[l].as_bytes()[0]), "the hole's own label");
            } else {
                assert!(rec.kind[i] == Call::Text);
                assert!(rec.len[i] == s.hi[i] - s.lo[i], "text fragment verbatim");
                assert!(rec.len[i] == 0 || rec.b0[i] == t.b[s.lo[i]]);
            }
        }
        i += 1;
    }
    // by_ref renders identically
    let mut rec2 = Rec::new();
    let by = tpl.by_ref();
    assert!(by.render(props).write(&mut rec2).is_ok());
    assert!(rec2.n == rec.n);
    let mut i = 0;
    while i < 3 {
        if i < s.n { assert!(rec2.kind[i] == rec.kind[i] && rec2.val[i] == rec.val[i] && rec2.len[i] == rec.len[i]); }
        i += 1;
    }
    kani::cover!(s.n == 3 && s.hole[1] && np == 2 && k0 == k1 && k0 == s.label[1], "duplicate key, hole filled");
    kani::cover!(s.n >= 1 && s.hole[0] && np == 0, "absent property");
    kani::cover!(s.n >= 1 && s.hole[0] && with_fmt[0] && np >= 1 && k0 == s.label[0], "formatter path");
}

/// Default text rendering (`Display` of `Render`, i.e. the `fmt::Formatter` writer): text values are
/// written verbatim, absent holes as `{label}`.
#[kani::proof]
#[kani::unwind(10)]
pub fn c16_q_tpl_render_display() {
    let t = sym_text(2);
    let s = sym_shape(&t);
    let parts = build(&t, &s);
    let tpl = Template::new_ref(&parts[..s.n]);
    let k0: usize = kani::any();
    kani::assume(k0 < 3);
    let np: usize = kani::any();
    kani::assume(np <= 1);
    const VAL: &str = "V!";
    let props_arr = [(LABELS[k0], VAL)];
    let props = &props_arr[..np];
    let mut out = Buf::<24>::new();
    let r = write!(out, "{}", tpl.render(props));
    assert!(r.is_ok() && !out.overflow);
    // expected text
    let mut exp = Buf::<24>::new();
    let mut i = 0;
    while i < 3 {
        if i < s.n {
            if s.hole[i] {
                if np == 1 && k0 == s.label[i] {
                    let _ = exp.write_str(VAL);
                } else {
                    let _ = exp.write_str("{");
                    let _ = exp.write_str(LABELS[s.label[i]]);
                    let _ = exp.write_str("}");
                }
            } else {
                let _ = exp.write_str(unsafe { core::str::from_utf8_unchecked(&t.b[s.lo[i]..s.hi[i]]) });
            }
        }
        i += 1;
    }
    assert!(out.n == exp.n, "rendered length");
    let mut i = 0;
    while i < 24 {
        if i < out.n { assert!(out.b[i] == exp.b[i], "rendered bytes"); }
        i += 1;
    }
    kani::cover!(s.n == 3 && s.hole[1] && np == 1 && k0 == s.label[1], "filled hole between text");
    kani::cover!(s.n >= 1 && s.hole[0] && np == 0, "label fallback");
}
