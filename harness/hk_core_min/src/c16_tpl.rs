//! C16 — templates compare by meaning (however text is split into fragments, also non-ASCII,
//! never panicking; reflexive, symmetric, transitive) and render their parts verbatim in order
//! with first-wins values, `{label}` for absent properties, identically for `by_ref`.
use crate::util::*;
use core::fmt::Write as _;
use emit_core::props::Props;
use emit_core::template::{self, Formatter, Part, Template};
use emit_core::value::Value;

const LABELS: [&str; 3] = ["x", "y", ""];

/// One text fragment: its own array (concrete base address, symbolic length) holding up to
/// `maxch` (<= 2) characters drawn from {a, b, U+00E9}.
#[derive(Clone, Copy)]
struct Frag {
    b: [u8; 4],
    n: usize,
}

fn sym_frag(maxch: usize) -> Frag {
    let mut f = Frag { b: [0u8; 4], n: 0 };
    let nch: usize = kani::any();
    kani::assume(nch <= maxch && nch <= 2);
    let mut i = 0;
    while i < 2 {
        if i < nch {
            let k: u8 = kani::any();
            kani::assume(k < 3);
            if k == 0 { f.b[f.n] = b'a'; f.n += 1; }
            else if k == 1 { f.b[f.n] = b'b'; f.n += 1; }
            else { f.b[f.n] = 0xC3; f.b[f.n + 1] = 0xA9; f.n += 2; }
        }
        i += 1;
    }
    f
}

/// A symbolic template of up to 3 parts: each part is a hole (symbolic label from LABELS) or a text
/// fragment (possibly empty). Adjacent text parts model "the same text split differently".
struct Tpl {
    n: usize,
    hole: [bool; 3],
    label: [usize; 3],
    frag: [Frag; 3],
}

fn sym_tpl(maxparts: usize, maxch: usize) -> Tpl {
    let mut t = Tpl { n: kani::any(), hole: [false; 3], label: [0; 3], frag: [Frag { b: [0; 4], n: 0 }; 3] };
    kani::assume(t.n <= 3 && t.n <= maxparts);
    let mut i = 0;
    while i < 3 {
        if i < t.n {
            t.hole[i] = kani::any();
            if t.hole[i] {
                let l: usize = kani::any();
                kani::assume(l < 3);
                t.label[i] = l;
            } else {
                t.frag[i] = sym_frag(maxch);
            }
        }
        i += 1;
    }
    t
}

fn build<'a>(t: &'a Tpl) -> [Part<'a>; 3] {
    let mk = |i: usize| -> Part<'a> {
        if t.hole[i] {
            Part::hole_ref(LABELS[t.label[i]])
        } else {
            Part::text_ref(unsafe { core::str::from_utf8_unchecked(&t.frag[i].b[..t.frag[i].n]) })
        }
    };
    [mk(0), mk(1), mk(2)]
}

/// Normal form: hole labels in order, and the concatenated text of each gap (before the first hole,
/// between holes, after the last).
struct Norm {
    holes: usize,
    labels: [usize; 3],
    gap: [[u8; 12]; 4],
    gap_n: [usize; 4],
}

fn norm(t: &Tpl) -> Norm {
    let mut m = Norm { holes: 0, labels: [0; 3], gap: [[0; 12]; 4], gap_n: [0; 4] };
    let mut i = 0;
    while i < 3 {
        if i < t.n {
            if t.hole[i] {
                m.labels[m.holes] = t.label[i];
                m.holes += 1;
            } else {
                let g = m.holes;
                let mut k = 0;
                while k < 4 {
                    if k < t.frag[i].n {
                        m.gap[g][m.gap_n[g]] = t.frag[i].b[k];
                        m.gap_n[g] += 1;
                    }
                    k += 1;
                }
            }
        }
        i += 1;
    }
    m
}

fn ref_eq(a: &Tpl, b: &Tpl) -> bool {
    let (x, y) = (norm(a), norm(b));
    if x.holes != y.holes { return false; }
    let mut i = 0;
    while i < 3 {
        if i < x.holes && x.labels[i] != y.labels[i] { return false; }
        i += 1;
    }
    let mut g = 0;
    while g < 4 {
        if x.gap_n[g] != y.gap_n[g] { return false; }
        let mut k = 0;
        while k < 12 {
            if k < x.gap_n[g] && x.gap[g][k] != y.gap[g][k] { return false; }
            k += 1;
        }
        g += 1;
    }
    true
}

fn eq_body(maxch: usize, maxparts_a: usize, maxparts_b: usize) {
    let ta = sym_tpl(maxparts_a, maxch);
    let tb = sym_tpl(maxparts_b, maxch);
    let pa = build(&ta);
    let pb = build(&tb);
    let a = Template::new_ref(&pa[..ta.n]);
    let b = Template::new_ref(&pb[..tb.n]);
    let want = ref_eq(&ta, &tb);
    let got = a == b;
    assert!(got == want, "equality is equality of normal forms");
    kani::cover!(want && ta.n != tb.n, "equal with different fragmentation");
    kani::cover!(want && ta.n == 2 && tb.n == 1 && !ta.hole[0] && ta.hole[1] && ta.frag[0].n == 0, "opt:empty text before hole");
    kani::cover!(!want, "unequal");
    kani::cover!(ta.n >= 1 && tb.n >= 1 && !ta.hole[0] && !tb.hole[0] && ta.frag[0].n >= 2 && tb.frag[0].n >= 1 && ta.frag[0].b[0] == 0xC3 && tb.frag[0].b[0] == b'a', "opt:multi-byte vs ascii offsets");
}

/// 2 parts vs 2 parts, <= 2 characters per fragment (covers: empty text next to a hole, fragments
/// of different byte lengths facing each other, multi-byte characters)
#[kani::proof]
#[kani::unwind(13)]
pub fn c16_q_tpl_eq_by_meaning_2x2() { eq_body(2, 2, 2); }

/// 3 parts vs 2 parts and the mirror image, <= 1 character per fragment
#[kani::proof]
#[kani::unwind(13)]
pub fn c16_q_tpl_eq_by_meaning_3x2() { eq_body(1, 3, 2); }

#[kani::proof]
#[kani::unwind(13)]
pub fn c16_t_tpl_eq_by_meaning_2x3() { eq_body(1, 2, 3); }

/// 3 parts each, <= 2 characters per fragment
#[kani::proof]
#[kani::unwind(13)]
pub fn c16_t_tpl_eq_by_meaning_3x3() { eq_body(2, 3, 3); }

/// symmetric
#[kani::proof]
#[kani::unwind(13)]
pub fn c16_t_tpl_eq_symmetric() {
    let ta = sym_tpl(2, 1);
    let tb = sym_tpl(1, 1);
    let pa = build(&ta);
    let pb = build(&tb);
    let a = Template::new_ref(&pa[..ta.n]);
    let b = Template::new_ref(&pb[..tb.n]);
    let ab = a == b;
    core::mem::forget(a);
    let a2 = Template::new_ref(&pa[..ta.n]);
    assert!(ab == (b == a2), "symmetric");
    kani::cover!(ab && ta.n != tb.n, "equal with different fragmentation");
    kani::cover!(!ab, "unequal");
}

/// reflexive (two templates over the same parts, and a template with itself)
#[kani::proof]
#[kani::unwind(13)]
pub fn c16_t_tpl_eq_reflexive() {
    let ta = sym_tpl(3, 2);
    let pa = build(&ta);
    let a = Template::new_ref(&pa[..ta.n]);
    assert!(a == a, "reflexive");
    let twin = Template::new_ref(&pa[..ta.n]);
    assert!(a == twin);
    kani::cover!(ta.n == 3, "three parts");
}

/// literal (single text part, `Template::literal_ref`) against a multi-part template
#[kani::proof]
#[kani::unwind(13)]
pub fn c16_q_tpl_eq_literal() {
    let lit = sym_frag(2);
    let tb = sym_tpl(3, 1);
    let pb = build(&tb);
    let a = Template::literal_ref(unsafe { core::str::from_utf8_unchecked(&lit.b[..lit.n]) });
    let b = Template::new_ref(&pb[..tb.n]);
    let ta = Tpl { n: 1, hole: [false; 3], label: [0; 3], frag: [lit, Frag { b: [0; 4], n: 0 }, Frag { b: [0; 4], n: 0 }] };
    let want = ref_eq(&ta, &tb);
    assert!((a == b) == want);
    assert!((b == a) == want);
    kani::cover!(want && tb.n == 3, "literal equals three fragments");
    kani::cover!(!want, "unequal");
}

/// transitivity on three templates
/// NOT REGISTERED (`_x_`): three symbolic templates at once exceed the per-solver memory limit (out of memory after 230 s in two
/// thorough runs). Transitivity within the bound follows from `c16_[qt]_tpl_eq_by_meaning_*` (equality <=> equal normal forms, and
/// equality of normal forms is an equivalence).
#[kani::proof]
#[kani::unwind(13)]
pub fn c16_x_tpl_eq_transitive() {
    let ta = sym_tpl(2, 1);
    let tb = sym_tpl(3, 1);
    let tc = sym_tpl(2, 1);
    let pa = build(&ta);
    let pb = build(&tb);
    let pc = build(&tc);
    let a = Template::new_ref(&pa[..ta.n]);
    let b = Template::new_ref(&pb[..tb.n]);
    let c = Template::new_ref(&pc[..tc.n]);
    if a == b && b == c {
        assert!(a == c, "transitive");
    }
    kani::cover!(a == b && b == c && ta.n != tb.n, "chain");
}

#[kani::proof]
#[kani::unwind(13)]
pub fn c16_w_tpl_twin_eq_is_partwise() {
    // false claim: equal templates have the same number of parts
    let ta = sym_tpl(2, 1);
    let tb = sym_tpl(2, 1);
    let pa = build(&ta);
    let pb = build(&tb);
    let a = Template::new_ref(&pa[..ta.n]);
    let b = Template::new_ref(&pb[..tb.n]);
    if a == b { assert!(ta.n == tb.n); }
}

// ---- rendering ----------------------------------------------------------------------------

#[derive(Clone, Copy, PartialEq, Eq)]
enum Call { None, Text, Value, Fmt, Label }

struct Rec {
    n: usize,
    kind: [Call; 4],
    b0: [u8; 4],
    len: [usize; 4],
    val: [i32; 4],
}

impl Rec {
    fn new() -> Self { Rec { n: 0, kind: [Call::None; 4], b0: [0; 4], len: [0; 4], val: [0; 4] } }
    fn push(&mut self, k: Call, s: &str, v: i32) {
        if self.n < 4 {
            self.kind[self.n] = k;
            self.b0[self.n] = if s.len() > 0 { s.as_bytes()[0] } else { 0 };
            self.len[self.n] = s.len();
            self.val[self.n] = v;
        }
        self.n += 1;
    }
}

impl core::fmt::Write for Rec {
    fn write_str(&mut self, _s: &str) -> core::fmt::Result { panic!("raw write_str is not part of the template protocol here") }
}

impl template::Write for Rec {
    fn write_text(&mut self, text: &str) -> core::fmt::Result { self.push(Call::Text, text, 0); Ok(()) }
    fn write_hole_value(&mut self, label: &str, value: Value) -> core::fmt::Result {
        self.push(Call::Value, label, value.cast::<i32>().unwrap_or(-1)); Ok(())
    }
    fn write_hole_fmt(&mut self, label: &str, value: Value, _f: Formatter) -> core::fmt::Result {
        self.push(Call::Fmt, label, value.cast::<i32>().unwrap_or(-1)); Ok(())
    }
    fn write_hole_label(&mut self, label: &str) -> core::fmt::Result { self.push(Call::Label, label, 0); Ok(()) }
}

fn noop_fmt(_v: Value, _f: &mut core::fmt::Formatter) -> core::fmt::Result { Ok(()) }

/// Render protocol: one writer call per part, in order; text verbatim; hole -> first value for the
/// label (through the formatter variant iff one is set) or the label when absent.
fn render_protocol(maxparts: usize, by_ref: bool) {
    let s = sym_tpl(maxparts, 1);
    let mut parts = build(&s);
    let with_fmt: [bool; 3] = [kani::any(), kani::any(), kani::any()];
    let mut i = 0;
    while i < 3 {
        if with_fmt[i] { parts[i] = parts[i].clone().with_formatter(Formatter::new(noop_fmt)); }
        i += 1;
    }
    let tpl = Template::new_ref(&parts[..s.n]);
    // two properties with symbolic keys from the label pool (duplicates allowed), positions as values
    let k0: usize = kani::any();
    let k1: usize = kani::any();
    kani::assume(k0 < 3 && k1 < 3);
    let np: usize = kani::any();
    kani::assume(np <= 2);
    let props_arr = [(LABELS[k0], 10i32), (LABELS[k1], 11i32)];
    let props = &props_arr[..np];
    let mut rec = Rec::new();
    let r = if by_ref { tpl.by_ref().render(props).write(&mut rec) } else { tpl.render(props).write(&mut rec) };
    assert!(r.is_ok());
    assert!(rec.n == s.n, "one writer call per part");
    let mut i = 0;
    while i < 3 {
        if i < s.n {
            if s.hole[i] {
                let l = s.label[i];
                let first = if np >= 1 && k0 == l { Some(10) } else if np >= 2 && k1 == l { Some(11) } else { None };
                match first {
                    Some(v) => {
                        assert!(rec.kind[i] == if with_fmt[i] { Call::Fmt } else { Call::Value });
                        assert!(rec.val[i] == v, "first value for the key wins");
                    }
                    None => { assert!(rec.kind[i] == Call::Label); }
                }
                assert!(rec.len[i] == LABELS[l].len() && (rec.len[i] == 0 || rec.b0[i] == LABELS[l].as_bytes()[0]), "the hole's own label");
            } else {
                assert!(rec.kind[i] == Call::Text);
                assert!(rec.len[i] == s.frag[i].n, "text fragment verbatim");
                assert!(rec.len[i] == 0 || rec.b0[i] == s.frag[i].b[0]);
            }
        }
        i += 1;
    }
    kani::cover!(s.n >= 2 && s.hole[1] && np == 2 && k0 == k1 && k0 == s.label[1], "duplicate key, hole filled");
    kani::cover!(s.n >= 1 && s.hole[0] && np == 0, "absent property");
    kani::cover!(s.n >= 1 && s.hole[0] && with_fmt[0] && np >= 1 && k0 == s.label[0], "formatter path");
}

#[kani::proof]
#[kani::unwind(8)]
pub fn c16_q_tpl_render_protocol_2parts() { render_protocol(2, false); }

#[kani::proof]
#[kani::unwind(8)]
pub fn c16_t_tpl_render_protocol_by_ref() { render_protocol(2, true); }

#[kani::proof]
#[kani::unwind(8)]
pub fn c16_t_tpl_render_protocol_3parts() { render_protocol(3, false); }

/// Default text rendering (`Display` of `Render`, i.e. the `fmt::Formatter` writer): text verbatim,
/// holes without a matching property as `{label}`. (Holes WITH a value go through value-bag's Display
/// visitor, which CBMC does not finish; the value path of the protocol is decided by
/// `c16_q_tpl_render_protocol_*` with a recording writer.)
#[kani::proof]
#[kani::unwind(14)]
pub fn c16_q_tpl_render_display() {
    let s = sym_tpl(2, 1);
    let parts = build(&s);
    let tpl = Template::new_ref(&parts[..s.n]);
    let mut out = Buf::<12>::new();
    let r = write!(out, "{}", tpl.render(emit_core::empty::Empty));
    assert!(r.is_ok() && !out.overflow);
    let mut exp = Buf::<12>::new();
    let mut i = 0;
    while i < 3 {
        if i < s.n {
            if s.hole[i] {
                let _ = exp.write_str("{");
                let _ = exp.write_str(LABELS[s.label[i]]);
                let _ = exp.write_str("}");
            } else {
                let _ = exp.write_str(unsafe { core::str::from_utf8_unchecked(&s.frag[i].b[..s.frag[i].n]) });
            }
        }
        i += 1;
    }
    assert!(out.n == exp.n, "rendered length");
    let mut i = 0;
    while i < 12 {
        if i < out.n { assert!(out.b[i] == exp.b[i], "rendered bytes"); }
        i += 1;
    }
    kani::cover!(s.n == 2 && s.hole[1] && !s.hole[0] && s.frag[0].n > 0, "text then hole");
    kani::cover!(s.n >= 1 && s.hole[0] && s.label[0] == 2, "empty label");
}
