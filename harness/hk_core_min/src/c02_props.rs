//! C02 — lookup agrees with enumeration (first value for a key wins), uniqueness claims are honest,
//! enumeration stops as soon as the visitor asks (emit_core without `alloc`: pairs, arrays, slices,
//! Option, &, Empty, And, AsMap, dyn ErasedProps, Extent).
use crate::rec::*;
use core::ops::ControlFlow;
use emit_core::and::And;
use emit_core::empty::Empty;
use emit_core::extent::Extent;
use emit_core::props::{ErasedProps, Props};

/// The generic coherence obligation for one collection and one symbolic lookup key.
pub fn coherent<P: Props + ?Sized>(p: &P, pool: &[&str], max_len: usize) {
    coherent_by(p, pool, max_len, |v| v.by_ref().cast::<i32>().unwrap_or(-1))
}

/// `id` identifies a value (so that "first value" can be compared) without formatting it.
pub fn coherent_by<P: Props + ?Sized>(p: &P, pool: &[&str], max_len: usize, id: fn(&emit_core::value::Value) -> i32) {
    let qi: usize = kani::any();
    kani::assume(qi < pool.len());
    let q = pool[qi];
    // reference: first enumerated value for q
    let mut first: Option<i32> = None;
    let mut seen_q = 0u32;
    let mut total = 0usize;
    let r = p.for_each(|k, v| {
        total += 1;
        if k.get() == q {
            if first.is_none() { first = Some(id(&v)); }
            seen_q += 1;
        }
        ControlFlow::Continue(())
    });
    assert!(r == ControlFlow::Continue(()), "a visitor that never breaks sees Continue");
    assert!(total <= max_len);
    let got = p.get(q).map(|v| id(&v));
    assert!(got == first, "get returns the first enumerated value for the key, or nothing");
    let pulled = p.pull::<emit_core::value::Value, _>(q).map(|v| id(&v));
    assert!(pulled == first, "pull agrees with get");
    if p.is_unique() { assert!(seen_q <= 1, "a collection that claims uniqueness never enumerates a key twice"); }
    // early exit: break at the k-th pair
    let k: usize = kani::any();
    kani::assume(k >= 1 && k <= max_len + 1);
    let mut calls = 0usize;
    let r = p.for_each(|_, _| {
        calls += 1;
        assert!(calls <= k, "enumeration stops as soon as the visitor asks");
        if calls == k { ControlFlow::Break(()) } else { ControlFlow::Continue(()) }
    });
    assert!(calls == if k <= total { k } else { total });
    assert!((r == ControlFlow::Break(())) == (k <= total), "Break is propagated to the caller");
    kani::cover!(seen_q >= 2, "opt:duplicate of the looked-up key");
    kani::cover!(first.is_none(), "absent key");
    kani::cover!(first.is_some(), "opt:present key");
}

fn pair(i: i32) -> (&'static str, i32) { (POOL[sym_key()], i) }

#[kani::proof]
#[kani::unwind(6)]
pub fn c02_q_array3() {
    let p = [pair(1), pair(2), pair(3)];
    coherent(&p, &POOL, 3);
}

#[kani::proof]
#[kani::unwind(6)]
pub fn c02_q_slice_symbolic_len() {
    let p = [pair(1), pair(2), pair(3)];
    let n: usize = kani::any();
    kani::assume(n <= 3);
    coherent(&p[..n], &POOL, 3);
}

#[kani::proof]
#[kani::unwind(6)]
pub fn c02_q_and_array_pair() {
    let p = And::new([pair(1), pair(2)], pair(3));
    coherent(&p, &POOL, 3);
}

/// both sides claim uniqueness on their own; the concatenation may still repeat a key
#[kani::proof]
#[kani::unwind(6)]
pub fn c02_q_and_pair_pair() {
    let p = And::new(pair(1), pair(2));
    coherent(&p, &POOL, 2);
    let q = And::new(And::new(pair(1), Empty), And::new(pair(2), pair(3)));
    coherent(&q, &POOL, 3);
}

/// every intermediate level of a nest is itself a collection obtainable through the API
#[kani::proof]
#[kani::unwind(6)]
pub fn c02_q_and_levels() {
    let present: bool = kani::any();
    let inner_l = And::new(pair(1), if present { Some(pair(2)) } else { None });
    coherent(&inner_l, &POOL, 2);
    let inner_r = And::new(Empty, pair(3));
    coherent(&inner_r, &POOL, 1);
    let e: &dyn ErasedProps = &inner_l;
    coherent(&And::new(e, &inner_r), &POOL, 3);
}

#[kani::proof]
#[kani::unwind(6)]
pub fn c02_q_and_option_erased() {
    let present: bool = kani::any();
    let left = if present { Some(pair(1)) } else { None };
    let p = left.and_props([pair(2), pair(3)]);
    let e: &dyn ErasedProps = &p;
    coherent(e, &POOL, 3);
    kani::cover!(!present, "absent optional part");
}

#[kani::proof]
#[kani::unwind(6)]
pub fn c02_q_nested_and_asmap() {
    let mid = [pair(2)];
    let p = And::new(And::new(pair(1), Empty), And::new(&mid[..], pair(3)));
    coherent(p.as_map(), &POOL, 3);
    coherent(&&p, &POOL, 3);
}

#[kani::proof]
#[kani::unwind(6)]
pub fn c02_q_single_pair_empty() {
    let p = pair(1);
    coherent(&p, &POOL, 1);
    coherent(&Empty, &POOL, 0);
    assert!(p.is_unique() && Empty.is_unique());
}

#[kani::proof]
#[kani::unwind(10)]
pub fn c02_q_extent_view() {
    let range: bool = kani::any();
    let x = if range { Extent::range(sym_ts()..sym_ts()) } else { Extent::point(sym_ts()) };
    const KEYS: [&str; 3] = ["ts", "ts_start", "a"];
    // values are timestamps: identified by downcast (no formatting), i32 values by cast
    fn id(v: &emit_core::value::Value) -> i32 {
        if let Some(t) = v.downcast_ref::<emit_core::timestamp::Timestamp>() { (t.to_unix().as_secs() as i32) | 1 }
        else { v.by_ref().cast::<i32>().unwrap_or(-1) }
    }
    coherent_by(&x, &KEYS, 2, id);
}

#[kani::proof]
#[kani::unwind(8)]
pub fn c02_t_and_depth3_erased() {
    let present: bool = kani::any();
    let inner = And::new([pair(1), pair(2)], if present { Some(pair(3)) } else { None });
    let e: &dyn ErasedProps = &inner;
    let p = And::new(e, And::new(pair(4), Empty));
    coherent(&p, &POOL, 4);
}

/// Keys are `Str`s; sorted collections (BTreeMap<Str, V>, the macro-built arrays) are searched with the order of
/// the key TEXT (`Borrow<str>`): `Str`'s Eq / Ord must be exactly `str`'s, for static, borrowed and mixed pairs.
#[kani::proof]
#[kani::unwind(6)]
pub fn c02_q_str_order_is_text_order() {
    use emit_core::str::Str;
    const A: [u8; 4] = *b"ab\0~";
    let x: [u8; 3] = [A[sym_key()], A[sym_key()], A[sym_key()]];
    let y: [u8; 3] = [A[sym_key()], A[sym_key()], A[sym_key()]];
    let nx: usize = kani::any();
    let ny: usize = kani::any();
    kani::assume(nx <= 3 && ny <= 3);
    let sx = unsafe { core::str::from_utf8_unchecked(&x[..nx]) };
    let sy = unsafe { core::str::from_utf8_unchecked(&y[..ny]) };
    let (kx, ky) = (Str::new_ref(sx), Str::new_ref(sy));
    assert!(kx.cmp(&ky) == sx.cmp(sy), "Str orders as its text");
    assert!(kx.partial_cmp(&ky) == Some(sx.cmp(sy)));
    assert!((kx == ky) == (sx == sy), "Str equality is text equality");
    assert!((kx == *sy) == (sx == sy));
    kani::cover!(nx < ny && sx > sy, "shorter but greater");
    kani::cover!(sx == sy && nx == 2, "equal");
}

#[kani::proof]
#[kani::unwind(6)]
pub fn c02_w_twin_last_wins() {
    // false claim: the LAST value for a duplicated key is returned
    let p = [pair(1), pair(2)];
    let q = POOL[sym_key()];
    let mut last: Option<i32> = None;
    let _ = p.for_each(|k, v| { if k.get() == q { last = v.cast::<i32>(); } ControlFlow::Continue(()) });
    assert!(p.pull::<i32, _>(q) == last);
}
