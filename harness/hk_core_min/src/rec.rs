//! Recording stand-ins for emit's public traits (filters, emitters, clock, ctxt) used by C01/C02.
use core::cell::Cell;
use core::ops::ControlFlow;
use core::time::Duration;
use emit_core::clock::Clock;
use emit_core::ctxt::Ctxt;
use emit_core::emitter::Emitter;
use emit_core::event::{Event, ToEvent};
use emit_core::filter::Filter;
use emit_core::props::Props;
use emit_core::timestamp::Timestamp;

pub const POOL: [&str; 4] = ["a", "b", "", "\u{e9}"];

pub fn pool_idx(k: &str) -> usize {
    let mut i = 0;
    while i < POOL.len() {
        if POOL[i] == k { return i; }
        i += 1;
    }
    99
}

/// What a component saw of an event: extent and the full enumeration of its properties.
#[derive(Clone, Copy, PartialEq, Eq)]
pub struct Seen {
    pub has_extent: bool,
    pub is_range: bool,
    pub start: u64,
    pub end: u64,
    pub n: usize,
    pub keys: [usize; 5],
    pub vals: [i32; 5],
}

impl Seen {
    pub const NONE: Seen = Seen { has_extent: false, is_range: false, start: 0, end: 0, n: 0, keys: [0; 5], vals: [0; 5] };

    pub fn of<E: ToEvent>(evt: E) -> Seen {
        let evt = evt.to_event();
        let mut s = Seen::NONE;
        if let Some(x) = evt.extent() {
            s.has_extent = true;
            if let Some(r) = x.as_range() {
                s.is_range = true;
                s.start = r.start.to_unix().as_secs();
                s.end = r.end.to_unix().as_secs();
            } else {
                s.end = x.as_point().to_unix().as_secs();
            }
        }
        let _ = evt.props().for_each(|k, v| {
            if s.n < 5 {
                s.keys[s.n] = pool_idx(k.get());
                s.vals[s.n] = v.cast::<i32>().unwrap_or(-1);
            }
            s.n += 1;
            ControlFlow::Continue(())
        });
        s
    }
}

pub struct RecFilter {
    pub verdict: bool,
    pub calls: Cell<u32>,
    pub seen: Cell<Seen>,
}

impl RecFilter {
    pub fn new(verdict: bool) -> Self { RecFilter { verdict, calls: Cell::new(0), seen: Cell::new(Seen::NONE) } }
}

impl Filter for RecFilter {
    fn matches<E: ToEvent>(&self, evt: E) -> bool {
        self.calls.set(self.calls.get() + 1);
        self.seen.set(Seen::of(evt));
        self.verdict
    }
}

pub struct RecEmitter {
    pub calls: Cell<u32>,
    pub seen: Cell<Seen>,
    pub flush_result: bool,
    pub flush_calls: Cell<u32>,
    pub flush_timeout: Cell<Duration>,
}

impl RecEmitter {
    pub fn new() -> Self {
        RecEmitter { calls: Cell::new(0), seen: Cell::new(Seen::NONE), flush_result: true, flush_calls: Cell::new(0), flush_timeout: Cell::new(Duration::ZERO) }
    }
    pub fn with_flush(r: bool) -> Self { let mut e = Self::new(); e.flush_result = r; e }
}

impl Emitter for RecEmitter {
    fn emit<E: ToEvent>(&self, evt: E) {
        self.calls.set(self.calls.get() + 1);
        self.seen.set(Seen::of(evt));
    }
    fn blocking_flush(&self, timeout: Duration) -> bool {
        self.flush_calls.set(self.flush_calls.get() + 1);
        self.flush_timeout.set(timeout);
        self.flush_result
    }
}

pub struct RecClock {
    pub now: Option<Timestamp>,
    pub calls: Cell<u32>,
}

impl Clock for RecClock {
    fn now(&self) -> Option<Timestamp> {
        self.calls.set(self.calls.get() + 1);
        self.now
    }
}

/// Ambient context stand-in: `with_current` exposes a fixed property list.
pub struct RecCtxt {
    pub props: [(&'static str, i32); 2],
    pub n: usize,
    pub calls: Cell<u32>,
}

impl Ctxt for RecCtxt {
    type Current = [(&'static str, i32)];
    type Frame = ();
    fn open_root<P: Props>(&self, _: P) -> Self::Frame {}
    fn enter(&self, _: &mut Self::Frame) {}
    fn exit(&self, _: &mut Self::Frame) {}
    fn close(&self, _: Self::Frame) {}
    fn with_current<R, F: FnOnce(&Self::Current) -> R>(&self, with: F) -> R {
        self.calls.set(self.calls.get() + 1);
        with(&self.props[..self.n])
    }
}

#[cfg(kani)]
pub fn sym_ts() -> Timestamp {
    let s: u64 = kani::any();
    kani::assume(s <= 253402300799);
    Timestamp::from_unix(Duration::new(s, 0)).unwrap()
}

#[cfg(kani)]
pub fn sym_key() -> usize {
    let k: usize = kani::any();
    kani::assume(k < POOL.len());
    k
}
