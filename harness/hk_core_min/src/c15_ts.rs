//! C15 — RFC 3339 timestamp text form: the parser is total, accepts exactly the documented
//! shape, extracts the fields the digits denote; formatter -> parser is the identity on
//! calendar parts at every precision. The calendar arithmetic itself (to_parts/from_parts
//! over the full 64-bit range) is decided by the SMT engine (vlib/cal_smt.py): here
//! `from_parts`/`to_parts` are either the real code (totality harnesses) or replaced by a
//! recording stub (field-extraction / round-trip harnesses, so that CBMC does not have to
//! bit-blast 64-bit division).
use crate::util::*;
use core::fmt::Write as _;
use emit_core::timestamp::{Parts, Timestamp};

/// digits, every separator of the grammar, a sign, blank, a lowercase zone, a letter, and the
/// two bytes of U+00E9 (only placed together, see `sym_text`).
const ALPHA: [u8; 13] = *b"0129-:.TZ+ zx";

/// Symbolic text of exactly N bytes over ALPHA, optionally with one two-byte character
/// (U+00E9) at a symbolic position, so that byte offsets inside a character occur.
fn sym_text<const N: usize>() -> [u8; N] {
    let mut b: [u8; N] = sym_arr(&ALPHA);
    if N >= 2 {
        let wide: bool = kani::any();
        if wide {
            let p: usize = kani::any();
            kani::assume(p < N - 1);
            b[p] = 0xC3;
            b[p + 1] = 0xA9;
        }
    }
    b
}

/// Reference shape predicate: `dddd-dd-dd[Tt ]dd:dd:dd(.d{1,9})?Z`
fn shape_ok(b: &[u8]) -> bool {
    let n = b.len();
    if n < 20 || n > 30 || n == 21 {
        return false;
    }
    let d = |i: usize| is_digit(b[i]);
    if !(d(0) && d(1) && d(2) && d(3) && b[4] == b'-' && d(5) && d(6) && b[7] == b'-' && d(8) && d(9)) {
        return false;
    }
    if !(b[10] == b'T' || b[10] == b't' || b[10] == b' ') {
        return false;
    }
    if !(d(11) && d(12) && b[13] == b':' && d(14) && d(15) && b[16] == b':' && d(17) && d(18)) {
        return false;
    }
    if b[n - 1] != b'Z' {
        return false;
    }
    if n > 20 {
        if b[19] != b'.' {
            return false;
        }
        let mut i = 20;
        while i < n - 1 {
            if !d(i) {
                return false;
            }
            i += 1;
        }
    }
    true
}

fn two(b: &[u8], i: usize) -> u8 {
    (b[i] - b'0') * 10 + (b[i + 1] - b'0')
}

fn expected_parts(b: &[u8]) -> Parts {
    let n = b.len();
    let years = (b[0] - b'0') as u16 * 1000 + (b[1] - b'0') as u16 * 100 + (b[2] - b'0') as u16 * 10 + (b[3] - b'0') as u16;
    let mut nanos: u32 = 0;
    let mut i = 20;
    let mut k = 0;
    while k < 9 {
        nanos *= 10;
        if i < n - 1 {
            nanos += (b[i] - b'0') as u32;
        }
        i += 1;
        k += 1;
    }
    Parts { years, months: two(b, 5), days: two(b, 8), hours: two(b, 11), minutes: two(b, 14), seconds: two(b, 17), nanos }
}

// ---- recording stub for from_parts ------------------------------------------------------

// NOTE: distinctive non-zero initialisers: kani-compiler may alias a zero-initialised `static mut` with a std
// constant of the same bytes (measured in hk_batcher); real start values are stored at harness start.
static mut REC_PARTS: Option<Parts> = Some(Parts { years: 0x5EE1, months: 0xA1, days: 0xA2, hours: 0xA3, minutes: 0xA4, seconds: 0xA5, nanos: 0x5EED_0001 });
static mut REC_CALLS: u32 = 0x5EED_0002;
static mut REC_ACCEPT: u32 = 0x5EED_0004;

fn rec_from_parts(parts: Parts) -> Option<Timestamp> {
    unsafe {
        REC_PARTS = Some(parts);
        REC_CALLS += 1;
        if REC_ACCEPT == 1 { Some(Timestamp::MIN) } else { None }
    }
}

/// (a) totality with the REAL calendar code: no panic / overflow / OOB for any text of N bytes.
macro_rules! ts_total {
    ($name:ident, $n:expr) => {
        #[kani::proof]
        #[kani::unwind(34)]
        pub fn $name() {
            let b: [u8; $n] = sym_text();
            let s = unsafe { core::str::from_utf8_unchecked(&b) };
            let r = Timestamp::try_from_str(s);
            if r.is_ok() {
                assert!(shape_ok(&b), "accepted text must have the RFC 3339 UTC shape");
            }
            kani::cover!(r.is_err(), "rejected");
            kani::cover!(b[5] == b'0' && b[6] == b'0' && shape_ok(&b), "opt:month 00 with valid shape");
            kani::cover!(r.is_ok(), "opt:accepted");
        }
    };
}

/// (b) shape + field extraction with `from_parts` replaced by a recorder.
macro_rules! ts_fields {
    ($name:ident, $n:expr) => {
        #[kani::proof]
        #[kani::unwind(34)]
        #[kani::stub(emit_core::timestamp::Timestamp::from_parts, rec_from_parts)]
        pub fn $name() {
            let b: [u8; $n] = sym_text();
            let accept: bool = kani::any();
            unsafe { REC_ACCEPT = accept as u32; REC_CALLS = 0; REC_PARTS = None; }
            let s = unsafe { core::str::from_utf8_unchecked(&b) };
            let r = Timestamp::try_from_str(s);
            let shape = shape_ok(&b);
            let calls = unsafe { REC_CALLS };
            if r.is_ok() {
                assert!(shape, "accepted text must have the RFC 3339 UTC shape");
                assert!(calls == 1);
            }
            if shape && b[10] == b'T' {
                // well-formed text: the parser must hand exactly the denoted fields to the calendar
                assert!(calls == 1, "well-formed text reaches the calendar conversion");
                let got = unsafe { REC_PARTS }.unwrap();
                let want = expected_parts(&b);
                assert!(got.years == want.years && got.months == want.months && got.days == want.days);
                assert!(got.hours == want.hours && got.minutes == want.minutes && got.seconds == want.seconds);
                assert!(got.nanos == want.nanos, "fraction digits are scaled to nanoseconds");
                assert!(r.is_ok() == accept, "verdict is the calendar's verdict");
            }
            if !shape {
                assert!(r.is_err(), "text departing from the shape is rejected");
            }
            kani::cover!(shape && r.is_ok(), "opt:well-formed accepted");
            kani::cover!(!shape, "malformed");
        }
    };
}

/// lengths outside 20..=30: always rejected, never panics (symbolic length up to 19, and 31/32)
#[kani::proof]
#[kani::unwind(34)]
pub fn c15_q_ts_total_short() {
    let b: [u8; 19] = sym_text();
    let n: usize = kani::any();
    kani::assume(n <= 19);
    // keep the slice on a character boundary
    kani::assume(n == 0 || n == 19 || !(b[n - 1] == 0xC3));
    let s = unsafe { core::str::from_utf8_unchecked(&b[..n]) };
    assert!(Timestamp::try_from_str(s).is_err());
    kani::cover!(n == 0, "empty");
    kani::cover!(n == 19, "len 19");
}

ts_total!(c15_q_ts_total_len20, 20);
ts_total!(c15_q_ts_total_len21, 21);
ts_total!(c15_q_ts_total_len22, 22);
ts_total!(c15_t_ts_total_len23, 23);
ts_total!(c15_t_ts_total_len26, 26);
ts_total!(c15_t_ts_total_len29, 29);
ts_total!(c15_q_ts_total_len30, 30);
ts_total!(c15_q_ts_total_len31, 31);
ts_total!(c15_t_ts_total_len32, 32);

ts_fields!(c15_q_ts_fields_len20, 20);
ts_fields!(c15_q_ts_fields_len21, 21);
ts_fields!(c15_q_ts_fields_len22, 22);
ts_fields!(c15_t_ts_fields_len23, 23);
ts_fields!(c15_t_ts_fields_len24, 24);
ts_fields!(c15_q_ts_fields_len25, 25);
ts_fields!(c15_t_ts_fields_len26, 26);
ts_fields!(c15_t_ts_fields_len27, 27);
ts_fields!(c15_t_ts_fields_len28, 28);
ts_fields!(c15_t_ts_fields_len29, 29);
ts_fields!(c15_q_ts_fields_len30, 30);

// ---- formatter -> parser round trip on calendar parts -------------------------------------

static mut STUB_PARTS: Parts = Parts { years: 0x5EE3, months: 0xB1, days: 0xB2, hours: 0xB3, minutes: 0xB4, seconds: 0xB5, nanos: 0x5EED_0003 };

fn stub_to_parts(_ts: &Timestamp) -> Parts {
    unsafe { STUB_PARTS }
}

fn sym_parts() -> Parts {
    let p = Parts {
        years: kani::any(), months: kani::any(), days: kani::any(), hours: kani::any(),
        minutes: kani::any(), seconds: kani::any(), nanos: kani::any(),
    };
    // ranges `to_parts` produces (decided for the real to_parts by the SMT engine)
    kani::assume(p.years >= 1970 && p.years <= 9999);
    kani::assume(p.months >= 1 && p.months <= 12);
    kani::assume(p.days >= 1 && p.days <= 31);
    kani::assume(p.hours <= 23 && p.minutes <= 59 && p.seconds <= 59);
    kani::assume(p.nanos <= 999_999_999);
    p
}

fn pow10(k: u32) -> u32 {
    let mut r = 1u32;
    let mut i = 0;
    while i < k { r *= 10; i += 1; }
    r
}

fn fmt_with_prec<const N: usize>(w: &mut Buf<N>, prec: usize) -> core::fmt::Result {
    if prec == 10 { write!(w, "{}", Timestamp::MIN) } else { write!(w, "{:.*}", prec, Timestamp::MIN) }
}

/// For every calendar reading (full nanosecond range) and every precision 0..=9 and none:
/// the formatted text has the documented shape and the fixed width 20 / 21+p, the parser accepts
/// it, and hands back the same date and time-of-day fields.
#[kani::proof]
#[kani::unwind(34)]
#[kani::stub(emit_core::timestamp::Timestamp::from_parts, rec_from_parts)]
#[kani::stub(emit_core::timestamp::Timestamp::to_parts, stub_to_parts)]
#[kani::stub(core::str::from_utf8, ascii_from_utf8)]
pub fn c15_q_ts_fmt_shape_roundtrip() {
    let p = sym_parts();
    unsafe { STUB_PARTS = p; REC_ACCEPT = 1; REC_CALLS = 0; REC_PARTS = None; }
    let prec: usize = kani::any();
    kani::assume(prec <= 10);
    let mut w = Buf::<40>::new();
    let r = fmt_with_prec(&mut w, prec);
    assert!(r.is_ok() && !w.overflow);
    let eff = if prec >= 9 { 9 } else { prec };
    let want_len = if eff == 0 { 20 } else { 21 + eff };
    assert!(w.n == want_len, "fixed width per precision");
    assert!(shape_ok(w.bytes()) && w.b[10] == b'T');
    let back = Timestamp::try_from_str(w.as_str());
    assert!(back.is_ok(), "the parser accepts the formatter's own output");
    let got = unsafe { REC_PARTS }.unwrap();
    assert!(got.years == p.years && got.months == p.months && got.days == p.days);
    assert!(got.hours == p.hours && got.minutes == p.minutes && got.seconds == p.seconds);
    kani::cover!(prec == 0, "precision 0");
    kani::cover!(prec == 10, "default precision");
    kani::cover!(prec == 3, "precision 3");
}

/// Sub-second round trip. Bound: the nanosecond value has at most `NDIG` non-zero decimal digits at symbolic
/// positions with symbolic values (the remaining digits are zero); every precision.
/// parse(format(t, p)) carries the fraction truncated to p digits.
fn nanos_roundtrip(ndig: usize) {
    const P10: [u32; 9] = [100_000_000, 10_000_000, 1_000_000, 100_000, 10_000, 1_000, 100, 10, 1];
    let mut dg = [0u8; 9];
    let mut j = 0;
    while j < 3 {
        if j < ndig {
            let k: usize = kani::any();
            let d: u8 = kani::any();
            kani::assume(k < 9 && d <= 9);
            dg[k] = d;
        }
        j += 1;
    }
    let mut nanos = 0u32;
    let mut i = 0;
    while i < 9 { nanos += dg[i] as u32 * P10[i]; i += 1; }
    let p = Parts { years: 2024, months: 2, days: 29, hours: 23, minutes: 59, seconds: 59, nanos };
    unsafe { STUB_PARTS = p; REC_ACCEPT = 1; REC_CALLS = 0; REC_PARTS = None; }
    let prec: usize = kani::any();
    kani::assume(prec <= 10);
    let mut w = Buf::<40>::new();
    let r = fmt_with_prec(&mut w, prec);
    assert!(r.is_ok());
    let eff = if prec >= 9 { 9 } else { prec };
    // the text shows exactly the leading `eff` digits
    let mut i = 0;
    while i < 9 {
        if i < eff { assert!(w.b[20 + i] == b'0' + dg[i], "fraction digit"); }
        i += 1;
    }
    let back = Timestamp::try_from_str(w.as_str());
    assert!(back.is_ok());
    let got = unsafe { REC_PARTS }.unwrap();
    let mut want = 0u32;
    let mut i = 0;
    while i < 9 { if i < eff { want += dg[i] as u32 * P10[i]; } i += 1; }
    assert!(got.nanos == want, "fraction truncated to the precision");
    kani::cover!(prec == 3 && nanos % 1_000_000 != 0, "truncating precision");
    kani::cover!(prec == 10 && nanos != 0, "default precision, non-zero fraction");
}

#[kani::proof]
#[kani::unwind(34)]
#[kani::stub(emit_core::timestamp::Timestamp::from_parts, rec_from_parts)]
#[kani::stub(emit_core::timestamp::Timestamp::to_parts, stub_to_parts)]
#[kani::stub(core::str::from_utf8, ascii_from_utf8)]
pub fn c15_q_ts_fmt_nanos_roundtrip_1digit() { nanos_roundtrip(1); }

#[kani::proof]
#[kani::unwind(34)]
#[kani::stub(emit_core::timestamp::Timestamp::from_parts, rec_from_parts)]
#[kani::stub(emit_core::timestamp::Timestamp::to_parts, stub_to_parts)]
#[kani::stub(core::str::from_utf8, ascii_from_utf8)]
pub fn c15_q_ts_fmt_nanos_roundtrip_2digits() { nanos_roundtrip(2); }

#[kani::proof]
#[kani::unwind(34)]
#[kani::stub(emit_core::timestamp::Timestamp::from_parts, rec_from_parts)]
#[kani::stub(emit_core::timestamp::Timestamp::to_parts, stub_to_parts)]
#[kani::stub(core::str::from_utf8, ascii_from_utf8)]
pub fn c15_t_ts_fmt_nanos_roundtrip_3digits() { nanos_roundtrip(3); }

/// Fixed-width digits: text order = parts order (with E2's monotonicity of to_parts this is
/// "formatted timestamps order as instants do"). Bound: nanos restricted as above (<= 2 digits).
#[kani::stub(emit_core::timestamp::Timestamp::to_parts, stub_to_parts)]
#[kani::stub(core::str::from_utf8, ascii_from_utf8)]
#[kani::proof]
#[kani::unwind(34)]
pub fn c15_q_ts_fmt_order() {
    fmt_order_body();
}

fn key(p: &Parts) -> (u16, u8, u8, u8, u8, u8, u32) {
    (p.years, p.months, p.days, p.hours, p.minutes, p.seconds, p.nanos)
}

fn sparse_nanos() -> u32 {
    const P10: [u32; 9] = [100_000_000, 10_000_000, 1_000_000, 100_000, 10_000, 1_000, 100, 10, 1];
    let k1: usize = kani::any();
    let k2: usize = kani::any();
    kani::assume(k1 < 9 && k2 < 9 && k1 != k2);
    let d1: u8 = kani::any();
    let d2: u8 = kani::any();
    kani::assume(d1 <= 9 && d2 <= 9);
    let mut nanos = 0u32;
    let mut i = 0;
    while i < 9 {
        if i == k1 { nanos += d1 as u32 * P10[i]; }
        if i == k2 { nanos += d2 as u32 * P10[i]; }
        i += 1;
    }
    nanos
}

fn fmt_order_body() {
    let mut p1 = sym_parts();
    let mut p2 = sym_parts();
    p1.nanos = sparse_nanos();
    p2.nanos = sparse_nanos();
    let mut w1 = Buf::<32>::new();
    let mut w2 = Buf::<32>::new();
    unsafe { STUB_PARTS = p1; }
    let _ = write!(w1, "{}", Timestamp::MIN);
    unsafe { STUB_PARTS = p2; }
    let _ = write!(w2, "{}", Timestamp::MIN);
    assert!(w1.n == 30 && w2.n == 30);
    // bytewise comparison
    let mut ord = core::cmp::Ordering::Equal;
    let mut i = 0;
    while i < 30 {
        if ord == core::cmp::Ordering::Equal {
            ord = w1.b[i].cmp(&w2.b[i]);
        }
        i += 1;
    }
    assert!(ord == key(&p1).cmp(&key(&p2)), "text order equals calendar order");
    kani::cover!(ord == core::cmp::Ordering::Less, "less");
    kani::cover!(ord == core::cmp::Ordering::Equal, "equal");
}

/// Mutant twin: claims a 19-byte text can be accepted; must FAIL (reachability witness that
/// the totality harness really reaches the accept path would be `cover`; this twin shows the
/// assertion machinery is live).
#[kani::proof]
#[kani::unwind(34)]
pub fn c15_w_ts_twin_rejects_all_len20() {
    let b: [u8; 20] = sym_text();
    let s = unsafe { core::str::from_utf8_unchecked(&b) };
    assert!(Timestamp::try_from_str(s).is_err());
}
