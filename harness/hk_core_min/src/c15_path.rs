//! C15 — module paths: `is_valid_path` accepts exactly `ident(::ident)*`; `Path::new*`
//! agree with it; `is_child_of` follows `::` boundaries.
use crate::util::*;
use emit_core::path::{is_valid_path, Path};

/// letters, underscore, digit, colon, blank, and U+00E9 (two bytes, placed together)
const ALPHA: [u8; 6] = *b"ab_1: ";

fn sym_path<const N: usize>() -> ([u8; N], usize) {
    let mut b: [u8; N] = sym_arr(&ALPHA);
    let n: usize = kani::any();
    kani::assume(n <= N);
    let wide: bool = kani::any();
    if wide {
        let p: usize = kani::any();
        kani::assume(n >= 2 && p < n - 1);
        b[p] = 0xC3;
        b[p + 1] = 0xA9;
    }
    (b, n)
}

fn letter(c: u8) -> bool { c == b'a' || c == b'b' || c == 0xC3 }
fn cont(c: u8) -> bool { letter(c) || c == b'_' || c == b'1' || c == 0xA9 }

/// Reference: returns (colons_ok, strict_ok).
/// colons_ok: every ':' is part of exactly one `::` that has a non-empty non-colon run on each side,
/// and no byte outside identifier characters occurs.
/// strict_ok: colons_ok and every segment starts with a letter.
fn reference(b: &[u8]) -> (bool, bool) {
    let n = b.len();
    if n == 0 { return (false, false); }
    let mut colons_ok = true;
    let mut strict = true;
    let mut i = 0;
    let mut at_start = true; // expecting the first byte of a segment
    while i < n {
        let c = b[i];
        if c == b':' {
            // must be exactly two colons, not at start, followed by a segment
            if at_start { colons_ok = false; }
            if !(i + 1 < n && b[i + 1] == b':') { colons_ok = false; }
            if i + 2 < n && b[i + 2] == b':' { colons_ok = false; }
            if i + 2 >= n { colons_ok = false; }
            i += 2;
            at_start = true;
            continue;
        }
        if !cont(c) { colons_ok = false; }
        if at_start && !letter(c) { strict = false; }
        at_start = false;
        i += 1;
    }
    (colons_ok, colons_ok && strict)
}

fn check<const N: usize>() {
    let (b, n) = sym_path::<N>();
    let s = unsafe { core::str::from_utf8_unchecked(&b[..n]) };
    let v = is_valid_path(s);
    let (colons_ok, strict_ok) = reference(&b[..n]);
    if v { assert!(colons_ok, "a valid path has only `::` separators between non-empty segments"); }
    if strict_ok { assert!(v, "identifiers joined by `::` are a valid path"); }
    assert!(Path::new_ref(s).is_ok() == v, "Path::new_ref agrees with is_valid_path");
    kani::cover!(v && n >= 4, "valid with separator");
    kani::cover!(!v && n >= 1, "invalid");
}

#[kani::proof]
#[kani::unwind(8)]
pub fn c15_q_path_valid_len5() { check::<5>(); }

#[kani::proof]
#[kani::unwind(10)]
pub fn c15_t_path_valid_len7() { check::<7>(); }

#[kani::proof]
#[kani::unwind(8)]
pub fn c15_w_path_twin_single_colon_valid() {
    // false claim: every string without blanks is valid
    let (b, n) = sym_path::<4>();
    let s = unsafe { core::str::from_utf8_unchecked(&b[..n]) };
    let mut blank = false;
    let mut i = 0;
    while i < n { if b[i] == b' ' { blank = true; } i += 1; }
    if !blank { assert!(is_valid_path(s)); }
}
