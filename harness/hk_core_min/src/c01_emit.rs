//! C01 — an event is emitted iff the effective filter accepts the fully built event (own props,
//! then ambient props; own extent or else the clock's reading); combinators behave as their
//! logical definition; erased and generic paths agree; emitting straight to a destination bypasses
//! filter, clock and ambient context.
use crate::rec::*;
use core::time::Duration;
use emit_core::and::And;
use emit_core::emitter::{self, Emitter, ErasedEmitter};
use emit_core::empty::Empty;
use emit_core::event::Event;
use emit_core::extent::Extent;
use emit_core::filter::{self, ErasedFilter, Filter};
use emit_core::or::Or;
use emit_core::path::Path;
use emit_core::runtime::Runtime;
use emit_core::template::Template;

struct Case {
    ext_kind: u8, // 0 none, 1 point, 2 range
    t0: emit_core::timestamp::Timestamp,
    t1: emit_core::timestamp::Timestamp,
    own: [(&'static str, i32); 2],
    n_own: usize,
    amb: [(&'static str, i32); 2],
    n_amb: usize,
    now: Option<emit_core::timestamp::Timestamp>,
}

fn sym_case() -> Case {
    let ext_kind: u8 = kani::any();
    kani::assume(ext_kind <= 2);
    let n_own: usize = kani::any();
    let n_amb: usize = kani::any();
    kani::assume(n_own <= 2 && n_amb <= 2);
    let has_now: bool = kani::any();
    Case {
        ext_kind,
        t0: sym_ts(),
        t1: sym_ts(),
        own: [(POOL[sym_key()], 10), (POOL[sym_key()], 11)],
        n_own,
        amb: [(POOL[sym_key()], 20), (POOL[sym_key()], 21)],
        n_amb,
        now: if has_now { Some(sym_ts()) } else { None },
    }
}

fn extent_of(c: &Case) -> Option<Extent> {
    match c.ext_kind {
        0 => None,
        1 => Some(Extent::point(c.t1)),
        _ => Some(Extent::range(c.t0..c.t1)),
    }
}

/// What every downstream component must see.
fn expected(c: &Case) -> Seen {
    let mut s = Seen::NONE;
    match c.ext_kind {
        0 => {
            if let Some(now) = c.now {
                s.has_extent = true;
                s.end = now.to_unix().as_secs();
            }
        }
        1 => { s.has_extent = true; s.end = c.t1.to_unix().as_secs(); }
        _ => {
            // Extent::range of a backwards/empty range is documented to be a point at the end... record what Extent says
            let x = Extent::range(c.t0..c.t1);
            s.has_extent = true;
            if let Some(r) = x.as_range() { s.is_range = true; s.start = r.start.to_unix().as_secs(); s.end = r.end.to_unix().as_secs(); }
            else { s.end = x.as_point().to_unix().as_secs(); }
        }
    }
    let mut i = 0;
    while i < 2 { if i < c.n_own { s.keys[s.n] = pool_idx(c.own[i].0); s.vals[s.n] = c.own[i].1; s.n += 1; } i += 1; }
    let mut i = 0;
    while i < 2 { if i < c.n_amb { s.keys[s.n] = pool_idx(c.amb[i].0); s.vals[s.n] = c.amb[i].1; s.n += 1; } i += 1; }
    s
}

fn same(a: &Seen, b: &Seen) -> bool {
    if !(a.has_extent == b.has_extent && a.is_range == b.is_range && a.start == b.start && a.end == b.end && a.n == b.n) { return false; }
    let mut i = 0;
    while i < 5 { if i < a.n && (a.keys[i] != b.keys[i] || a.vals[i] != b.vals[i]) { return false; } i += 1; }
    true
}

/// `emit_core::emit` / `Runtime::emit`: emitted exactly once iff the filter accepts; filter and
/// emitter see the same fully built event.
#[kani::proof]
#[kani::unwind(7)]
pub fn c01_q_runtime_emit_pipeline() {
    let c = sym_case();
    let verdict: bool = kani::any();
    let rt = Runtime::build(
        RecEmitter::new(),
        RecFilter::new(verdict),
        RecCtxt { props: c.amb, n: c.n_amb, calls: core::cell::Cell::new(0) },
        RecClock { now: c.now, calls: core::cell::Cell::new(0) },
        Empty,
    );
    let evt = Event::new(Path::new_raw("m"), Template::literal("t"), extent_of(&c), &c.own[..c.n_own]);
    let via_trait: bool = kani::any();
    if via_trait { Emitter::emit(&rt, &evt); } else { rt.emit(&evt); }
    let want = expected(&c);
    assert!(rt.filter().calls.get() == 1, "the runtime filter is evaluated exactly once");
    assert!(same(&rt.filter().seen.get(), &want), "the filter sees own props, then ambient props, own extent or the clock's");
    assert!(rt.emitter().calls.get() == if verdict { 1 } else { 0 }, "emitted exactly once iff accepted");
    if verdict { assert!(same(&rt.emitter().seen.get(), &want), "the destination sees exactly what the filter saw"); }
    if c.ext_kind != 0 { assert!(rt.clock().calls.get() == 0 || true); }
    kani::cover!(verdict && c.ext_kind == 0 && c.now.is_some() && c.n_own == 2 && c.n_amb == 2, "clock extent, full props");
    kani::cover!(!verdict, "rejected");
    kani::cover!(c.ext_kind == 2 && c.n_own >= 1 && c.n_amb >= 1 && pool_idx(c.own[0].0) == pool_idx(c.amb[0].0), "duplicate key own/ambient");
}

/// Emitting straight to the destination bypasses filter, clock and ambient context.
#[kani::proof]
#[kani::unwind(7)]
pub fn c01_q_direct_emit_bypasses() {
    let c = sym_case();
    let rt = Runtime::build(
        RecEmitter::new(),
        RecFilter::new(false),
        RecCtxt { props: c.amb, n: c.n_amb, calls: core::cell::Cell::new(0) },
        RecClock { now: c.now, calls: core::cell::Cell::new(0) },
        Empty,
    );
    let evt = Event::new(Path::new_raw("m"), Template::literal("t"), extent_of(&c), &c.own[..c.n_own]);
    rt.emitter().emit(&evt);
    assert!(rt.emitter().calls.get() == 1);
    assert!(rt.filter().calls.get() == 0 && rt.clock().calls.get() == 0 && rt.ctxt().calls.get() == 0);
    let s = rt.emitter().seen.get();
    assert!(s.n == c.n_own, "only the event's own properties");
    assert!(s.has_extent == (c.ext_kind != 0), "only the event's own extent");
    kani::cover!(c.ext_kind == 0 && c.now.is_some(), "clock would have had a reading");
}

// ---- combinator trees ------------------------------------------------------------------------
// Shapes are Rust types, so they are written out; inside a shape everything is symbolic.

fn ev() -> Event<'static, Empty> { Event::new(Path::new_raw("m"), Template::literal("t"), Empty, Empty) }

macro_rules! filter_tree {
    ($name:ident, $unw:expr, |$a:ident, $b:ident, $c:ident, $pa:ident, $pb:ident| $tree:expr, $model:expr, $evals:expr) => {
        #[kani::proof]
        #[kani::unwind($unw)]
        pub fn $name() {
            let va: bool = kani::any();
            let vb: bool = kani::any();
            let vc: bool = kani::any();
            let $pa: bool = kani::any();
            let $pb: bool = kani::any();
            let $a = RecFilter::new(va);
            let $b = RecFilter::new(vb);
            let $c = RecFilter::new(vc);
            let (got, got_erased) = {
                let tree = $tree;
                let g = tree.matches(ev());
                let calls = ($a.calls.get(), $b.calls.get(), $c.calls.get());
                let e: &dyn ErasedFilter = &tree;
                let ge = e.matches(ev());
                // the erased path evaluates the leaves the same way (second evaluation: counts double)
                assert!($a.calls.get() == 2 * calls.0 && $b.calls.get() == 2 * calls.1 && $c.calls.get() == 2 * calls.2,
                    "erased and generic paths evaluate the same leaves");
                (g, ge)
            };
            let model = $model;
            let evals = $evals;
            let want: bool = model(va, vb, vc, $pa, $pb);
            assert!(got == want, "composite filter equals its logical definition");
            assert!(got_erased == want, "type-erased path agrees");
            let (ea, eb, ec): (bool, bool, bool) = evals(va, vb, vc, $pa, $pb);
            assert!(($a.calls.get() == 2) == ea && ($b.calls.get() == 2) == eb && ($c.calls.get() == 2) == ec,
                "short-circuit: exactly the leaves the logical definition needs are evaluated, once");
            kani::cover!(want, "accepts");
            kani::cover!(!want, "rejects");
        }
    };
}

filter_tree!(c01_q_filter_and_or, 4, |a, b, c, pa, pb| And::new(&a, Or::new(&b, &c)),
    |a: bool, b: bool, c: bool, _pa, _pb| a && (b || c),
    |a: bool, b: bool, _c, _pa, _pb| (true, a, a && !b));
filter_tree!(c01_q_filter_or_and, 4, |a, b, c, pa, pb| Or::new(And::new(&a, &b), &c),
    |a: bool, b: bool, c: bool, _pa, _pb| (a && b) || c,
    |a: bool, b: bool, _c, _pa, _pb| (true, a, !(a && b)));
filter_tree!(c01_q_filter_option, 4, |a, b, c, pa, pb| And::new(if pa { Some(&a) } else { None }, Or::new(if pb { Some(&b) } else { None }, &c)),
    |a: bool, b: bool, c: bool, pa: bool, pb: bool| (!pa || a) && ((!pb || b) || c),
    |a: bool, b: bool, _c, pa: bool, pb: bool| (pa, (!pa || a) && pb, (!pa || a) && pb && !b));
filter_tree!(c01_q_filter_methods_dyn, 4, |a, b, c, pa, pb| (&a).and_when((&b as &dyn ErasedFilter).or_when(&c)),
    |a: bool, b: bool, c: bool, _pa, _pb| a && (b || c),
    |a: bool, b: bool, _c, _pa, _pb| (true, a, a && !b));
filter_tree!(c01_t_filter_nested3, 4, |a, b, c, pa, pb| Or::new(And::new(Or::new(&a, filter::from_fn(|_| false)), And::new(&b, filter::always())), And::new(&c, Empty)),
    |a: bool, b: bool, c: bool, _pa, _pb| (a && b) || c,
    |a: bool, b: bool, _c, _pa, _pb| (true, a, !(a && b)));

/// Emitter trees: every leaf receives the event exactly once (zero under an absent Option or a
/// rejecting filter wrapping); flush = conjunction, each And level halves the timeout; erased path agrees.
#[kani::proof]
#[kani::unwind(4)]
pub fn c01_q_emitter_tree() {
    let fa: bool = kani::any();
    let fb: bool = kani::any();
    let fc: bool = kani::any();
    let pb: bool = kani::any();
    let wrap_verdict: bool = kani::any();
    let a = RecEmitter::with_flush(fa);
    let b = RecEmitter::with_flush(fb);
    let c = RecEmitter::with_flush(fc);
    let wf = RecFilter::new(wrap_verdict);
    let erased: bool = kani::any();
    let secs: u64 = kani::any();
    kani::assume(secs <= 1 << 40);
    let timeout = Duration::new(secs, 0);
    let flushed;
    {
        let tree = (&a).and_to(And::new(if pb { Some(&b) } else { None }, emitter::wrap(&c, emitter::wrapping::from_filter(&wf))));
        if erased {
            let e: &dyn ErasedEmitter = &tree;
            e.emit(ev());
            flushed = e.blocking_flush(timeout);
        } else {
            tree.emit(ev());
            flushed = tree.blocking_flush(timeout);
        }
    }
    assert!(a.calls.get() == 1, "left leaf receives the event exactly once");
    assert!(b.calls.get() == if pb { 1 } else { 0 }, "absent optional destination receives nothing");
    assert!(wf.calls.get() == 1, "wrapping filter evaluated once");
    assert!(c.calls.get() == if wrap_verdict { 1 } else { 0 }, "filter-wrapped destination receives the event iff its filter accepts");
    // flush: every present leaf flushed once, result is the conjunction (absent Option flushes as true)
    assert!(a.flush_calls.get() == 1 && c.flush_calls.get() == 1 && b.flush_calls.get() == if pb { 1 } else { 0 });
    assert!(flushed == (fa && (!pb || fb) && fc), "flush is the conjunction of the leaves");
    assert!(a.flush_timeout.get() == timeout / 2, "each And level halves the timeout");
    assert!(c.flush_timeout.get() == timeout / 4);
    kani::cover!(flushed && pb && wrap_verdict, "all present, all flushed");
    kani::cover!(!flushed && erased, "flush fails through the erased path");
}

/// fn-pointer / FromFn destinations and filters: called exactly once with the event.
#[kani::proof]
#[kani::unwind(4)]
pub fn c01_q_from_fn_leaves() {
    let calls = core::cell::Cell::new(0u32);
    let fcalls = core::cell::Cell::new(0u32);
    let verdict: bool = kani::any();
    let em = emitter::from_fn(|evt| { calls.set(calls.get() + 1); assert!(evt.mdl() == &Path::new_raw("m")); });
    let fi = filter::from_fn(|evt| { fcalls.set(fcalls.get() + 1); assert!(evt.mdl() == &Path::new_raw("m")); verdict });
    emit_core::emit(&em, &fi, Empty, Empty, ev());
    assert!(fcalls.get() == 1);
    assert!(calls.get() == if verdict { 1 } else { 0 });
    assert!(em.blocking_flush(Duration::ZERO), "function emitters have nothing to flush");
    kani::cover!(verdict, "accepted");
}

#[kani::proof]
#[kani::unwind(7)]
pub fn c01_w_twin_emit_ignores_filter() {
    // false claim: the destination always receives the event
    let verdict: bool = kani::any();
    let rt = Runtime::build(RecEmitter::new(), RecFilter::new(verdict), Empty, Empty, Empty);
    rt.emit(ev());
    assert!(rt.emitter().calls.get() == 1);
}
