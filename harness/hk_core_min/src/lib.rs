#![allow(dead_code, unused_imports, unused_variables, unused_mut)]
//! Kani harnesses over `emit_core` built with no features.
//! Naming: `cNN_q_*` quick+thorough, `cNN_t_*` thorough only, `cNN_w_*` mutant twin (must FAIL).

pub mod util;
#[cfg(kani)]
pub mod c15_ts;
#[cfg(kani)]
pub mod c15_path;
#[cfg(kani)]
pub mod c16_tpl;
pub mod rec;
#[cfg(kani)]
pub mod c01_emit;
#[cfg(kani)]
pub mod c02_props;
