//! C18 — "the previous traceparent is restored whenever a span ... goes out of scope", with the REAL `ThreadLocalCtxt` as the
//! inner ambient context of `TraceparentCtxt`: ONE frame step from an arbitrary previous traceparent (none, or a pushed
//! header with either flag): pushing span ids (typed) makes (trace id, that span id) the current traceparent on enter, exit
//! restores the previous one (including "none"), and the SAME frame entered a second time (a future polled twice) shows its
//! traceparent again and restores again.
use emit::platform::thread_local_ctxt::{self as tlc, ThreadLocalCtxt};
use emit::span::{SpanCtxt, SpanId, TraceId};
use emit_core::ctxt::Ctxt;
use emit_core::value::Value;
use emit_traceparent::{TraceFlags, Traceparent, TraceparentCtxt};

pub fn trace_hex_unreachable<D: core::fmt::Display>(_hex: D) -> Result<TraceId, emit::span::ParseIdError> {
    panic!("text fallback of TraceId::from_value reached although the value is typed")
}
pub fn span_hex_unreachable<D: core::fmt::Display>(_hex: D) -> Result<SpanId, emit::span::ParseIdError> {
    panic!("text fallback of SpanId::from_value reached although the value is typed")
}
pub fn parse_unreachable<'v, T: core::str::FromStr>(_v: &Value<'v>) -> Option<T> where Value<'v>: Sized {
    panic!("text fallback Value::parse reached although the value is typed")
}
pub fn u128_from_value_unreachable<'v>(_v: Value<'v>) -> Option<u128> where Value<'v>: Sized {
    panic!("integer fallback of TraceId::from_value reached although the value is typed")
}
pub fn u64_from_value_unreachable<'v>(_v: Value<'v>) -> Option<u64> where Value<'v>: Sized {
    panic!("integer fallback of SpanId::from_value reached although the value is typed")
}

#[derive(Clone, Copy, PartialEq, Eq)]
struct Tp { trace: u128, span: u64, sampled: bool }

fn current() -> Tp {
    let tp = Traceparent::current();
    Tp { trace: tp.trace_id().map(|t| t.to_u128()).unwrap_or(0), span: tp.span_id().map(|s| s.to_u64()).unwrap_or(0), sampled: tp.trace_flags().is_sampled() }
}

fn frame_step(active: bool) {
    emit_core::verif_shim::set_iteration(0, false);
    unsafe { tlc::VERIF_THREAD = 0x5EED_0000_0000_0001; emit_traceparent::VERIF_THREAD = 0x5EED_0000_0000_0001; }
    let ctxt = TraceparentCtxt::new(ThreadLocalCtxt::new());
    let sampled: bool = kani::any();
    let (t, sp, new_sp) = (7u128, 9u64, 11u64);
    let step = || {
        let before = current();
        let props = SpanCtxt::new(TraceId::from_u128(t), if active { SpanId::from_u64(sp) } else { None }, SpanId::from_u64(new_sp));
        let mut frame = ctxt.open_push(props);
        assert!(current() == before, "creating a frame does not change the current traceparent");
        ctxt.enter(&mut frame);
        let cur = current();
        assert!(cur.trace == t && cur.span == new_sp, "inside the frame the traceparent names the trace and the innermost span");
        assert!(cur.sampled == (if active { sampled } else { true }), "the flag is inherited inside a trace; a new trace is sampled");
        ctxt.exit(&mut frame);
        assert!(current() == before, "the previous traceparent is restored when the frame is left");
        // the same frame entered a second time (a frame-wrapped future polled twice)
        ctxt.enter(&mut frame);
        assert!(current() == cur, "a re-entered frame makes its traceparent current again");
        ctxt.exit(&mut frame);
        assert!(current() == before, "and leaving it again restores the previous one");
        core::mem::forget(frame);
    };
    if active {
        Traceparent::new(TraceId::from_u128(t), SpanId::from_u64(sp), if sampled { TraceFlags::SAMPLED } else { TraceFlags::EMPTY }).push().call(step);
    } else {
        step();
    }
    assert!(current().trace == 0 && current().span == 0, "no traceparent outside any scope");
    kani::cover!(active || !sampled, "ran");
}

#[kani::proof]
#[kani::unwind(13)]
#[kani::stub(emit::span::TraceId::try_from_hex, trace_hex_unreachable)]
#[kani::stub(emit::span::SpanId::try_from_hex, span_hex_unreachable)]
#[kani::stub(emit_core::value::Value::parse, parse_unreachable)]
#[kani::stub(<u128 as emit_core::value::FromValue>::from_value, u128_from_value_unreachable)]
#[kani::stub(<u64 as emit_core::value::FromValue>::from_value, u64_from_value_unreachable)]
pub fn c18_x_tl_frame_step_new_trace() { frame_step(false); }

#[kani::proof]
#[kani::unwind(13)]
#[kani::stub(emit::span::TraceId::try_from_hex, trace_hex_unreachable)]
#[kani::stub(emit::span::SpanId::try_from_hex, span_hex_unreachable)]
#[kani::stub(emit_core::value::Value::parse, parse_unreachable)]
#[kani::stub(<u128 as emit_core::value::FromValue>::from_value, u128_from_value_unreachable)]
#[kani::stub(<u64 as emit_core::value::FromValue>::from_value, u64_from_value_unreachable)]
pub fn c18_x_tl_frame_step_in_trace() { frame_step(true); }
