#![allow(dead_code, unused_imports, unused_variables, unused_mut, static_mut_refs)]
//! Kani harnesses: `TraceparentCtxt<ThreadLocalCtxt>` (both thread-local shims).

#[path = "../../common/util.rs"]
pub mod util;
#[cfg(kani)]
pub mod c18_tl;
