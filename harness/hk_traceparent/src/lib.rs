#![allow(dead_code, unused_imports, unused_variables, unused_mut)]
//! Kani harnesses over `emit_traceparent`.

#[path = "../../common/util.rs"]
pub mod util;
#[path = "../../common/env.rs"]
pub mod env;
#[cfg(kani)]
pub mod c15_tp;
#[cfg(kani)]
pub mod c18_sampling;
