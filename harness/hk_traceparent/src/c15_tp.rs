//! C15 — traceparent headers and trace flags: total parsers, exact grammar, round trip.
use crate::util::*;
use core::fmt::Write as _;
use emit::span::{SpanId, TraceId};
use emit_traceparent::{TraceFlags, Traceparent};

fn hexval(b: u8) -> Option<u8> {
    if b >= b'0' && b <= b'9' { Some(b - b'0') }
    else if b >= b'a' && b <= b'f' { Some(b - b'a' + 10) }
    else if b >= b'A' && b <= b'F' { Some(b - b'A' + 10) }
    else { None }
}

pub fn stub_format(_args: core::fmt::Arguments<'_>) -> String { String::new() }

/// all 256 flag bytes: to_hex -> parse identity; the sampled bit
#[kani::proof]
#[kani::unwind(4)]
pub fn c15_q_trace_flags_all256() {
    let raw: u8 = kani::any();
    let f = TraceFlags::from_u8(raw);
    assert!(f.to_u8() == raw);
    assert!(f.is_sampled() == (raw & 1 == 1));
    let hex = f.to_hex();
    let back = TraceFlags::try_from_hex_slice(&hex);
    assert!(back.is_ok() && back.unwrap() == f);
    kani::cover!(raw == 0xff, "all bits");
}

/// any two bytes: accepted iff both are hex digits; value = the digits'
#[kani::proof]
#[kani::unwind(6)]
#[kani::stub(alloc::fmt::format, stub_format)]
pub fn c15_q_trace_flags_parse_any() {
    let b: [u8; 3] = kani::any();
    let n: usize = kani::any();
    kani::assume(n <= 3);
    let r = TraceFlags::try_from_hex_slice(&b[..n]);
    let want = if n == 2 { match (hexval(b[0]), hexval(b[1])) { (Some(h), Some(l)) => Some(h * 16 + l), _ => None } } else { None };
    assert!(r.as_ref().ok().map(|f| f.to_u8()) == want);
    core::mem::forget(r);
    kani::cover!(want.is_some(), "accepted");
    kani::cover!(n == 2 && want.is_none(), "non-hex");
    kani::cover!(n == 3, "wrong length");
}

/// every 55-byte string over all byte values: accepted iff version 00, separators in place, 32+16+2
/// hex digits; ids are None exactly when all-zero
#[kani::proof]
#[kani::unwind(57)]
#[kani::stub(alloc::fmt::format, stub_format)]
pub fn c15_q_traceparent_parse_any55() {
    let b: [u8; 55] = kani::any();
    let s = unsafe { core::str::from_utf8_unchecked(&b) };
    // keep the text ASCII so that it is valid UTF-8 (from_utf8_unchecked precondition)
    let mut i = 0;
    while i < 55 { kani::assume(b[i] < 0x80); i += 1; }
    let r = Traceparent::try_from_str(s);
    let mut shape = b[0] == b'0' && b[1] == b'0' && b[2] == b'-' && b[35] == b'-' && b[52] == b'-';
    let mut t: u128 = 0;
    let mut i = 3;
    while i < 35 { match hexval(b[i]) { Some(h) => t = (t << 4) | h as u128, None => shape = false } i += 1; }
    let mut sp: u64 = 0;
    let mut i = 36;
    while i < 52 { match hexval(b[i]) { Some(h) => sp = (sp << 4) | h as u64, None => shape = false } i += 1; }
    let fl = match (hexval(b[53]), hexval(b[54])) { (Some(h), Some(l)) => h * 16 + l, _ => { shape = false; 0 } };
    assert!(r.is_ok() == shape, "accepts exactly the version-00 55-byte grammar");
    if let Ok(tp) = &r {
        assert!(tp.trace_id().map(|x| x.to_u128()).unwrap_or(0) == t);
        assert!(tp.span_id().map(|x| x.to_u64()).unwrap_or(0) == sp);
        assert!(tp.trace_flags().to_u8() == fl);
    }
    core::mem::forget(r);
    kani::cover!(shape && t != 0 && sp != 0, "valid header");
    kani::cover!(shape && t == 0, "zero trace id");
    kani::cover!(!shape, "rejected");
}

/// lengths other than 55 are rejected (symbolic length 0..=57, ASCII bytes)
#[kani::proof]
#[kani::unwind(59)]
#[kani::stub(alloc::fmt::format, stub_format)]
pub fn c15_q_traceparent_wrong_len() {
    let b: [u8; 57] = kani::any();
    let n: usize = kani::any();
    kani::assume(n <= 57 && n != 55);
    let mut i = 0;
    while i < 57 { kani::assume(b[i] < 0x80); i += 1; }
    let s = unsafe { core::str::from_utf8_unchecked(&b[..n]) };
    let r = Traceparent::try_from_str(s);
    assert!(r.is_err());
    core::mem::forget(r);
    kani::cover!(n == 0, "empty");
    kani::cover!(n == 56, "one too long");
}

/// format -> parse identity for all field values (ids absent or any non-zero value, any flags)
#[kani::proof]
#[kani::unwind(57)]
#[kani::stub(core::str::from_utf8, ascii_from_utf8)]
#[kani::stub(alloc::fmt::format, stub_format)]
pub fn c15_q_traceparent_roundtrip() {
    let t: u128 = kani::any();
    let s: u64 = kani::any();
    let f: u8 = kani::any();
    let tp = Traceparent::new(TraceId::from_u128(t), SpanId::from_u64(s), TraceFlags::from_u8(f));
    let mut w = Buf::<60>::new();
    assert!(write!(w, "{}", tp).is_ok());
    assert!(w.n == 55, "a formatted traceparent is 55 bytes");
    let back = Traceparent::try_from_str(w.as_str());
    assert!(back.is_ok());
    let back = back.unwrap();
    assert!(back.trace_id().map(|x| x.to_u128()).unwrap_or(0) == t);
    assert!(back.span_id().map(|x| x.to_u64()).unwrap_or(0) == s);
    assert!(back.trace_flags().to_u8() == f);
    kani::cover!(t != 0 && s != 0, "valid ids");
    kani::cover!(t == 0 && s == 0, "empty ids");
}

#[kani::proof]
#[kani::unwind(57)]
#[kani::stub(alloc::fmt::format, stub_format)]
pub fn c15_w_twin_traceparent_any_version() {
    // false claim: the version field is not checked
    let b: [u8; 55] = kani::any();
    let mut i = 0;
    while i < 55 { kani::assume(b[i] < 0x80); i += 1; }
    kani::assume(b[2] == b'-' && b[35] == b'-' && b[52] == b'-');
    let mut i = 3;
    while i < 55 { if i != 35 && i != 52 { kani::assume(b[i] == b'1'); } i += 1; }
    kani::assume(hexval(b[0]).is_some() && hexval(b[1]).is_some());
    let s = unsafe { core::str::from_utf8_unchecked(&b) };
    let r = Traceparent::try_from_str(s);
    assert!(r.is_ok());
    core::mem::forget(r);
}
