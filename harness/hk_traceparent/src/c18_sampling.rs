//! C18 — with the trace-context runtime the sampler runs exactly once per NEW trace (at its root
//! span), never for children or for traces continued from an incoming traceparent; inside an
//! unsampled trace no span is emitted and the current traceparent reports unsampled; inside a sampled
//! trace the current traceparent is (trace id, innermost span id, sampled); the previous traceparent
//! is restored whenever a span or pushed header goes out of scope.
//! Inner ambient context: the array-backed harness context (the real ThreadLocalCtxt does not fit CBMC).
use crate::env::*;
use core::cell::Cell;
use emit::span::{completion, SpanCtxt, SpanGuard, SpanId, TraceId};
use emit::Frame;
use emit_core::empty::Empty;
use emit_core::filter::Filter;
use emit_core::path::Path;
use emit_traceparent::{in_sampled_trace_filter, TraceFlags, Traceparent, TraceparentCtxt, TraceparentFilter};

struct World<'a, S: Fn(&SpanCtxt) -> bool> {
    arr: &'a ArrCtxt,
    em: &'a RecEmitter,
    clock: &'a SeqClock,
    rng: &'a CountRng,
    filter: &'a TraceparentFilter<S>,
    spans: Cell<u32>,
}

#[derive(Clone, Copy, PartialEq, Eq)]
struct Tp { trace: u128, span: u64, sampled: bool, any: bool }

fn current() -> Tp {
    let tp = Traceparent::current();
    Tp { trace: tp.trace_id().map(|t| t.to_u128()).unwrap_or(0), span: tp.span_id().map(|s| s.to_u64()).unwrap_or(0),
         sampled: tp.trace_flags().is_sampled(), any: true }
}

/// One span node. `in_trace`: ghost = Some((trace id, sampled)) when inside a trace.
fn node<S: Fn(&SpanCtxt) -> bool>(w: &World<S>, depth: usize, in_trace: Option<(u128, bool)>, sampler_calls: &Cell<u32>, next_verdict: &Cell<bool>) {
    let before = current();
    let calls_before = sampler_calls.get();
    let verdict: bool = kani::any();
    next_verdict.set(verdict);
    let ctxt = TraceparentCtxt::new(w.arr);
    let next_id = w.rng.next.get();
    let em_before = w.em.calls.get();
    let (mut guard, frame) = SpanGuard::new(w.filter, &ctxt, w.clock, w.rng, completion::default(w.em, &ctxt), Empty, Path::new_raw("m"), "s", Empty);
    w.spans.set(w.spans.get() + 1);
    let (trace, sampled) = match in_trace {
        None => {
            assert!(sampler_calls.get() == calls_before + 1, "the sampler runs exactly once for a new trace, at its root span");
            // a fresh trace id is drawn first, then the span id
            (next_id as u128, verdict)
        }
        Some((t, s)) => {
            assert!(sampler_calls.get() == calls_before, "the sampler never runs for child spans or continued traces");
            (t, s)
        }
    };
    assert!(guard.is_enabled() == sampled, "spans of an unsampled trace are disabled, spans of a sampled trace enabled");
    assert!(current() == before, "creating a span does not change the current traceparent");
    frame.call(move || {
        guard.start();
        let cur = current();
        assert!(cur.sampled == sampled, "the current traceparent reports the trace's sampling decision");
        if sampled {
            let my_span = if in_trace.is_none() { next_id + 1 } else { next_id };
            assert!(cur.trace == trace && cur.span == my_span, "current traceparent = (trace id, innermost span id, sampled)");
        }
        assert!(in_sampled_trace_filter(false).matches(emit::Event::new(Path::new_raw("m"), emit::Template::literal("e"), Empty, Empty)) == sampled,
            "the sampled-trace filter passes events only inside a sampled trace");
        if depth > 0 {
            let kids: usize = kani::any();
            kani::assume(kids <= 2);
            let mut k = 0;
            while k < 2 {
                if k < kids { node(w, depth - 1, Some((trace, sampled)), sampler_calls, next_verdict); }
                k += 1;
            }
            assert!(current() == cur, "restored after each child");
        }
        drop(guard);
    });
    assert!(w.em.calls.get() >= em_before, "monotone");
    if !sampled { assert!(w.em.calls.get() == em_before, "inside an unsampled trace no span is emitted"); }
    assert!(current() == before, "the previous traceparent is restored when the span goes out of scope");
}

fn run(depth: usize, incoming: u8) {
    let arr = ArrCtxt::new();
    let em = RecEmitter::new();
    let clock = SeqClock { readings: [None; 4], calls: Cell::new(0) };
    let rng = CountRng::new(100);
    let sampler_calls = Cell::new(0u32);
    let next_verdict = Cell::new(false);
    let filter = TraceparentFilter::new_with_sampler(|_c: &SpanCtxt| { sampler_calls.set(sampler_calls.get() + 1); next_verdict.get() });
    let w = World { arr: &arr, em: &em, clock: &clock, rng: &rng, filter: &filter, spans: Cell::new(0) };
    let outside = current();
    assert!(outside.trace == 0 && outside.span == 0, "no trace context outside any span");
    match incoming {
        0 => node(&w, depth, None, &sampler_calls, &next_verdict),
        _ => {
            let flags: bool = kani::any();
            let tp = Traceparent::new(TraceId::from_u128(7), SpanId::from_u64(9), if flags { TraceFlags::SAMPLED } else { TraceFlags::EMPTY });
            tp.push().call(|| {
                let cur = current();
                assert!(cur.trace == 7 && cur.span == 9 && cur.sampled == flags, "a pushed header becomes the current traceparent");
                node(&w, depth, Some((7, flags)), &sampler_calls, &next_verdict);
                assert!(current() == cur);
            });
            assert!(sampler_calls.get() == 0, "a continued trace inherits the incoming flag; the sampler is not consulted");
        }
    }
    assert!(current() == outside, "restored after the outermost scope");
    assert!(same_view(&arr.view(), &[Val::None; 6]));
    kani::cover!(w.spans.get() >= 2, "a root and a child");
    kani::cover!(em.calls.get() >= 2, "opt:two spans emitted");
}

#[kani::proof]
#[kani::unwind(13)]
#[kani::stub(emit::span::TraceId::try_from_hex, trace_hex_unreachable)]
#[kani::stub(emit::span::SpanId::try_from_hex, span_hex_unreachable)]
#[kani::stub(emit_core::value::Value::parse, parse_unreachable)]
pub fn c18_x_new_trace_depth0() { run(0, 0); }

#[kani::proof]
#[kani::unwind(13)]
#[kani::stub(emit::span::TraceId::try_from_hex, trace_hex_unreachable)]
#[kani::stub(emit::span::SpanId::try_from_hex, span_hex_unreachable)]
#[kani::stub(emit_core::value::Value::parse, parse_unreachable)]
pub fn c18_x_new_trace_depth1() { run(1, 0); }

#[kani::proof]
#[kani::unwind(13)]
#[kani::stub(emit::span::TraceId::try_from_hex, trace_hex_unreachable)]
#[kani::stub(emit::span::SpanId::try_from_hex, span_hex_unreachable)]
#[kani::stub(emit_core::value::Value::parse, parse_unreachable)]
pub fn c18_x_continued_trace_depth1() { run(1, 1); }

#[kani::proof]
#[kani::unwind(13)]
#[kani::stub(emit::span::TraceId::try_from_hex, trace_hex_unreachable)]
#[kani::stub(emit::span::SpanId::try_from_hex, span_hex_unreachable)]
#[kani::stub(emit_core::value::Value::parse, parse_unreachable)]
pub fn c18_x_new_trace_depth2() { run(2, 0); }

/// the two harness "threads" have independent current traceparents
#[kani::proof]
#[kani::unwind(13)]
#[kani::stub(emit::span::TraceId::try_from_hex, trace_hex_unreachable)]
#[kani::stub(emit::span::SpanId::try_from_hex, span_hex_unreachable)]
#[kani::stub(emit_core::value::Value::parse, parse_unreachable)]
pub fn c18_q_other_thread_unaffected() {
    let tp = Traceparent::new(TraceId::from_u128(7), SpanId::from_u64(9), TraceFlags::SAMPLED);
    tp.push().call(|| {
        assert!(current().trace == 7);
        unsafe { emit_traceparent::VERIF_THREAD = 2; }
        let other = current();
        assert!(other.trace == 0 && other.span == 0, "nothing leaks to another thread");
        unsafe { emit_traceparent::VERIF_THREAD = 0x5EED_0000_0000_0001; }
        assert!(current().trace == 7);
    });
    assert!(current().trace == 0);
    kani::cover!(true, "ran");
}

/// Mutant twin (cheap: same shape as `c18_q_other_thread_unaffected`): FALSE claim "a pushed traceparent is visible on the other
/// harness thread" - must FAIL.
#[kani::proof]
#[kani::unwind(13)]
#[kani::stub(emit::span::TraceId::try_from_hex, trace_hex_unreachable)]
#[kani::stub(emit::span::SpanId::try_from_hex, span_hex_unreachable)]
#[kani::stub(emit_core::value::Value::parse, parse_unreachable)]
pub fn c18_w_twin_traceparent_leaks_to_other_thread() {
    let tp = Traceparent::new(TraceId::from_u128(7), SpanId::from_u64(9), TraceFlags::SAMPLED);
    tp.push().call(|| {
        unsafe { emit_traceparent::VERIF_THREAD = 2; }
        let other = current();
        unsafe { emit_traceparent::VERIF_THREAD = 0x5EED_0000_0000_0001; }
        assert!(other.trace == 7, "FALSE: the other thread sees the pushed traceparent");
    });
}

/// NOT REGISTERED (`_x_`): as a twin it must run to a FAILED verdict, and the span event through the sampling filter in the std
/// build did not get there within 4000 s in the measured thorough run (9.5 GB).
#[kani::proof]
#[kani::unwind(13)]
#[kani::stub(emit::span::TraceId::try_from_hex, trace_hex_unreachable)]
#[kani::stub(emit::span::SpanId::try_from_hex, span_hex_unreachable)]
#[kani::stub(emit_core::value::Value::parse, parse_unreachable)]
pub fn c18_x_twin_sampler_runs_for_children() {
    // false claim: the sampler is consulted for a child span inside an active trace
    let calls = Cell::new(0u32);
    let filter = TraceparentFilter::new_with_sampler(|_c: &SpanCtxt| { calls.set(calls.get() + 1); true });
    let span_ctxt = SpanCtxt::new(TraceId::from_u128(7), SpanId::from_u64(9), SpanId::from_u64(11));
    Traceparent::new(TraceId::from_u128(7), SpanId::from_u64(9), TraceFlags::SAMPLED).push().call(|| {
        let evt = emit::Span::new(Path::new_raw("m"), "s", Empty, span_ctxt);
        let _ = filter.matches(&evt);
    });
    assert!(calls.get() == 1);
}

// ---- one-step kernels (whole span trees over the std build are slow: see the _t_ harnesses) ----------

/// The sampling filter on ONE span event, from an arbitrary current traceparent: the sampler is
/// consulted exactly once iff there is no valid current traceparent (a new trace); for a child span or a
/// continued trace the flag is inherited and the sampler never runs; the verdict is the sampled flag.
#[kani::proof]
#[kani::unwind(13)]
#[kani::stub(emit::span::TraceId::try_from_hex, trace_hex_unreachable)]
#[kani::stub(emit::span::SpanId::try_from_hex, span_hex_unreachable)]
#[kani::stub(emit_core::value::Value::parse, parse_unreachable)]
#[kani::stub(<u128 as emit_core::value::FromValue>::from_value, u128_from_value_unreachable)]
#[kani::stub(<u64 as emit_core::value::FromValue>::from_value, u64_from_value_unreachable)]
pub fn c18_q_filter_step_new_trace() { filter_step(false); }

/// (continued) the same step inside an active traceparent: child span or continued trace
#[kani::proof]
#[kani::unwind(13)]
#[kani::stub(emit::span::TraceId::try_from_hex, trace_hex_unreachable)]
#[kani::stub(emit::span::SpanId::try_from_hex, span_hex_unreachable)]
#[kani::stub(emit_core::value::Value::parse, parse_unreachable)]
#[kani::stub(<u128 as emit_core::value::FromValue>::from_value, u128_from_value_unreachable)]
#[kani::stub(<u64 as emit_core::value::FromValue>::from_value, u64_from_value_unreachable)]
pub fn c18_q_filter_step_in_trace() { filter_step(true); }

fn filter_step(active: bool) {
    let calls = Cell::new(0u32);
    let verdict: bool = kani::any();
    let filter = TraceparentFilter::new_with_sampler(|_c: &SpanCtxt| { calls.set(calls.get() + 1); verdict });
    let sampled: bool = kani::any();
    // concrete ids: the sampling logic does not depend on their values
    let (t, sp, new_sp) = (7u128, 9u64, 11u64);
    let span_ctxt = SpanCtxt::new(TraceId::from_u128(t), if active { SpanId::from_u64(sp) } else { None }, SpanId::from_u64(new_sp));
    let check = || {
        let evt = emit::Span::new(Path::new_raw("m"), "s", Empty, span_ctxt);
        let got = filter.matches(&evt);
        if active {
            assert!(calls.get() == 0, "the sampler never runs for child spans or continued traces");
            assert!(got == sampled, "the incoming / parent flag is inherited");
        } else {
            assert!(calls.get() == 1, "the sampler runs exactly once for a new trace, at its root span");
            assert!(got == verdict);
        }
    };
    if active {
        Traceparent::new(TraceId::from_u128(t), SpanId::from_u64(sp), if sampled { TraceFlags::SAMPLED } else { TraceFlags::EMPTY }).push().call(check);
    } else {
        check();
    }
    kani::cover!(!sampled, "unsampled flag");
    kani::cover!(verdict, "sampler says yes");
}

/// NOT REGISTERED (`c18_x_*`): no verdict in 700-900 s even with every choice concrete (std build; `ActiveTraceparent`
/// holds a `Tracestate(Str)` that is cloned and dropped on every access: Arc/Box drop glue). The trace-context Ctxt on
/// ONE frame, from an arbitrary current traceparent: pushing span ids makes
/// (trace id, that span id, inherited flag) current inside the frame, a disabled frame reports
/// unsampled, and leaving the frame restores the previous traceparent; ambient props expose the ids
/// only when sampled.
#[kani::proof]
#[kani::unwind(13)]
#[kani::stub(emit::span::TraceId::try_from_hex, trace_hex_unreachable)]
#[kani::stub(emit::span::SpanId::try_from_hex, span_hex_unreachable)]
#[kani::stub(emit_core::value::Value::parse, parse_unreachable)]
#[kani::stub(<u128 as emit_core::value::FromValue>::from_value, u128_from_value_unreachable)]
#[kani::stub(<u64 as emit_core::value::FromValue>::from_value, u64_from_value_unreachable)]
pub fn c18_x_ctxt_frame_step_symbolic() { ctxt_frame_step(2, 2); }

fn ctxt_frame_step(active_c: u8, disabled_c: u8) {
    let arr = ArrCtxt::new();
    let ctxt = TraceparentCtxt::new(&arr);
    let active: bool = if active_c < 2 { active_c == 1 } else { kani::any() };
    let sampled: bool = kani::any();
    let (t, sp, new_sp) = (7u128, 9u64, 11u64);
    let disabled: bool = if disabled_c < 2 { disabled_c == 1 } else { kani::any() };
    let step = || {
        let before = current();
        let props = SpanCtxt::new(TraceId::from_u128(t), if active { SpanId::from_u64(sp) } else { None }, SpanId::from_u64(new_sp));
        let frame = if disabled { Frame::disabled(&ctxt, props) } else { Frame::push(&ctxt, props) };
        assert!(current() == before, "creating a frame does not change the current traceparent");
        frame.call(|| {
            let cur = current();
            let want_sampled = !disabled && (if active { sampled } else { true });
            assert!(cur.trace == t && cur.span == new_sp, "inside the frame the traceparent names the trace and the innermost span");
            assert!(cur.sampled == want_sampled, "flag inherited; a disabled frame is unsampled");
            let seen = SpanCtxt::current(&ctxt);
            if want_sampled {
                assert!(seen.trace_id().map(|x| x.to_u128()) == Some(t) && seen.span_id().map(|x| x.to_u64()) == Some(new_sp));
                assert!(seen.span_parent().map(|x| x.to_u64()) == if active { Some(sp) } else { None });
            } else {
                assert!(seen.span_id().is_none(), "inside an unsampled trace no ids are ambient");
            }
        });
        assert!(current() == before, "the previous traceparent is restored");
    };
    if active {
        Traceparent::new(TraceId::from_u128(t), SpanId::from_u64(sp), if sampled { TraceFlags::SAMPLED } else { TraceFlags::EMPTY }).push().call(step);
    } else {
        step();
    }
    assert!(current().trace == 0);
    kani::cover!(active && sampled && !disabled, "opt:child frame in a sampled trace");
    kani::cover!(disabled, "opt:disabled frame");
    kani::cover!(true, "ran");
}


/// The same step for a runtime WITHOUT a sampler (`TraceparentFilter::new()`): new traces are sampled; inside a
/// trace the incoming / parent flag is inherited, so inside an unsampled trace no span is emitted.
#[kani::proof]
#[kani::unwind(13)]
#[kani::stub(emit::span::TraceId::try_from_hex, trace_hex_unreachable)]
#[kani::stub(emit::span::SpanId::try_from_hex, span_hex_unreachable)]
#[kani::stub(emit_core::value::Value::parse, parse_unreachable)]
#[kani::stub(<u128 as emit_core::value::FromValue>::from_value, u128_from_value_unreachable)]
#[kani::stub(<u64 as emit_core::value::FromValue>::from_value, u64_from_value_unreachable)]
pub fn c18_q_filter_step_no_sampler() {
    let filter = TraceparentFilter::new();
    let active: bool = kani::any();
    let sampled: bool = kani::any();
    let (t, sp, new_sp) = (7u128, 9u64, 11u64);
    let span_ctxt = SpanCtxt::new(TraceId::from_u128(t), if active { SpanId::from_u64(sp) } else { None }, SpanId::from_u64(new_sp));
    let check = || {
        let evt = emit::Span::new(Path::new_raw("m"), "s", Empty, span_ctxt);
        let got = filter.matches(&evt);
        if active { assert!(got == sampled, "the incoming / parent flag is inherited (also without a sampler)"); }
        else { assert!(got, "without a sampler every new trace is sampled"); }
    };
    if active {
        Traceparent::new(TraceId::from_u128(t), SpanId::from_u64(sp), if sampled { TraceFlags::SAMPLED } else { TraceFlags::EMPTY }).push().call(check);
    } else {
        check();
    }
    kani::cover!(active && !sampled, "inside an unsampled trace");
    kani::cover!(!active, "new trace");
}

#[kani::proof]
#[kani::unwind(13)]
#[kani::stub(emit::span::TraceId::try_from_hex, trace_hex_unreachable)]
#[kani::stub(emit::span::SpanId::try_from_hex, span_hex_unreachable)]
#[kani::stub(emit_core::value::Value::parse, parse_unreachable)]
#[kani::stub(<u128 as emit_core::value::FromValue>::from_value, u128_from_value_unreachable)]
#[kani::stub(<u64 as emit_core::value::FromValue>::from_value, u64_from_value_unreachable)]
pub fn c18_x_ctxt_frame_new_trace() { ctxt_frame_step(0, 0); }

#[kani::proof]
#[kani::unwind(13)]
#[kani::stub(emit::span::TraceId::try_from_hex, trace_hex_unreachable)]
#[kani::stub(emit::span::SpanId::try_from_hex, span_hex_unreachable)]
#[kani::stub(emit_core::value::Value::parse, parse_unreachable)]
#[kani::stub(<u128 as emit_core::value::FromValue>::from_value, u128_from_value_unreachable)]
#[kani::stub(<u64 as emit_core::value::FromValue>::from_value, u64_from_value_unreachable)]
pub fn c18_x_ctxt_frame_in_trace() { ctxt_frame_step(1, 0); }

#[kani::proof]
#[kani::unwind(13)]
#[kani::stub(emit::span::TraceId::try_from_hex, trace_hex_unreachable)]
#[kani::stub(emit::span::SpanId::try_from_hex, span_hex_unreachable)]
#[kani::stub(emit_core::value::Value::parse, parse_unreachable)]
#[kani::stub(<u128 as emit_core::value::FromValue>::from_value, u128_from_value_unreachable)]
#[kani::stub(<u64 as emit_core::value::FromValue>::from_value, u64_from_value_unreachable)]
pub fn c18_x_ctxt_frame_disabled() { ctxt_frame_step(1, 1); }
