#![allow(dead_code, unused_imports, unused_variables, unused_mut)]
//! Kani harnesses over `emit` (no features) with a harness-controlled `is_panicking()`.

#[cfg(kani)]
pub mod c05_panic;
