//! C05 - completion while a panic is unwinding (no_std build with a harness-controlled `is_panicking()`, see
//! stubs/panicking_nostd.toml): the span event carries an error and the PANIC level
//! (the configured `panic_lvl`, else error), otherwise the configured level; through the hook the span macros
//! expand to (`__private_complete_span`) and through `completion::Default` directly. The flag is drawn by the harness (Kani has no
//! unwinding); the unwinder itself is trusted.
use core::cell::Cell;
use emit::span::completion::{self, Completion};
use emit::span::Span;
use emit::Level;
use emit_core::emitter::Emitter;
use emit_core::empty::Empty;
use emit_core::event::ToEvent;
use emit_core::path::Path;
use emit_core::props::Props;
use emit_core::runtime::Runtime;


const LEVELS: [Level; 4] = [Level::Debug, Level::Info, Level::Warn, Level::Error];

struct LvlEmitter { calls: Cell<u32>, lvl: Cell<Option<Level>>, has_err: Cell<bool> }
impl Emitter for LvlEmitter {
    fn emit<E: ToEvent>(&self, evt: E) {
        let evt = evt.to_event();
        self.calls.set(self.calls.get() + 1);
        self.lvl.set(evt.props().get("lvl").and_then(|v| v.downcast_ref::<Level>().copied()));
        self.has_err.set(evt.props().get("err").is_some());
    }
    fn blocking_flush(&self, _: core::time::Duration) -> bool { true }
}

fn body(via_hook: bool) {
    let panicking: bool = kani::any();
    unsafe { emit::span::VERIF_PANICKING = panicking as u32; }
    // presence of each level symbolic, the values fixed (info / warn): keeps the trace-producing replay run in memory
    let l: Option<Level> = if kani::any() { Some(Level::Info) } else { None };
    let pl: Option<Level> = if kani::any() { Some(Level::Warn) } else { None };
    let em = LvlEmitter { calls: Cell::new(0), lvl: Cell::new(None), has_err: Cell::new(false) };
    let rt = Runtime::build(&em, Empty, Empty, Empty, Empty);
    let span = Span::new(Path::new_raw("m"), "s", Empty, Empty);
    if via_hook {
        let c = emit::__private::__private_complete_span(&rt, emit::Template::literal("s"), l.as_ref(), pl.as_ref());
        c.complete(span);
    } else {
        let mut c = completion::Default::new(&em, Empty);
        if let Some(l) = l { c = c.with_lvl(l); }
        if let Some(pl) = pl { c = c.with_panic_lvl(pl); }
        c.complete(span);
    }
    assert!(em.calls.get() == 1, "exactly one span event");
    if panicking {
        assert!(em.has_err.get(), "panic unwinding adds an error");
        assert!(em.lvl.get() == Some(pl.unwrap_or(Level::Error)), "... and the panic level (configured, else error)");
    } else {
        assert!(!em.has_err.get());
        assert!(em.lvl.get() == l, "otherwise the configured level, if any");
    }
    kani::cover!(panicking && l.is_some() && pl.is_some(), "levelled span with panic_lvl, panicking");
    kani::cover!(!panicking && l.is_none(), "plain completion");
}

/// through the hook the span macros expand to
#[kani::proof]
#[kani::unwind(8)]
pub fn c05_q_macro_hook_panic_level() { body(true); }

/// through `completion::Default` directly
#[kani::proof]
#[kani::unwind(8)]
pub fn c05_q_default_completion_panic_level() { body(false); }
