//! C05 - completion while a panic is unwinding (no_std build with a harness-controlled `is_panicking()`, see
//! stubs/panicking_nostd.toml): the span event carries an error and the PANIC level
//! (the configured `panic_lvl`, else error), otherwise the configured level; through the hook the span macros
//! expand to (`__private_complete_span`) and through `completion::Default` directly. The flag is drawn by the harness (Kani has no
//! unwinding); the unwinder itself is trusted.
use core::cell::Cell;
use emit::span::completion::{self, Completion};
use emit::span::Span;
use emit::Level;
use emit_core::emitter::Emitter;
use emit_core::empty::Empty;
use emit_core::event::ToEvent;
use emit_core::path::Path;
use emit_core::props::Props;
use emit_core::runtime::Runtime;


const LEVELS: [Level; 4] = [Level::Debug, Level::Info, Level::Warn, Level::Error];

struct LvlEmitter { calls: Cell<u32>, lvl: Cell<Option<Level>>, has_err: Cell<bool> }
impl Emitter for LvlEmitter {
    fn emit<E: ToEvent>(&self, evt: E) {
        let evt = evt.to_event();
        self.calls.set(self.calls.get() + 1);
        self.lvl.set(evt.props().get("lvl").and_then(|v| v.downcast_ref::<Level>().copied()));
        self.has_err.set(evt.props().get("err").is_some());
    }
    fn blocking_flush(&self, _: core::time::Duration) -> bool { true }
}

fn sym_lvl() -> Option<usize> {
    if kani::any() { let k: usize = kani::any(); kani::assume(k < 4); Some(k) } else { None }
}

#[kani::proof]
#[kani::unwind(8)]
pub fn c05_q_macro_hook_panic_level() {
    let panicking: bool = kani::any();
    unsafe { emit::span::VERIF_PANICKING = panicking as u32; }
    let lvl = sym_lvl();
    let panic_lvl = sym_lvl();
    let em = LvlEmitter { calls: Cell::new(0), lvl: Cell::new(None), has_err: Cell::new(false) };
    let rt = Runtime::build(&em, Empty, Empty, Empty, Empty);
    let l = lvl.map(|k| LEVELS[k]);
    let pl = panic_lvl.map(|k| LEVELS[k]);
    let via_hook: bool = kani::any();
    let span = Span::new(Path::new_raw("m"), "s", Empty, Empty);
    if via_hook {
        let c = emit::__private::__private_complete_span(&rt, emit::Template::literal("s"), l.as_ref(), pl.as_ref());
        c.complete(span);
    } else {
        let mut c = completion::Default::new(&em, Empty);
        if let Some(l) = l { c = c.with_lvl(l); }
        if let Some(pl) = pl { c = c.with_panic_lvl(pl); }
        c.complete(span);
    }
    assert!(em.calls.get() == 1, "exactly one span event");
    if panicking {
        assert!(em.has_err.get(), "panic unwinding adds an error");
        assert!(em.lvl.get() == Some(pl.unwrap_or(Level::Error)), "... and the panic level (configured, else error)");
    } else {
        assert!(!em.has_err.get());
        assert!(em.lvl.get() == l, "otherwise the configured level, if any");
    }
    kani::cover!(panicking && lvl.is_some() && panic_lvl.is_some() && via_hook, "levelled span macro with panic_lvl, panicking");
    kani::cover!(!panicking && lvl.is_none(), "plain completion");
}

