//! C03 (unwinding clause, std build) — leaving a frame while a panic is unwinding restores what was
//! visible before, like any other exit. Kani replaces unwinding by abort, so the code that RUNS during
//! unwinding (`EnterGuard::drop`, and through it `Frame::call` / `with` / `FrameFuture::poll`) is executed
//! on the normal path with `std::thread::panicking()` replaced by a symbolic boolean; the unwinder
//! itself is trusted.
use crate::env::*;
use core::future::Future;
use core::pin::Pin;
use core::task::{Context, Poll, Waker};
use emit::Frame;

pub fn sym_panicking() -> bool { kani::any() }

struct Ready;
impl Future for Ready {
    type Output = ();
    fn poll(self: Pin<&mut Self>, _: &mut Context<'_>) -> Poll<()> { Poll::Ready(()) }
}

/// Counting context without any property traffic (in the std build every `Value` drags Arc drop glue
/// through CBMC): the ambient "view" is just the nesting depth.
pub struct CountCtxt { pub depth: core::cell::Cell<i32>, pub enters: core::cell::Cell<u32>, pub exits: core::cell::Cell<u32> }
impl emit_core::ctxt::Ctxt for CountCtxt {
    type Current = emit_core::empty::Empty;
    type Frame = ();
    fn open_root<P: emit_core::props::Props>(&self, _: P) -> Self::Frame {}
    fn enter(&self, _: &mut Self::Frame) { self.enters.set(self.enters.get() + 1); self.depth.set(self.depth.get() + 1); }
    fn with_current<R, F: FnOnce(&Self::Current) -> R>(&self, with: F) -> R { with(&emit_core::empty::Empty) }
    fn exit(&self, _: &mut Self::Frame) { self.exits.set(self.exits.get() + 1); self.depth.set(self.depth.get() - 1); }
    fn close(&self, _: Self::Frame) {}
}

#[kani::proof]
#[kani::unwind(4)]
#[kani::stub(std::thread::panicking, sym_panicking)]
pub fn c03_q_exit_while_panicking() {
    let ctxt = CountCtxt { depth: core::cell::Cell::new(0), enters: core::cell::Cell::new(0), exits: core::cell::Cell::new(0) };
    let api: u8 = kani::any();
    kani::assume(api <= 3);
    let mut frame = Frame::push(&ctxt, emit_core::empty::Empty);
    match api {
        0 => { let g = frame.enter(); assert!(ctxt.depth.get() == 1); drop(g); }
        1 => frame.call(|| { assert!(ctxt.depth.get() == 1); }),
        2 => { frame.with(|_| ()); }
        _ => {
            let mut fut = frame.in_future(Ready);
            let mut cx = Context::from_waker(Waker::noop());
            let _ = unsafe { Pin::new_unchecked(&mut fut) }.poll(&mut cx);
        }
    }
    assert!(ctxt.depth.get() == 0, "leaving a frame restores what was visible before, also while a panic is unwinding");
    assert!(ctxt.enters.get() == 1 && ctxt.exits.get() == 1, "every enter is matched by an exit");
    kani::cover!(api == 3, "future poll");
}
