//! C03 (unwinding clause, std build) — leaving a frame while a panic is unwinding restores what was
//! visible before, like any other exit. Kani replaces unwinding by abort, so the code that RUNS during
//! unwinding (`EnterGuard::drop`, and through it `Frame::call` / `with` / `FrameFuture::poll`) is executed
//! on the normal path with `std::thread::panicking()` replaced by a symbolic boolean; the unwinder
//! itself is trusted.
use crate::env::*;
use core::future::Future;
use core::pin::Pin;
use core::task::{Context, Poll, Waker};
use emit::Frame;

/// The "are we unwinding" flag is drawn by the HARNESS (so that concrete playback stays in step) and read
/// by the stub. (distinctive non-zero initialiser, see env.rs)
static mut PANICKING: u32 = 0x5EED_0021;
pub fn sym_panicking() -> bool { unsafe { PANICKING == 1 } }

struct Ready;
impl Future for Ready {
    type Output = ();
    fn poll(self: Pin<&mut Self>, _: &mut Context<'_>) -> Poll<()> { Poll::Ready(()) }
}

/// Counting context without any property traffic (in the std build every `Value` drags Arc drop glue
/// through CBMC): the ambient "view" is just the nesting depth.
pub struct CountCtxt { pub depth: core::cell::Cell<i32>, pub enters: core::cell::Cell<u32>, pub exits: core::cell::Cell<u32> }
impl emit_core::ctxt::Ctxt for CountCtxt {
    type Current = emit_core::empty::Empty;
    type Frame = ();
    fn open_root<P: emit_core::props::Props>(&self, _: P) -> Self::Frame {}
    fn enter(&self, _: &mut Self::Frame) { self.enters.set(self.enters.get() + 1); self.depth.set(self.depth.get() + 1); }
    fn with_current<R, F: FnOnce(&Self::Current) -> R>(&self, with: F) -> R { with(&emit_core::empty::Empty) }
    fn exit(&self, _: &mut Self::Frame) { self.exits.set(self.exits.get() + 1); self.depth.set(self.depth.get() - 1); }
    fn close(&self, _: Self::Frame) {}
}

#[kani::proof]
#[kani::unwind(4)]
#[kani::stub(std::thread::panicking, sym_panicking)]
pub fn c03c04_q_exit_while_panicking() {
    let ctxt = CountCtxt { depth: core::cell::Cell::new(0), enters: core::cell::Cell::new(0), exits: core::cell::Cell::new(0) };
    let panicking: bool = kani::any();
    let api: u8 = kani::any();
    kani::assume(api <= 3);
    unsafe { PANICKING = panicking as u32; }
    // Under Kani (no unwinding) the frame is left on the normal path while `thread::panicking()` reports
    // `panicking`; in the NATIVE replay (cfg(test)) a real panic unwinds through the entered frame when `panicking` is set.
    let boom = || { if cfg!(test) && panicking { panic!("replay: unwinding through an entered frame"); } };
    let run = || {
        let mut frame = Frame::push(&ctxt, emit_core::empty::Empty);
        match api {
            0 => { let g = frame.enter(); assert!(ctxt.depth.get() == 1); boom(); drop(g); }
            1 => frame.call(|| { assert!(ctxt.depth.get() == 1); boom(); }),
            2 => { frame.with(|_| boom()); }
            _ => {
                struct Boom<F: Fn()>(F);
                impl<F: Fn()> Future for Boom<F> {
                    type Output = ();
                    fn poll(self: Pin<&mut Self>, _: &mut Context<'_>) -> Poll<()> { (self.0)(); Poll::Ready(()) }
                }
                let mut fut = frame.in_future(Boom(&boom));
                let mut cx = Context::from_waker(Waker::noop());
                let _ = unsafe { Pin::new_unchecked(&mut fut) }.poll(&mut cx);
            }
        }
    };
    // `cfg(test)` = the native concrete-playback build (cargo kani playback runs `cargo test`); verification builds are not test builds
    #[cfg(not(test))]
    run();
    #[cfg(test)]
    { let _ = std::panic::catch_unwind(std::panic::AssertUnwindSafe(run)); }
    assert!(ctxt.depth.get() == 0, "leaving a frame restores what was visible before, also while a panic is unwinding");
    assert!(ctxt.enters.get() == 1 && ctxt.exits.get() == 1, "every enter is matched by an exit");
    kani::cover!(api == 3 && panicking, "future poll while unwinding");
    kani::cover!(!panicking, "normal exit");
}
