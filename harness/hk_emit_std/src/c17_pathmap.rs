//! C17 — per-module level map: the minimum registered for the longest registered path that is the
//! event's module or an ancestor of it at `::` boundaries applies; else the map's default; else accept.
use emit::level::{MinLevelFilter, MinLevelPathMap};
use emit::Level;
use emit_core::empty::Empty;
use emit_core::event::Event;
use emit_core::filter::Filter;
use emit_core::path::Path;
use emit_core::template::Template;

/// prefix-sharing siblings and nested modules
const PATHS: [&str; 6] = ["a", "aa", "a::b", "a::bb", "a::b::c", "b"];
const LEVELS: [Level; 4] = [Level::Debug, Level::Info, Level::Warn, Level::Error];

/// reference: is `m` equal to `p` or a descendant of it at a `::` boundary (on the concrete pool)
fn under(m: usize, p: usize) -> bool {
    let (m, p) = (PATHS[m].as_bytes(), PATHS[p].as_bytes());
    if p.len() > m.len() { return false; }
    let mut i = 0;
    while i < p.len() { if m[i] != p[i] { return false; } i += 1; }
    m.len() == p.len() || (m.len() >= p.len() + 2 && m[p.len()] == b':' && m[p.len() + 1] == b':')
}

fn pathmap(nregs_max: usize) {
    let mut map = MinLevelPathMap::new();
    let has_default: bool = kani::any();
    let dflt: usize = kani::any();
    kani::assume(dflt < 4);
    if has_default { map.default_min_level(LEVELS[dflt]); }
    let nregs: usize = kani::any();
    kani::assume(nregs <= nregs_max);
    let mut reg_path = [0usize; 3];
    let mut reg_lvl = [0usize; 3];
    let mut i = 0;
    while i < nregs_max {
        if i < nregs {
            let p: usize = kani::any();
            let l: usize = kani::any();
            kani::assume(p < PATHS.len() && l < 4);
            reg_path[i] = p;
            reg_lvl[i] = l;
            map.min_level(Path::new_raw(PATHS[p]), LEVELS[l]);
        }
        i += 1;
    }
    let m: usize = kani::any();
    kani::assume(m < PATHS.len());
    let el: usize = kani::any();
    kani::assume(el < 4);
    let got = map.matches(Event::new(Path::new_raw(PATHS[m]), Template::literal("t"), Empty, ("lvl", LEVELS[el])));
    // reference: longest registered ancestor-or-self, last registration of that path wins
    let mut best: Option<usize> = None; // index into regs
    let mut i = 0;
    while i < nregs_max {
        if i < nregs && under(m, reg_path[i]) {
            match best {
                None => best = Some(i),
                Some(b) => if PATHS[reg_path[i]].len() >= PATHS[reg_path[b]].len() { best = Some(i); }
            }
        }
        i += 1;
    }
    let min = match best { Some(b) => Some(LEVELS[reg_lvl[b]]), None => if has_default { Some(LEVELS[dflt]) } else { None } };
    let want = match min { Some(min) => LEVELS[el] >= min, None => true };
    assert!(got == want, "the most specific registered module rule applies");
    core::mem::forget(map);
    kani::cover!(best.is_some() && nregs >= 2 && reg_path[0] != reg_path[1] && under(m, reg_path[0]) && under(m, reg_path[1]), "two nested rules match");
    kani::cover!(best.is_none() && nregs >= 1, "sibling with shared textual prefix does not match");
    kani::cover!(nregs >= 2 && reg_path[0] == reg_path[1], "repeated registration");
}

#[kani::proof]
#[kani::unwind(8)]
pub fn c17_q_pathmap_2regs() { pathmap(2); }

#[kani::proof]
#[kani::unwind(8)]
pub fn c17_t_pathmap_3regs() { pathmap(3); }

#[kani::proof]
#[kani::unwind(8)]
pub fn c17_w_twin_prefix_is_textual() {
    // false claim: `aa` is governed by the rule for `a`
    let mut map = MinLevelPathMap::new();
    map.min_level(Path::new_raw("a"), Level::Error);
    let got = map.matches(Event::new(Path::new_raw("aa"), Template::literal("t"), Empty, ("lvl", Level::Debug)));
    assert!(!got);
    core::mem::forget(map);
}
