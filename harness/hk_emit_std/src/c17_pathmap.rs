//! C17 — per-module level map: the minimum registered for the longest registered path that is the
//! event's module or an ancestor of it at `::` boundaries applies; else the map's default; else accept.
use crate::env::parse_unreachable;
use emit::level::{MinLevelFilter, MinLevelPathMap};
use emit::Level;
use emit_core::empty::Empty;
use emit_core::event::Event;
use emit_core::filter::Filter;
use emit_core::path::Path;
use emit_core::template::Template;

const LEVELS: [Level; 4] = [Level::Debug, Level::Info, Level::Warn, Level::Error];

/// reference: is module `m` equal to `p` or a descendant of it at a `::` boundary
fn under(m: &str, p: &str) -> bool {
    let (m, p) = (m.as_bytes(), p.as_bytes());
    if p.len() > m.len() { return false; }
    let mut i = 0;
    while i < p.len() { if m[i] != p[i] { return false; } i += 1; }
    m.len() == p.len() || (m.len() >= p.len() + 2 && m[p.len()] == b':' && m[p.len() + 1] == b':')
}

/// One family: two registration paths and an event module, all CONCRETE (so that `split("::")` and the
/// binary searches constant-fold: with symbolic paths the TwoWaySearcher does not finish), while
/// everything else is symbolic: which registrations are present, their order, every level, the default.
fn family(p0: &'static str, p1: &'static str, module: &'static str) {
    let mut map = MinLevelPathMap::new();
    let has_default: bool = kani::any();
    let dflt: usize = kani::any();
    kani::assume(dflt < 4);
    if has_default { map.default_min_level(LEVELS[dflt]); }
    let use0: bool = kani::any();
    let use1: bool = kani::any();
    let swap: bool = kani::any();
    let l0: usize = kani::any();
    let l1: usize = kani::any();
    kani::assume(l0 < 4 && l1 < 4);
    // registration order is symbolic
    if swap {
        if use1 { map.min_level(Path::new_raw(p1), LEVELS[l1]); }
        if use0 { map.min_level(Path::new_raw(p0), LEVELS[l0]); }
    } else {
        if use0 { map.min_level(Path::new_raw(p0), LEVELS[l0]); }
        if use1 { map.min_level(Path::new_raw(p1), LEVELS[l1]); }
    }
    let el: usize = kani::any();
    kani::assume(el < 4);
    let got = map.matches(Event::new(Path::new_raw(module), Template::literal("t"), Empty, ("lvl", LEVELS[el])));
    // reference: the longest registered path the module is under; for the SAME path the later registration wins
    let m0 = use0 && under(module, p0);
    let m1 = use1 && under(module, p1);
    let same = p0.len() == p1.len() && under(p0, p1);
    let min = if m0 && m1 {
        if same { Some(if swap { l0 } else { l1 }) }
        else if p0.len() > p1.len() { Some(l0) } else { Some(l1) }
    } else if m0 { Some(l0) } else if m1 { Some(l1) } else if has_default { Some(dflt) } else { None };
    let want = match min { Some(min) => LEVELS[el] >= LEVELS[min], None => true };
    assert!(got == want, "the most specific registered module rule applies");
    core::mem::forget(map);
    kani::cover!(use0 && use1 && swap, "both registered, reverse order");
    kani::cover!(!got, "rejected");
    kani::cover!(got, "accepted");
}

/// Single-registration families (quick tier): one concrete registered path with any level, a default of any level
/// in some families, concrete event module, any typed event level.
fn family1(p0: &'static str, module: &'static str, with_default: bool) {
    let mut map = MinLevelPathMap::new();
    let dflt: usize = kani::any();
    kani::assume(dflt < 4);
    if with_default { map.default_min_level(LEVELS[dflt]); }
    let l0: usize = kani::any();
    kani::assume(l0 < 4);
    map.min_level(Path::new_raw(p0), LEVELS[l0]);
    let el: usize = kani::any();
    kani::assume(el < 4);
    let got = map.matches(Event::new(Path::new_raw(module), Template::literal("t"), Empty, ("lvl", LEVELS[el])));
    let min = if under(module, p0) { Some(l0) } else if with_default { Some(dflt) } else { None };
    let want = match min { Some(min) => LEVELS[el] >= LEVELS[min], None => true };
    assert!(got == want, "the rule of the longest registered ancestor-or-self applies, else the default, else accept");
    core::mem::forget(map);
    kani::cover!(got, "accepted");
    kani::cover!(!got, "opt:rejected");
}

macro_rules! fam1 {
    ($name:ident, $p0:expr, $m:expr, $d:expr) => {
        #[kani::proof]
        #[kani::unwind(12)]
        #[kani::stub(emit_core::value::Value::parse, parse_unreachable)]
        pub fn $name() { family1($p0, $m, $d); }
    };
}

macro_rules! fam {
    ($name:ident, $p0:expr, $p1:expr, $m:expr) => {
        #[kani::proof]
        #[kani::unwind(12)]
        #[kani::stub(emit_core::value::Value::parse, parse_unreachable)]
        pub fn $name() { family($p0, $p1, $m); }
    };
}

// quick: ONE registration of a ONE-segment path (two-segment registrations blow the SAT instance past 26 GB in this
// std build: the `c17_x_*` families below are kept for documentation and are not selected by any tier; see hk_pathmap)
fam1!(c17_q_pathmap1_exact, "a", "a", false);
fam1!(c17_q_pathmap1_descendant, "a", "a::b::c", false);
fam1!(c17_q_pathmap1_prefix_sibling, "a", "aa", true);
fam1!(c17_q_pathmap1_prefix_sibling_child, "a", "aa::c", false);
fam1!(c17_q_pathmap1_skipped_segment, "noisy", "app::noisy", false);
fam1!(c17_q_pathmap1_root_mismatch, "a", "z::a", true);
fam1!(c17_t_pathmap1_unrelated, "b", "a", true);
fam1!(c17_t_pathmap1_deep_descendant, "a", "a::b::c::d", true);
// not registered (do not fit)
fam1!(c17_x_pathmap1_ancestor_only, "a::b", "a", true);
fam1!(c17_x_pathmap1_inner_mismatch, "a::b", "a::x::b", true);
fam!(c17_x_pathmap_nested, "a", "a::b", "a::b::c");
fam!(c17_x_pathmap_prefix_sibling, "a", "aa", "aa");
fam!(c17_x_pathmap_repeated, "a", "a", "a::b");

#[kani::proof]
#[kani::unwind(12)]
#[kani::stub(emit_core::value::Value::parse, parse_unreachable)]
pub fn c17_w_twin_prefix_is_textual() {
    // false claim: `aa` is governed by the rule for `a`
    let mut map = MinLevelPathMap::new();
    map.min_level(Path::new_raw("a"), Level::Error);
    let got = map.matches(Event::new(Path::new_raw("aa"), Template::literal("t"), Empty, ("lvl", Level::Debug)));
    assert!(!got);
    core::mem::forget(map);
}

// (A lookup-only formulation on explicit two-level trees through an injected constructor was also tried:
//  `MinLevelPathMap::matches` on root -> [a -> [b], aa] with symbolic rule presence ran out of 26 GB in CBMC's
//  propositional reduction after 237 s. Nested rules, registration order and repeats are decided by the group hk_pathmap
//  (harness/hk_pathmap/src/c17_nested.rs: alloc-only build, harness level type, CBMC field sensitivity raised so that Vec
//  buffers constant-propagate); this file keeps the one-registration families at L = Level with typed event levels.)
