//! C03 / C04 — every wrapper of a context (`&C`, `Option<C>`, `Box<C>`, `Arc<C>`, `dyn ErasedCtxt`,
//! `dyn ErasedCtxt + Send + Sync` - the object the ambient runtime hands out) behaves exactly like the context it
//! wraps: each trait method reaches the SAME method of the inner context (a context may override `open_push` /
//! `open_disabled`, as `ThreadLocalCtxt` does, so falling back to the trait defaults or to a sibling method changes
//! what is ambient), and the frame it returns is entered / exited / closed on the inner context.
//! No property values are involved (std build).
use core::cell::Cell;
use emit_core::ctxt::{Ctxt, ErasedCtxt};
use emit_core::empty::Empty;
use emit_core::props::Props;
use std::sync::Arc;

const ROOT: u8 = 1;
const PUSH: u8 = 2;
const DISABLED: u8 = 3;

/// A context that OVERRIDES every method and records which one was reached; its frame remembers how it was opened.
pub struct TagCtxt { last: Cell<u8>, enters: Cell<u8>, exits: Cell<u8>, closes: Cell<u8>, currents: Cell<u8> }
impl TagCtxt { fn new() -> Self { TagCtxt { last: Cell::new(0), enters: Cell::new(0), exits: Cell::new(0), closes: Cell::new(0), currents: Cell::new(0) } } }
impl Ctxt for TagCtxt {
    type Current = Empty;
    type Frame = u8;
    fn open_root<P: Props>(&self, _: P) -> u8 { self.last.set(ROOT); ROOT }
    fn open_push<P: Props>(&self, _: P) -> u8 { self.last.set(PUSH); PUSH }
    fn open_disabled<P: Props>(&self, _: P) -> u8 { self.last.set(DISABLED); DISABLED }
    fn enter(&self, f: &mut u8) { assert!(*f >= ROOT && *f <= DISABLED); self.enters.set(self.enters.get() + *f); }
    fn with_current<R, F: FnOnce(&Empty) -> R>(&self, with: F) -> R { self.currents.set(self.currents.get() + 1); with(&Empty) }
    fn exit(&self, f: &mut u8) { self.exits.set(self.exits.get() + *f); }
    fn close(&self, f: u8) { self.closes.set(self.closes.get() + f); }
}

/// drive one wrapper through open(kind) / enter / with_current / exit / close and check what the inner context saw
fn drive<W: Ctxt + ?Sized>(w: &W, inner: &TagCtxt, kind: u8) {
    let mut frame = match kind {
        ROOT => w.open_root(Empty),
        PUSH => w.open_push(Empty),
        _ => w.open_disabled(Empty),
    };
    assert!(inner.last.get() == kind, "the wrapper reaches the same open_* method of the context it wraps");
    w.enter(&mut frame);
    assert!(inner.enters.get() == kind, "the frame it returned is the inner context's frame, entered on the inner context");
    w.with_current(|_| ());
    assert!(inner.currents.get() == 1);
    w.exit(&mut frame);
    assert!(inner.exits.get() == kind);
    w.close(frame);
    assert!(inner.closes.get() == kind);
}

fn sym_kind() -> u8 { let k: u8 = kani::any(); kani::assume(k >= ROOT && k <= DISABLED); k }

#[kani::proof]
#[kani::unwind(4)]
pub fn c03c04_q_wrapper_ref_option() {
    let kind = sym_kind();
    let which: bool = kani::any();
    let inner = TagCtxt::new();
    if which { drive(&&inner, &inner, kind); } else { drive(&Some(&inner), &inner, kind); }
    kani::cover!(kind == DISABLED && which, "disabled frame through a reference");
}

#[kani::proof]
#[kani::unwind(4)]
pub fn c03c04_q_wrapper_box_arc() {
    let kind = sym_kind();
    let which: bool = kani::any();
    let inner = Arc::new(TagCtxt::new());
    if which {
        let w: Arc<TagCtxt> = inner.clone();
        drive(&w, &inner, kind);
        core::mem::forget(w);
    } else {
        let w: Box<&TagCtxt> = Box::new(&*inner);
        drive(&w, &inner, kind);
        core::mem::forget(w);
    }
    core::mem::forget(inner);
    kani::cover!(kind == PUSH && which, "pushed frame through an Arc");
}

#[kani::proof]
#[kani::unwind(4)]
pub fn c03c04_q_wrapper_erased() {
    let kind = sym_kind();
    let inner = TagCtxt::new();
    let w: &dyn ErasedCtxt = &inner;
    drive(w, &inner, kind);
    kani::cover!(kind == DISABLED, "disabled frame through the erased context");
}

/// the object the ambient runtime hands to the macros (`emit::runtime::shared()`): `dyn ErasedCtxt + Send + Sync`
pub struct SyncTag(TagCtxt);
unsafe impl Send for SyncTag {}
unsafe impl Sync for SyncTag {}
impl Ctxt for SyncTag {
    type Current = Empty;
    type Frame = u8;
    fn open_root<P: Props>(&self, p: P) -> u8 { self.0.open_root(p) }
    fn open_push<P: Props>(&self, p: P) -> u8 { self.0.open_push(p) }
    fn open_disabled<P: Props>(&self, p: P) -> u8 { self.0.open_disabled(p) }
    fn enter(&self, f: &mut u8) { self.0.enter(f) }
    fn with_current<R, F: FnOnce(&Empty) -> R>(&self, with: F) -> R { self.0.with_current(with) }
    fn exit(&self, f: &mut u8) { self.0.exit(f) }
    fn close(&self, f: u8) { self.0.close(f) }
}

#[kani::proof]
#[kani::unwind(4)]
pub fn c03c04_q_wrapper_erased_send_sync() {
    let kind = sym_kind();
    let inner = SyncTag(TagCtxt::new());
    let w: &(dyn ErasedCtxt + Send + Sync) = &inner;
    drive(w, &inner.0, kind);
    kani::cover!(kind == DISABLED, "disabled frame through the Send + Sync erased context");
}

#[kani::proof]
#[kani::unwind(4)]
pub fn c03c04_w_twin_wrappers_use_defaults() {
    // false claim: an Arc'd context answers open_disabled like open_push
    let inner = Arc::new(TagCtxt::new());
    let _ = inner.open_disabled(Empty);
    assert!(inner.last.get() == PUSH);
    core::mem::forget(inner);
}
