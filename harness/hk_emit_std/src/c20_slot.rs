//! C20 — a runtime slot is initialised at most once and is inert before that (real code, real
//! OnceLock, every SERIAL order of initialisers and observers; racing threads are outside Kani and
//! are covered structurally, see the property file).
use core::ops::ControlFlow;
use core::time::Duration;
use emit_core::clock::Clock;
use emit_core::ctxt::Ctxt;
use emit_core::emitter::Emitter;
use emit_core::empty::Empty;
use emit_core::event::{Event, ToEvent};
use emit_core::filter::Filter;
use emit_core::path::Path;
use emit_core::props::Props;
use emit_core::rng::Rng;
use emit_core::runtime::{AmbientSlot, Runtime};
use emit_core::template::Template;
use emit_core::timestamp::Timestamp;

// per-configuration observation counters (configuration ids 1 and 2)
// distinctive non-zero initialisers (kani-compiler may alias zero-initialised statics with std constants);
// reset() stores the real start values at harness start
static mut EMITTED: [u32; 3] = [0x5EED_0011; 3];
static mut FILTERED: [u32; 3] = [0x5EED_0012; 3];
static mut FLUSHED: [u32; 3] = [0x5EED_0013; 3];
static mut LAST_CLOCK_SEEN: u64 = 0x5EED_0000_0000_0014;
static mut LAST_CTXT_SEEN: i32 = 0x5EED_0015;
static mut LAST_EMITTER: usize = 0x5EED_0000_0000_0016;

fn reset() {
    unsafe { EMITTED = [0; 3]; FILTERED = [0; 3]; FLUSHED = [0; 3]; LAST_CLOCK_SEEN = 0; LAST_CTXT_SEEN = 0; LAST_EMITTER = 0; }
}

struct Em(usize);
impl Emitter for Em {
    fn emit<E: ToEvent>(&self, evt: E) {
        let evt = evt.to_event();
        unsafe {
            EMITTED[self.0] += 1;
            LAST_EMITTER = self.0;
            LAST_CLOCK_SEEN = evt.extent().map(|x| x.as_point().to_unix().as_secs()).unwrap_or(0);
            LAST_CTXT_SEEN = evt.props().pull::<i32, _>("cfg").unwrap_or(0);
        }
    }
    fn blocking_flush(&self, _: Duration) -> bool { unsafe { FLUSHED[self.0] += 1; } self.0 == 1 }
}
struct Fi(usize);
impl Filter for Fi {
    fn matches<E: ToEvent>(&self, _: E) -> bool { unsafe { FILTERED[self.0] += 1; } true }
}
struct Cl(usize);
impl Clock for Cl {
    fn now(&self) -> Option<Timestamp> { Timestamp::from_unix(Duration::new(self.0 as u64, 0)) }
}
struct Rn(usize);
impl Rng for Rn {
    fn fill<A: AsMut<[u8]>>(&self, _: A) -> Option<A> { None }
    fn gen_u64(&self) -> Option<u64> { Some(self.0 as u64) }
}
struct Cx(usize, [(&'static str, i32); 1]);
impl Ctxt for Cx {
    type Current = [(&'static str, i32); 1];
    type Frame = ();
    fn open_root<P: Props>(&self, _: P) -> Self::Frame {}
    fn enter(&self, _: &mut Self::Frame) {}
    fn exit(&self, _: &mut Self::Frame) {}
    fn close(&self, _: Self::Frame) {}
    fn with_current<R, F: FnOnce(&Self::Current) -> R>(&self, with: F) -> R { with(&self.1) }
}

fn config(id: usize) -> Runtime<Em, Fi, Cx, Cl, Rn> {
    Runtime::build(Em(id), Fi(id), Cx(id, [("cfg", id as i32)]), Cl(id), Rn(id))
}

fn observe(slot: &AmbientSlot, winner: usize) {
    let rt = slot.get();
    let before = unsafe { EMITTED };
    rt.emit(Event::new(Path::new_raw("m"), Template::literal("t"), Empty, Empty));
    let after = unsafe { EMITTED };
    let flushed = rt.blocking_flush(Duration::ZERO);
    let rnd = rt.rng().gen_u64();
    if winner == 0 {
        assert!(!slot.is_enabled());
        assert!(after[1] == before[1] && after[2] == before[2], "before initialisation nothing is emitted");
        assert!(flushed, "flush through an uninitialised slot returns true");
        assert!(rnd.is_none());
    } else {
        assert!(slot.is_enabled());
        let loser = 3 - winner;
        assert!(after[winner] == before[winner] + 1 && after[loser] == before[loser], "only the winner's emitter receives events");
        unsafe {
            assert!(LAST_EMITTER == winner && LAST_CLOCK_SEEN == winner as u64 && LAST_CTXT_SEEN == winner as i32,
                "every observer sees all components of the winning configuration together");
        }
        assert!(rnd == Some(winner as u64));
        assert!(flushed == (winner == 1));
    }
}

#[kani::proof]
#[kani::unwind(6)]
pub fn c20_q_slot_serial_orders() {
    reset();
    let slot = AmbientSlot::new();
    let mut winner = 0usize;
    let mut step = 0;
    let mut inits = 0;
    while step < 4 {
        let op: u8 = kani::any();
        kani::assume(op <= 2);
        match op {
            0 => observe(&slot, winner),
            id => {
                let id = id as usize;
                let r = slot.init(config(id));
                inits += 1;
                if winner == 0 {
                    assert!(r.is_some(), "the first initialisation succeeds");
                    winner = id;
                } else {
                    assert!(r.is_none(), "every later attempt reports failure");
                }
            }
        }
        step += 1;
    }
    unsafe {
        let loser = if winner == 0 { 0 } else { 3 - winner };
        if winner != 0 {
            assert!(EMITTED[loser] == 0 && FILTERED[loser] == 0 && FLUSHED[loser] == 0, "a losing configuration never receives an event");
        }
    }
    core::mem::forget(slot);
    kani::cover!(inits >= 2 && winner == 2, "second configuration won, another attempt lost");
    kani::cover!(inits == 0, "never initialised");
}

#[kani::proof]
#[kani::unwind(6)]
pub fn c20_w_twin_second_init_wins() {
    reset();
    // false claim: the last initialisation is the one observers see
    let slot = AmbientSlot::new();
    let _ = slot.init(config(1));
    let _ = slot.init(config(2));
    slot.get().emit(Event::new(Path::new_raw("m"), Template::literal("t"), Empty, Empty));
    unsafe { assert!(LAST_EMITTER == 2); }
    core::mem::forget(slot);
}
