//! C20 — a runtime slot is initialised at most once and is inert before that (real code, real
//! OnceLock, every SERIAL order of initialisers and observers; racing threads are outside Kani and
//! are covered structurally, see the property file).
use core::ops::ControlFlow;
use core::time::Duration;
use emit_core::clock::Clock;
use emit_core::ctxt::Ctxt;
use emit_core::emitter::Emitter;
use emit_core::empty::Empty;
use emit_core::event::{Event, ToEvent};
use emit_core::filter::Filter;
use emit_core::path::Path;
use emit_core::props::Props;
use emit_core::rng::Rng;
use emit_core::runtime::{AmbientSlot, Runtime};
use emit_core::template::Template;
use emit_core::timestamp::Timestamp;

// per-configuration observation counters (configuration ids 1 and 2)
// distinctive non-zero initialisers (kani-compiler may alias zero-initialised statics with std constants);
// reset() stores the real start values at harness start
static mut EMITTED: [u32; 3] = [0x5EED_0011; 3];
static mut FILTERED: [u32; 3] = [0x5EED_0012; 3];
static mut FLUSHED: [u32; 3] = [0x5EED_0013; 3];
static mut LAST_CLOCK_SEEN: u64 = 0x5EED_0000_0000_0014;
static mut LAST_CTXT_SEEN: i32 = 0x5EED_0015;
static mut LAST_EMITTER: usize = 0x5EED_0000_0000_0016;

fn reset() {
    unsafe { EMITTED = [0; 3]; FILTERED = [0; 3]; FLUSHED = [0; 3]; LAST_CLOCK_SEEN = 0; LAST_CTXT_SEEN = 0; LAST_EMITTER = 0; CTXT_USED = 0; }
}

struct Em(usize);
impl Emitter for Em {
    fn emit<E: ToEvent>(&self, evt: E) {
        let evt = evt.to_event();
        unsafe {
            EMITTED[self.0] += 1;
            LAST_EMITTER = self.0;
            LAST_CLOCK_SEEN = evt.extent().map(|x| x.as_point().to_unix().as_secs()).unwrap_or(0);
            LAST_CTXT_SEEN = CTXT_USED;
        }
    }
    fn blocking_flush(&self, _: Duration) -> bool { unsafe { FLUSHED[self.0] += 1; } self.0 == 1 }
}
struct Fi(usize);
impl Filter for Fi {
    fn matches<E: ToEvent>(&self, _: E) -> bool { unsafe { FILTERED[self.0] += 1; } true }
}
struct Cl(usize);
impl Clock for Cl {
    fn now(&self) -> Option<Timestamp> { Timestamp::from_unix(Duration::new(self.0 as u64, 0)) }
}
struct Rn(usize);
impl Rng for Rn {
    fn fill<A: AsMut<[u8]>>(&self, _: A) -> Option<A> { None }
    fn gen_u64(&self) -> Option<u64> { Some(self.0 as u64) }
}
// (no property values: in the std build every `Value` temporary drags Arc drop glue through CBMC; the ambient
// context is identified by a static it sets when consulted)
static mut CTXT_USED: i32 = 0x5EED_0017;
struct Cx(usize);
impl Ctxt for Cx {
    type Current = Empty;
    type Frame = ();
    fn open_root<P: Props>(&self, _: P) -> Self::Frame {}
    fn enter(&self, _: &mut Self::Frame) {}
    fn exit(&self, _: &mut Self::Frame) {}
    fn close(&self, _: Self::Frame) {}
    fn with_current<R, F: FnOnce(&Self::Current) -> R>(&self, with: F) -> R { unsafe { CTXT_USED = self.0 as i32; } with(&Empty) }
}

fn config(id: usize) -> Runtime<Em, Fi, Cx, Cl, Rn> {
    Runtime::build(Em(id), Fi(id), Cx(id), Cl(id), Rn(id))
}

fn observe(slot: &AmbientSlot, winner: usize) {
    let rt = slot.get();
    let before = unsafe { EMITTED };
    rt.emit(Event::new(Path::new_raw("m"), Template::literal("t"), Empty, Empty));
    let after = unsafe { EMITTED };
    let flushed = rt.blocking_flush(Duration::ZERO);
    let rnd = rt.rng().gen_u64();
    if winner == 0 {
        assert!(!slot.is_enabled());
        assert!(after[1] == before[1] && after[2] == before[2], "before initialisation nothing is emitted");
        assert!(flushed, "flush through an uninitialised slot returns true");
        assert!(rnd.is_none());
    } else {
        assert!(slot.is_enabled());
        let loser = 3 - winner;
        assert!(after[winner] == before[winner] + 1 && after[loser] == before[loser], "only the winner's emitter receives events");
        unsafe {
            assert!(LAST_EMITTER == winner && LAST_CLOCK_SEEN == winner as u64 && LAST_CTXT_SEEN == winner as i32,
                "every observer sees all components of the winning configuration together");
        }
        assert!(rnd == Some(winner as u64));
        assert!(flushed == (winner == 1));
    }
}

fn serial_orders(steps: usize) {
    reset();
    let slot = AmbientSlot::new();
    let mut winner = 0usize;
    let mut step = 0;
    let mut inits = 0;
    while step < steps {
        let op: u8 = kani::any();
        kani::assume(op <= 2);
        match op {
            0 => observe(&slot, winner),
            id => {
                let id = id as usize;
                let r = slot.init(config(id));
                inits += 1;
                if winner == 0 {
                    assert!(r.is_some(), "the first initialisation succeeds");
                    winner = id;
                } else {
                    assert!(r.is_none(), "every later attempt reports failure");
                }
            }
        }
        step += 1;
    }
    unsafe {
        let loser = if winner == 0 { 0 } else { 3 - winner };
        if winner != 0 {
            assert!(EMITTED[loser] == 0 && FILTERED[loser] == 0 && FLUSHED[loser] == 0, "a losing configuration never receives an event");
        }
    }
    core::mem::forget(slot);
    kani::cover!(inits >= 2 && winner == 2, "second configuration won, another attempt lost");
    kani::cover!(inits == 0, "never initialised");
}

/// NOT REGISTERED (`c20_x_*` names are not selected by any tier): every harness that EMITS through the erased
/// runtime of the slot did not finish in 15 min in the std build (five boxed `dyn` components, downcasts, erased
/// event). They are kept for documentation. Concrete serial scenarios (the symbolic step sequence does not finish:
/// five boxed `dyn` components, downcasts and the erased runtime; it is kept for the thorough tier).
/// (registered since CBMC runs this one with --max-field-sensitivity-array-size 1024, see group_hk_emit_std.py: 12 s)
#[kani::proof]
#[kani::unwind(6)]
pub fn c20_q_inert_before_init() {
    reset();
    let slot = AmbientSlot::new();
    observe(&slot, 0);
    observe(&slot, 0);
    core::mem::forget(slot);
    kani::cover!(true, "ran");
}

#[kani::proof]
#[kani::unwind(6)]
pub fn c20_x_first_init_wins() {
    reset();
    let slot = AmbientSlot::new();
    let first: usize = if kani::any() { 1 } else { 2 };
    assert!(slot.init(config(first)).is_some(), "the first initialisation succeeds");
    observe(&slot, first);
    assert!(slot.init(config(3 - first)).is_none(), "every later attempt reports failure");
    assert!(slot.init(config(first)).is_none(), "... also with the same configuration");
    observe(&slot, first);
    unsafe {
        let loser = 3 - first;
        assert!(EMITTED[loser] == 0 && FILTERED[loser] == 0 && FLUSHED[loser] == 0, "a losing configuration never receives an event");
    }
    core::mem::forget(slot);
    kani::cover!(first == 2, "second configuration first");
}

/// init / is_enabled only (no event traffic through the erased runtime)
#[kani::proof]
#[kani::unwind(6)]
pub fn c20_q_init_once() {
    reset();
    let slot = AmbientSlot::new();
    assert!(!slot.is_enabled());
    let first: usize = if kani::any() { 1 } else { 2 };
    let r = slot.init(config(first));
    assert!(r.is_some() && slot.is_enabled(), "the first initialisation succeeds");
    assert!(r.unwrap().emitter().0 == first, "and hands back the winner's own components");
    assert!(slot.init(config(3 - first)).is_none(), "every later attempt reports failure");
    assert!(slot.is_enabled());
    core::mem::forget(slot);
    kani::cover!(first == 2, "second configuration first");
}

/// observers that do not emit (flush, rng, clock through `slot.get()`): inert before, the winner's afterwards
#[kani::proof]
#[kani::unwind(6)]
pub fn c20_q_observe_without_emit() {
    reset();
    let slot = AmbientSlot::new();
    {
        let rt = slot.get();
        assert!(rt.blocking_flush(Duration::ZERO), "flush through an uninitialised slot returns true");
        assert!(rt.rng().gen_u64().is_none() && rt.clock().now().is_none(), "an uninitialised slot is inert");
    }
    let first: usize = if kani::any() { 1 } else { 2 };
    assert!(slot.init(config(first)).is_some());
    assert!(slot.init(config(3 - first)).is_none());
    let rt = slot.get();
    assert!(rt.rng().gen_u64() == Some(first as u64), "observers see the winner's rng");
    assert!(rt.clock().now().map(|t| t.to_unix().as_secs()) == Some(first as u64), "... clock");
    assert!(rt.blocking_flush(Duration::ZERO) == (first == 1), "... and emitter");
    unsafe { assert!(FLUSHED[3 - first] == 0 && FLUSHED[first] == 1, "a losing configuration is never reached"); }
    core::mem::forget(slot);
    kani::cover!(first == 2, "second configuration first");
}

#[kani::proof]
#[kani::unwind(6)]
pub fn c20_x_slot_serial_orders3() { serial_orders(3); }

#[kani::proof]
#[kani::unwind(6)]
pub fn c20_x_slot_serial_orders4() { serial_orders(4); }

#[kani::proof]
#[kani::unwind(6)]
pub fn c20_w_twin_second_init_wins() {
    // false claim: the last initialisation is the one observers see (no event traffic: see above)
    reset();
    let slot = AmbientSlot::new();
    let _ = slot.init(config(1));
    let _ = slot.init(config(2));
    assert!(slot.get().rng().gen_u64() == Some(2));
    core::mem::forget(slot);
}
