#![allow(dead_code, unused_imports, unused_variables, unused_mut)]
//! Kani harnesses over `emit` built with `std`.

#[path = "../../common/util.rs"]
pub mod util;
#[path = "../../common/env.rs"]
pub mod env;
#[cfg(kani)]
pub mod c02_alloc;
#[cfg(kani)]
pub mod c03_unwind;
#[cfg(kani)]
pub mod c20_slot;
#[cfg(kani)]
pub mod c17_pathmap;
#[cfg(kani)]
pub mod c16_owned;
#[cfg(kani)]
pub mod c03_wrappers;
