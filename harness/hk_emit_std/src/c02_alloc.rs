//! C02 — alloc collections (Box, Arc, Dedup, BTreeMap): lookup agrees with enumeration.
//! NOT REGISTERED (`c02_x_*`): in the std build every `Value` temporary drags Arc drop glue through CBMC and BTreeMap's node
//! navigation loops unroll at every level: both harnesses ran into the 3600 s cap of the thorough tier (measured twice, also with
//! --max-field-sensitivity-array-size 1024: still in symbolic execution after 700 s). Box / Arc / Dedup / BTreeMap as property
//! collections are therefore NOT decided (Dedup over a 3-slot map stand-in is decided inside the C13 file-writer group).
use core::ops::ControlFlow;
use emit::Props;
use std::collections::BTreeMap;
use std::sync::Arc;

const POOL: [&str; 6] = ["a", "b", "c", "m", "z", "absent"];

/// get/pull vs the collection's own enumeration, symbolic lookup key; uniqueness; early exit.
pub fn coherent<P: Props + ?Sized>(p: &P, max_len: usize) {
    let qi: usize = kani::any();
    kani::assume(qi < POOL.len());
    let q = POOL[qi];
    // outer Option: was the key enumerated; inner: its first value as an i32 (None if it is not one)
    let mut first: Option<Option<i32>> = None;
    let mut seen_q = 0u32;
    let mut total = 0usize;
    let _ = p.for_each(|k, v| {
        total += 1;
        if k.get() == q {
            if first.is_none() { first = Some(v.by_ref().cast::<i32>()); }
            seen_q += 1;
        }
        ControlFlow::Continue(())
    });
    assert!(total <= max_len);
    let got = p.get(q).map(|v| v.cast::<i32>());
    assert!(got == first, "get returns the first enumerated value for the key, or nothing");
    assert!(p.pull::<i32, _>(q) == first.flatten(), "pull agrees");
    if p.is_unique() { assert!(seen_q <= 1, "a collection that claims uniqueness never enumerates a key twice"); }
    let k: usize = kani::any();
    kani::assume(k >= 1 && k <= max_len + 1);
    let mut calls = 0usize;
    let r = p.for_each(|_, _| {
        calls += 1;
        assert!(calls <= k, "enumeration stops as soon as the visitor asks");
        if calls == k { ControlFlow::Break(()) } else { ControlFlow::Continue(()) }
    });
    assert!(calls == if k <= total { k } else { total });
    assert!((r == ControlFlow::Break(())) == (k <= total));
    kani::cover!(first.is_some(), "opt:present key");
    kani::cover!(first.is_none(), "absent key");
}

/// alloc wrappers and de-duplication
#[kani::proof]
#[kani::unwind(8)]
pub fn c02_x_box_arc_dedup() {
    let k0: usize = kani::any();
    let k1: usize = kani::any();
    let k2: usize = kani::any();
    kani::assume(k0 < 3 && k1 < 3 && k2 < 3);
    let base = [(POOL[k0], 1i32), (POOL[k1], 2), (POOL[k2], 3)];
    let boxed: Box<[(&str, i32); 3]> = Box::new(base);
    coherent(&boxed, 3);
    let shared = Arc::new(base);
    coherent(&shared, 3);
    // dedup: every key once, with its first value; lookup unchanged
    let d = base.dedup();
    assert!(d.is_unique());
    let qi: usize = kani::any();
    kani::assume(qi < 3);
    let q = POOL[qi];
    let mut n = 0;
    let mut val = None;
    let _ = d.for_each(|k, v| { if k.get() == q { n += 1; val = v.cast::<i32>(); } ControlFlow::Continue(()) });
    let want = base.pull::<i32, _>(q);
    assert!(n == if want.is_some() { 1 } else { 0 }, "de-duplication yields every key exactly once");
    assert!(val == want, "with its first value");
    assert!(d.pull::<i32, _>(q) == want);
    core::mem::forget(boxed);
    core::mem::forget(shared);
    kani::cover!(k0 == k1 && k1 == k2, "all duplicates");
    kani::cover!(k0 != k1 && k1 != k2 && k0 != k2, "all distinct");
}

#[kani::proof]
#[kani::unwind(8)]
pub fn c02_x_btreemap() {
    let k0: usize = kani::any();
    let k1: usize = kani::any();
    kani::assume(k0 < 5 && k1 < 5);
    let mut m: BTreeMap<&str, i32> = BTreeMap::new();
    m.insert(POOL[k0], 1);
    m.insert(POOL[k1], 2);
    coherent(&m, 2);
    assert!(m.is_unique());
    core::mem::forget(m);
    kani::cover!(k0 == k1, "overwritten key");
}

