//! C16 (alloc part) - owned templates (`Template::to_owned`) render and compare identically to the borrowed ones
//! they were made from: same parts, same labels, same formatters.
use core::cell::Cell;
use emit_core::template::{self, Formatter, Part, Template};
use emit_core::value::Value;

#[derive(Clone, Copy, PartialEq, Eq)]
enum Call { None, Text, Value, Fmt, Label }

struct Rec { n: usize, kind: [Call; 4], len: [usize; 4] }
impl Rec {
    fn new() -> Self { Rec { n: 0, kind: [Call::None; 4], len: [0; 4] } }
    fn push(&mut self, k: Call, s: &str) { if self.n < 4 { self.kind[self.n] = k; self.len[self.n] = s.len(); } self.n += 1; }
}
impl core::fmt::Write for Rec { fn write_str(&mut self, _: &str) -> core::fmt::Result { panic!("raw write_str is not part of the template protocol") } }
impl template::Write for Rec {
    fn write_text(&mut self, text: &str) -> core::fmt::Result { self.push(Call::Text, text); Ok(()) }
    fn write_hole_value(&mut self, label: &str, _: Value) -> core::fmt::Result { self.push(Call::Value, label); Ok(()) }
    fn write_hole_fmt(&mut self, label: &str, _: Value, _: Formatter) -> core::fmt::Result { self.push(Call::Fmt, label); Ok(()) }
    fn write_hole_label(&mut self, label: &str) -> core::fmt::Result { self.push(Call::Label, label); Ok(()) }
}

fn noop_fmt(_v: Value, _f: &mut core::fmt::Formatter) -> core::fmt::Result { Ok(()) }

#[kani::proof]
#[kani::unwind(8)]
pub fn c16_q_owned_renders_like_borrowed() {
    let f0: bool = kani::any();
    let f1: bool = kani::any();
    let mut h0 = Part::hole("x");
    let mut h1 = Part::hole("yy");
    if f0 { h0 = h0.with_formatter(Formatter::new(noop_fmt)); }
    if f1 { h1 = h1.with_formatter(Formatter::new(noop_fmt)); }
    let parts = [Part::text("a"), h0, Part::text(""), h1];
    let tpl = Template::new_ref(&parts);
    let owned = tpl.to_owned();
    // part by part: same text, same labels, same formatters (what `Part::write` dispatches on). No property values
    // are involved: in the std build every `Value` temporary drags Arc drop glue through CBMC (measured: OOM at 16 GB).
    let mut n = 0;
    let mut it = owned.parts();
    let mut i = 0;
    while i < 4 {
        let o = it.next().unwrap();
        let b = &parts[i];
        assert!(o.as_text().map(|t| t.get().len()) == b.as_text().map(|t| t.get().len()), "same text fragments");
        assert!(o.label().map(|t| t.get().len()) == b.label().map(|t| t.get().len()), "same holes");
        assert!(o.formatter().is_some() == b.formatter().is_some(), "an owned template keeps every hole's formatter");
        n += 1;
        i += 1;
    }
    assert!(it.next().is_none() && n == 4);
    // rendering without properties: identical writer calls
    let mut r1 = Rec::new();
    let mut r2 = Rec::new();
    assert!(tpl.render(emit_core::empty::Empty).write(&mut r1).is_ok());
    assert!(owned.render(emit_core::empty::Empty).write(&mut r2).is_ok());
    assert!(r1.n == 4 && r2.n == 4);
    let mut i = 0;
    while i < 4 { assert!(r1.kind[i] == r2.kind[i] && r1.len[i] == r2.len[i]); i += 1; }
    assert!(owned == tpl && tpl == owned, "and compares equal to it");
    core::mem::forget(owned);
    kani::cover!(f0 && !f1, "one formatted hole");
}
