//! C03 on the REAL `ThreadLocalCtxt` (one-step, inductive style): from an ambient state of the context on the running
//! thread (never touched / observed only / inside an entered frame with <= 2 entries), with a distinct entry for another context
//! instance on the same thread and for the same context on the other thread:
//!   * a pushed frame shows what was ambient when it was created overlaid by its own properties (own wins),
//!   * a root frame shows only its own,
//!   * enter makes exactly that current, exit restores exactly what was visible before,
//!   * after exit the frame holds exactly what it held before enter (it can be re-entered or moved),
//!   * the other context instance, the other thread and `ThreadLocalCtxt::shared()` are unaffected at every point,
//!   * a frame created on thread 0 and entered on thread 1 shows its properties there and leaves thread 0 alone,
//!   * lookup on the frame agrees with its enumeration (C02 flavour).
//! Shapes (which keys, how many, which pre-state kind, which iteration order of the map) are concrete per harness, all
//! property VALUES are symbolic (i64).
use crate::tl::*;
use emit::platform::thread_local_ctxt::{self as tlc, ThreadLocalCtxt, ThreadLocalCtxtFrame};
use emit_core::ctxt::{Ctxt, ErasedCtxt};
use emit_core::props::Props;
use std::sync::Arc;

/// the frame holds exactly `want`: lookup of every pool key, and enumeration yields each key once with the looked-up value
fn check_frame<P: Props + ?Sized>(frame: &P, want: &View) {
    assert!(same(&view_of(frame), want), "the frame holds exactly its own properties over what was ambient when it was created");
    let (seen, n, bad) = enum_of(frame);
    assert!(!bad, "enumeration yields pool keys only, each at most once, with typed values");
    assert!(same(&seen, want) && n == count(want), "lookup agrees with enumeration on the frame");
}

struct World {
    a: ThreadLocalCtxt,
    b: ThreadLocalCtxt,
    b_t0: View,
    a_t1: View,
}

/// context B on thread 0 and context A on thread 1 get distinct entries (symbolic values)
fn world(a_t1_kind: u8) -> World {
    let a = ThreadLocalCtxt::new();
    let b = ThreadLocalCtxt::new();
    let b_t0 = make_ambient(&b, 2, &P2::shape(1, 1, 0));
    on_thread(T1);
    let a_t1 = make_ambient(&a, a_t1_kind, &P2::shape(1, 2, 0));
    on_thread(T0);
    World { a, b, b_t0, a_t1 }
}

/// nothing but context A on the running thread may have changed (observed from thread 0)
fn others_unaffected(w: &World) {
    assert!(same(&current_view(&w.b), &w.b_t0), "another context instance is unaffected");
    assert!(same(&current_view(&ThreadLocalCtxt::shared()), &EMPTY), "the shared context is unaffected");
    on_thread(T1);
    assert!(same(&current_view(&w.a), &w.a_t1), "the same context on another thread is unaffected");
    on_thread(T0);
}

#[derive(Clone, Copy)]
struct Shape {
    order: Order,
    /// pre-state of context A on thread 0 (see `make_ambient`) and its properties
    kind: u8,
    amb: (usize, usize, usize),
    own: (usize, usize, usize),
    push: bool,
    /// observe the ambient view between creating and entering the frame (inserts the placeholder entry for kind 0)
    peek: bool,
}

/// one frame step on thread 0
fn frame_step(s: Shape, twin: bool) {
    setup(s.order);
    let w = world(2);
    let amb = P2::shape(s.amb.0, s.amb.1, s.amb.2);
    let before = make_ambient(&w.a, s.kind, &amb);
    let own = P2::shape(s.own.0, s.own.1, s.own.2);
    let mut frame = if s.push { w.a.open_push(own) } else { w.a.open_root(own) };
    let inside = if s.push { own.over(&before) } else { own.view() };
    check_frame(&frame, &inside);
    if s.peek {
        assert!(same(&current_view(&w.a), &before), "creating a frame does not change what is ambient");
    }
    w.a.enter(&mut frame);
    if twin {
        // FALSE claim (mutant twin): inside a pushed frame the AMBIENT value wins over an own property with the same key
        let o = own.view();
        let ambient_wins = [before[0].or(o[0]), before[1].or(o[1]), before[2].or(o[2])];
        assert!(same(&current_view(&w.a), &ambient_wins));
        return;
    }
    assert!(same(&current_view(&w.a), &inside), "inside the frame exactly its properties are ambient");
    others_unaffected(&w);
    w.a.exit(&mut frame);
    assert!(same(&current_view(&w.a), &before), "leaving the frame restores exactly what was visible before");
    check_frame(&frame, &inside);
    others_unaffected(&w);
    kani::cover!(count(&inside) == count(&own.view()) + count(&before) || !s.push || s.own.0 == 0 || s.kind != 2, "opt:disjoint keys");
    kani::cover!(s.kind != 2 || !s.push || s.amb.0 == 0 || s.own.0 == 0 || s.own.1 != s.amb.1 || own.v[0] != amb.v[0], "shadowing value differs from the ambient one (or nothing is shadowed)");
    core::mem::forget(frame);
}

macro_rules! step {
    ($name:ident, $twin:expr, $shape:expr) => {
        #[kani::proof]
        #[kani::unwind(6)]
        pub fn $name() { frame_step($shape, $twin); }
    };
}

// pushed frames
step!(c03_q_tl_push_shadow_and_add, false, Shape { order: Order::Fwd0, kind: 2, amb: (2, 0, 1), own: (2, 1, 2), push: true, peek: true });
step!(c03_q_tl_push_shadow_only, false, Shape { order: Order::Rev1, kind: 2, amb: (1, 0, 1), own: (1, 0, 1), push: true, peek: false });
step!(c03_x_tl_push_on_observed, false, Shape { order: Order::Rev1, kind: 1, amb: (0, 0, 1), own: (2, 0, 1), push: true, peek: true });
step!(c03_x_tl_push_on_untouched, false, Shape { order: Order::Fwd0, kind: 0, amb: (0, 0, 1), own: (1, 2, 0), push: true, peek: false });
step!(c03_q_tl_push_nothing, false, Shape { order: Order::Rev3, kind: 2, amb: (2, 1, 2), own: (0, 0, 1), push: true, peek: true });
// root frames
step!(c03_q_tl_root_hides_ambient, false, Shape { order: Order::Fwd0, kind: 2, amb: (2, 0, 1), own: (1, 1, 0), push: false, peek: true });
step!(c03_x_tl_root_first_touch, false, Shape { order: Order::Fwd0, kind: 0, amb: (0, 0, 1), own: (1, 0, 1), push: false, peek: false });
step!(c03_q_tl_root_empty, false, Shape { order: Order::Rev1, kind: 2, amb: (1, 0, 1), own: (0, 0, 1), push: false, peek: false });
step!(c03_x_tl_root_two_on_observed, false, Shape { order: Order::Rev3, kind: 1, amb: (0, 0, 1), own: (2, 2, 0), push: false, peek: true });
step!(c03_t_tl_push_two_over_two_rev, false, Shape { order: Order::Rev3, kind: 2, amb: (2, 0, 1), own: (2, 1, 2), push: true, peek: false });
step!(c03_t_tl_push_two_over_two_fwd2, false, Shape { order: Order::Fwd2, kind: 2, amb: (2, 2, 0), own: (2, 0, 1), push: true, peek: true });
// mutant twin
step!(c03_w_tl_push_ambient_wins, true, Shape { order: Order::Fwd0, kind: 2, amb: (2, 0, 1), own: (2, 1, 2), push: true, peek: false });

/// the frame after exit can be entered again (same thread) and behaves the same
fn reenter(s: Shape) {
    setup(s.order);
    let w = world(2);
    let amb = P2::shape(s.amb.0, s.amb.1, s.amb.2);
    let before = make_ambient(&w.a, s.kind, &amb);
    let own = P2::shape(s.own.0, s.own.1, s.own.2);
    let mut frame = if s.push { w.a.open_push(own) } else { w.a.open_root(own) };
    let inside = if s.push { own.over(&before) } else { own.view() };
    w.a.enter(&mut frame);
    w.a.exit(&mut frame);
    w.a.enter(&mut frame);
    assert!(same(&current_view(&w.a), &inside), "a re-entered frame shows the same properties");
    w.a.exit(&mut frame);
    assert!(same(&current_view(&w.a), &before), "and leaving it again restores what was visible before");
    check_frame(&frame, &inside);
    others_unaffected(&w);
    kani::cover!(true, "ran");
    core::mem::forget(frame);
}

#[kani::proof]
#[kani::unwind(6)]
pub fn c03_q_tl_reenter_push() { reenter(Shape { order: Order::Fwd0, kind: 2, amb: (2, 0, 1), own: (1, 1, 0), push: true, peek: false }); }

#[kani::proof]
#[kani::unwind(6)]
pub fn c03_x_tl_reenter_root_untouched() { reenter(Shape { order: Order::Rev1, kind: 0, amb: (0, 0, 1), own: (2, 0, 2), push: false, peek: false }); }

/// a frame created on thread 0 is entered on thread 1: it carries its properties with it and leaves thread 0 alone
fn cross_thread(s: Shape, t1_kind: u8) {
    setup(s.order);
    // thread 1 has either never touched context A (kind 0), or is inside a frame of its own (kind 2)
    let w = world(t1_kind);
    let amb = P2::shape(s.amb.0, s.amb.1, s.amb.2);
    let before = make_ambient(&w.a, s.kind, &amb);
    let own = P2::shape(s.own.0, s.own.1, s.own.2);
    let mut frame = if s.push { w.a.open_push(own) } else { w.a.open_root(own) };
    let inside = if s.push { own.over(&before) } else { own.view() };
    on_thread(T1);
    w.a.enter(&mut frame);
    assert!(same(&current_view(&w.a), &inside), "a frame moved to another thread carries its properties with it");
    on_thread(T0);
    assert!(same(&current_view(&w.a), &before), "the thread the frame was created on is left alone");
    assert!(same(&current_view(&w.b), &w.b_t0));
    on_thread(T1);
    w.a.exit(&mut frame);
    assert!(same(&current_view(&w.a), &w.a_t1), "leaving the frame restores what was visible on that thread before");
    check_frame(&frame, &inside);
    on_thread(T0);
    assert!(same(&current_view(&w.a), &before));
    kani::cover!(true, "ran");
    core::mem::forget(frame);
}

#[kani::proof]
#[kani::unwind(6)]
pub fn c03_x_tl_cross_thread_push_to_untouched() { cross_thread(Shape { order: Order::Fwd0, kind: 2, amb: (1, 0, 1), own: (2, 0, 1), push: true, peek: false }, 0); }

#[kani::proof]
#[kani::unwind(6)]
pub fn c03_q_tl_cross_thread_root_into_frame() { cross_thread(Shape { order: Order::Rev1, kind: 2, amb: (2, 0, 1), own: (1, 2, 0), push: false, peek: false }, 2); }

/// the same step through the wrappers the runtime hands out: `Arc<ThreadLocalCtxt>` and `&dyn ErasedCtxt`
fn wrapper_step<W: Ctxt + ?Sized>(wc: &W, a: &ThreadLocalCtxt, before: &View, own: P2, push: bool) {
    let mut frame = if push { wc.open_push(own) } else { wc.open_root(own) };
    let inside = if push { own.over(before) } else { own.view() };
    wc.enter(&mut frame);
    assert!(same(&current_view(a), &inside), "a frame opened through a wrapper shows own properties over the ambient ones");
    assert!(same(&wc.with_current(|p| view_of(p)), &inside), "and the wrapper's view of what is current is the same");
    wc.exit(&mut frame);
    assert!(same(&current_view(a), before), "leaving it restores what was visible before");
    core::mem::forget(frame);
}

fn via_wrapper(erased: bool, push: bool) {
    setup(Order::Fwd0);
    let a = ThreadLocalCtxt::new();
    let amb = P2::shape(2, 0, 1);
    let before = make_ambient(&a, 2, &amb);
    let own = P2::shape(2, 1, 2);
    if erased {
        let e: &dyn ErasedCtxt = &a;
        wrapper_step(e, &a, &before, own, push);
    } else {
        let arc = Arc::new(a);
        wrapper_step(&arc, &a, &before, own, push);
        core::mem::forget(arc);
    }
    kani::cover!(own.v[0] != amb.v[1], "own value shadows a different ambient value");
}

#[kani::proof]
#[kani::unwind(6)]
pub fn c03_q_tl_via_arc_push() { via_wrapper(false, true); }

#[kani::proof]
#[kani::unwind(6)]
pub fn c03_t_tl_via_arc_root() { via_wrapper(false, false); }

#[kani::proof]
#[kani::unwind(6)]
pub fn c03_x_tl_via_erased_push() { via_wrapper(true, true); }

#[kani::proof]
#[kani::unwind(6)]
pub fn c03_x_tl_via_erased_root() { via_wrapper(true, false); }

/// `ThreadLocalCtxt::new()` hands out pairwise distinct ids, none of them the shared one
#[kani::proof]
#[kani::unwind(6)]
pub fn c03_q_tl_instances_distinct() {
    let a = ThreadLocalCtxt::new();
    let b = ThreadLocalCtxt::new();
    let c = ThreadLocalCtxt::default();
    let (ia, ib, ic, is) = (tlc::verif::ctxt_id_of(&a), tlc::verif::ctxt_id_of(&b), tlc::verif::ctxt_id_of(&c), tlc::verif::ctxt_id_of(&ThreadLocalCtxt::shared()));
    assert!(ia != ib && ia != ic && ib != ic && ia != is && ib != is && ic != is, "every new context has storage of its own");
    kani::cover!(true, "ran");
}
