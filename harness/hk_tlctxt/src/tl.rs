//! Shared pieces of the ThreadLocalCtxt harnesses: the harness "threads", iteration order of the map shim, property
//! collections with `'static` keys (what the emit macros produce: `Str::new("key")`, so `Str::to_shared` is
//! allocation-free), ghost views, the pre-state builder, the dead-fallback stubs.
use core::ops::ControlFlow;
use emit::platform::thread_local_ctxt::{self as tlc, ThreadLocalCtxt, ThreadLocalCtxtFrame};
use emit::span::{SpanId, TraceId};
use emit_core::ctxt::Ctxt;
use emit_core::props::Props;
use emit_core::str::Str;
use emit_core::value::{ToValue, Value};

pub const T0: usize = 0x5EED_0000_0000_0001;
pub const T1: usize = 2;

/// switch the harness "thread" (stubs/tlctxt.toml: per-thread slots of ACTIVE)
pub fn on_thread(t: usize) {
    unsafe { tlc::VERIF_THREAD = t; }
}

/// Iteration orders of the map shim used by the harnesses (hash order is not part of HashMap's contract, so no verdict may
/// depend on it). The order is CONCRETE per harness: a symbolic start slot makes every enumerated entry a merge of all four
/// slots for CBMC (enum tags become symbolic and every match arm / clone / drop arm is walked: measured > 500 s for one
/// pushed i64). With entries in slots 0.. (first-free insertion), FWD0 enumerates in insertion order, REV1 = slot 1, 0, 3, 2
/// (the reverse for two entries), REV3 = 3, 2, 1, 0 the exact reverse.
#[derive(Clone, Copy)]
pub enum Order { Fwd0, Rev1, Rev3, Fwd2 }

/// start state of the shims: thread 0 runs, the chosen iteration order
pub fn setup(order: Order) {
    match order {
        Order::Fwd0 => emit_core::verif_shim::set_iteration(0, false),
        Order::Rev1 => emit_core::verif_shim::set_iteration(1, true),
        Order::Rev3 => emit_core::verif_shim::set_iteration(3, true),
        Order::Fwd2 => emit_core::verif_shim::set_iteration(2, false),
    }
    on_thread(T0);
}

/// the key pool: distinct lengths, so key comparison is decided by the length
pub const KEYS: [&str; 3] = ["a", "bb", "ccc"];
pub const NK: usize = 3;

/// what is visible under each pool key
pub type View = [Option<i64>; NK];
pub const EMPTY: View = [None; NK];

pub fn same(a: &View, b: &View) -> bool {
    a[0] == b[0] && a[1] == b[1] && a[2] == b[2]
}

/// <= 2 properties, keys from the pool (distinct within the collection), symbolic i64 values
#[derive(Clone, Copy)]
pub struct P2 {
    pub n: usize,
    pub k: [usize; 2],
    pub v: [i64; 2],
}

impl P2 {
    pub const NONE: P2 = P2 { n: 0, k: [0, 1], v: [0, 0] };

    /// concrete SHAPE (how many, which keys), symbolic values ("keep containers concrete in shape and symbolic in content")
    pub fn shape(n: usize, k0: usize, k1: usize) -> P2 {
        assert!(n <= 2 && k0 < NK && k1 < NK && k0 != k1);
        P2 { n, k: [k0, k1], v: kani::any() }
    }

    pub fn one(k: usize, v: i64) -> P2 {
        P2 { n: 1, k: [k, (k + 1) % NK], v: [v, 0] }
    }

    pub fn view(&self) -> View {
        let mut out = EMPTY;
        if self.n >= 1 { out[self.k[0]] = Some(self.v[0]); }
        if self.n >= 2 { out[self.k[1]] = Some(self.v[1]); }
        out
    }

    /// `self` laid over `base`: own properties win
    pub fn over(&self, base: &View) -> View {
        let own = self.view();
        [own[0].or(base[0]), own[1].or(base[1]), own[2].or(base[2])]
    }
}

impl Props for P2 {
    fn for_each<'kv, F: FnMut(Str<'kv>, Value<'kv>) -> ControlFlow<()>>(&'kv self, mut f: F) -> ControlFlow<()> {
        if self.n >= 1 { f(Str::new(KEYS[self.k[0]]), Value::from(self.v[0]))?; }
        if self.n >= 2 { f(Str::new(KEYS[self.k[1]]), Value::from(self.v[1]))?; }
        ControlFlow::Continue(())
    }
    fn is_unique(&self) -> bool { true }
}

/// one property with a `'static` key
pub struct One<'a, V: ToValue>(pub &'static str, pub &'a V);
impl<'a, V: ToValue> Props for One<'a, V> {
    fn for_each<'kv, F: FnMut(Str<'kv>, Value<'kv>) -> ControlFlow<()>>(&'kv self, mut f: F) -> ControlFlow<()> {
        f(Str::new(self.0), self.1.to_value())
    }
    fn is_unique(&self) -> bool { true }
}

/// lookup of every pool key (`Props::pull` = `get` + typed cast)
pub fn view_of<P: Props + ?Sized>(p: &P) -> View {
    [p.pull::<i64, _>(KEYS[0]), p.pull::<i64, _>(KEYS[1]), p.pull::<i64, _>(KEYS[2])]
}

/// what the context shows on the running thread
pub fn current_view(c: &ThreadLocalCtxt) -> View {
    c.with_current(|p| view_of(p))
}

/// enumeration of a collection: the value seen under each pool key, how many pairs were yielded, and whether a key came twice
/// or a key outside the pool appeared
pub fn enum_of<P: Props + ?Sized>(p: &P) -> (View, usize, bool) {
    let mut out = EMPTY;
    let mut n = 0usize;
    let mut bad = false;
    let _ = p.for_each(|k, v| {
        if n < 8 { n += 1; }
        let x = v.cast::<i64>();
        let key = k.get();
        if key.len() == 1 && key == KEYS[0] { if out[0].is_some() { bad = true; } out[0] = x; }
        else if key.len() == 2 && key == KEYS[1] { if out[1].is_some() { bad = true; } out[1] = x; }
        else if key.len() == 3 && key == KEYS[2] { if out[2].is_some() { bad = true; } out[2] = x; }
        else { bad = true; }
        if x.is_none() { bad = true; }
        ControlFlow::Continue(())
    });
    (out, n, bad)
}

pub fn count(v: &View) -> usize {
    (if v[0].is_some() { 1 } else { 0 }) + (if v[1].is_some() { 1 } else { 0 }) + (if v[2].is_some() { 1 } else { 0 })
}

/// Pre-state of one context on the RUNNING thread, built through the public API (so every pre-state is reachable):
///   kind 0  the thread has never touched this context: ACTIVE holds NO entry for its id
///   kind 1  the context was only observed: an entry without a map (`props: None`)
///   kind 2  inside an entered root frame carrying `props` (0..=2 entries; the frame that `enter` handed back - the
///           previous current - is what a guard would hold until exit; it is leaked here)
/// Returns the ghost view (what is ambient now).
pub fn make_ambient(c: &ThreadLocalCtxt, kind: u8, props: &P2) -> View {
    match kind {
        0 => EMPTY,
        1 => { c.with_current(|_| ()); EMPTY }
        _ => {
            let mut f = c.open_root(*props);
            c.enter(&mut f);
            core::mem::forget(f);
            props.view()
        }
    }
}

pub fn trace_hex_unreachable<D: core::fmt::Display>(_hex: D) -> Result<TraceId, emit::span::ParseIdError> {
    panic!("text fallback of TraceId::from_value reached although the value is typed")
}
pub fn span_hex_unreachable<D: core::fmt::Display>(_hex: D) -> Result<SpanId, emit::span::ParseIdError> {
    panic!("text fallback of SpanId::from_value reached although the value is typed")
}
pub fn u128_from_value_unreachable<'v>(_v: Value<'v>) -> Option<u128> where Value<'v>: Sized {
    panic!("integer fallback of TraceId::from_value reached although the value is typed")
}
pub fn u64_from_value_unreachable<'v>(_v: Value<'v>) -> Option<u64> where Value<'v>: Sized {
    panic!("integer fallback of SpanId::from_value reached although the value is typed")
}
