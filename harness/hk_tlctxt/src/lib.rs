#![allow(dead_code, unused_imports, unused_variables, unused_mut, static_mut_refs)]
//! Kani harnesses over the real `ThreadLocalCtxt` (scratch tree with the `tlctxt` substitution set).

#[path = "../../common/util.rs"]
pub mod util;
#[cfg(kani)]
pub mod tl;
#[cfg(kani)]
pub mod c03_tl;
#[cfg(kani)]
pub mod c19_tl;
