//! C19 — "numbers, booleans, strings ... survive unchanged being buffered in the ambient context, moved across threads":
//! a value pushed onto the REAL `ThreadLocalCtxt` (`open_root` / `open_push`, possibly shadowing an ambient value of another
//! type) is read back - from the frame itself, and from the ambient context after `enter` on the same or on the other
//! thread - as the same typed value: integers, booleans, floats (bit pattern), strings as strings with the identical text
//! (including text that LOOKS like a trace / span id: 16 / 32 hex digits in either case), typed ids as typed ids.
use crate::tl::*;
use emit::platform::thread_local_ctxt::{self as tlc, ThreadLocalCtxt, ThreadLocalCtxtFrame};
use emit::span::{SpanId, TraceId};
use emit_core::ctxt::Ctxt;
use emit_core::props::Props;
use emit_core::value::{ToValue, Value};

/// The two shapes every type is driven through:
///   ROOT   a root frame on an untouched thread, entered on the same thread, map enumerated forwards
///   MOVED  a pushed frame that shadows an ambient i64 under the same key, entered on the OTHER thread, map enumerated backwards
#[derive(Clone, Copy, PartialEq, Eq)]
pub enum Via { Root, Moved }

/// push `("a", v)` and hand every place the value can be read from to `check`: the frame before it is entered (the buffered
/// copy that can be moved), the ambient context inside the frame, the frame after exit
fn through_ctxt<V: ToValue>(via: Via, v: &V, check: impl Fn(&ThreadLocalCtxtFrame)) {
    setup(if via == Via::Root { Order::Fwd0 } else { Order::Rev1 });
    let c = ThreadLocalCtxt::new();
    if via == Via::Moved {
        // the ambient context already holds the key, with a value of another type, plus another key
        make_ambient(&c, 2, &P2::shape(2, 0, 1));
    }
    let mut frame = if via == Via::Moved { c.open_push(One("a", v)) } else { c.open_root(One("a", v)) };
    check(&frame);
    if via == Via::Moved { on_thread(T1); }
    c.enter(&mut frame);
    c.with_current(|p| check(p));
    c.exit(&mut frame);
    check(&frame);
    core::mem::forget(frame);
}

fn i64_case(via: Via) {
    let x: i64 = kani::any();
    through_ctxt(via, &x, |p| assert!(p.pull::<i64, _>("a") == Some(x), "an i64 survives the ambient context as the same i64"));
    kani::cover!(x == i64::MIN, "extreme");
}
#[kani::proof]
#[kani::unwind(6)]
pub fn c19_q_tl_i64_root() { i64_case(Via::Root); }
#[kani::proof]
#[kani::unwind(6)]
pub fn c19_q_tl_i64_moved() { i64_case(Via::Moved); }

fn u64_case(via: Via) {
    let x: u64 = kani::any();
    through_ctxt(via, &x, |p| assert!(p.pull::<u64, _>("a") == Some(x), "a u64 survives the ambient context as the same u64"));
    kani::cover!(x > i64::MAX as u64, "beyond i64");
}
#[kani::proof]
#[kani::unwind(6)]
pub fn c19_q_tl_u64_root() { u64_case(Via::Root); }
#[kani::proof]
#[kani::unwind(6)]
pub fn c19_q_tl_u64_moved() { u64_case(Via::Moved); }

fn bool_case(via: Via) {
    let x: bool = kani::any();
    through_ctxt(via, &x, |p| assert!(p.pull::<bool, _>("a") == Some(x), "a bool survives the ambient context as the same bool"));
    kani::cover!(x, "true");
}
#[kani::proof]
#[kani::unwind(6)]
pub fn c19_q_tl_bool_root() { bool_case(Via::Root); }
#[kani::proof]
#[kani::unwind(6)]
pub fn c19_q_tl_bool_moved() { bool_case(Via::Moved); }

fn f64_case(via: Via) {
    let bits: u64 = kani::any();
    let x = f64::from_bits(bits);
    through_ctxt(via, &x, |p| assert!(p.pull::<f64, _>("a").map(|f| f.to_bits()) == Some(bits), "an f64 survives the ambient context bit for bit"));
    kani::cover!(x.is_nan(), "NaN");
}
#[kani::proof]
#[kani::unwind(6)]
pub fn c19_q_tl_f64_bits_root() { f64_case(Via::Root); }
#[kani::proof]
#[kani::unwind(6)]
pub fn c19_q_tl_f64_bits_moved() { f64_case(Via::Moved); }

/// The id parsers are replaced by assert-unreachable stand-ins in the string harnesses: buffering a STRING must not depend on
/// what its text looks like. If a change makes the buffering code parse the text as an id, the stand-in fails the harness (CBMC
/// cannot get through the parser behind value-bag's dynamic string access: out of memory); the native replay runs the real
/// parser and reports a violation only if the string does not come back as the same string.
fn str_case(via: Via, s: &'static str) {
    through_ctxt(via, &s, |p| {
        assert!(p.pull::<&str, _>("a") == Some(s), "a string survives the ambient context as a string with the identical text");
    });
    kani::cover!(true, "ran");
}

#[kani::proof]
#[kani::unwind(8)]
#[kani::stub(emit::span::TraceId::try_from_hex, trace_hex_unreachable)]
#[kani::stub(emit::span::SpanId::try_from_hex, span_hex_unreachable)]
pub fn c19_q_tl_str_empty_root() { str_case(Via::Root, ""); }
#[kani::proof]
#[kani::unwind(8)]
#[kani::stub(emit::span::TraceId::try_from_hex, trace_hex_unreachable)]
#[kani::stub(emit::span::SpanId::try_from_hex, span_hex_unreachable)]
pub fn c19_q_tl_str_nonascii_moved() { str_case(Via::Moved, "\u{e9} y"); }

// text that looks like a span id: 16 hex digits, lower / upper case, all zeros
#[kani::proof]
#[kani::unwind(18)]
#[kani::stub(emit::span::TraceId::try_from_hex, trace_hex_unreachable)]
#[kani::stub(emit::span::SpanId::try_from_hex, span_hex_unreachable)]
pub fn c19_q_tl_str_hex16_lower_root() { str_case(Via::Root, "0123456789abcdef"); }
#[kani::proof]
#[kani::unwind(18)]
#[kani::stub(emit::span::TraceId::try_from_hex, trace_hex_unreachable)]
#[kani::stub(emit::span::SpanId::try_from_hex, span_hex_unreachable)]
pub fn c19_q_tl_str_hex16_upper_moved() { str_case(Via::Moved, "0123456789ABCDEF"); }
#[kani::proof]
#[kani::unwind(18)]
#[kani::stub(emit::span::TraceId::try_from_hex, trace_hex_unreachable)]
#[kani::stub(emit::span::SpanId::try_from_hex, span_hex_unreachable)]
pub fn c19_t_tl_str_hex16_zero_root() { str_case(Via::Root, "0000000000000000"); }

// text that looks like a trace id: 32 hex digits, lower / upper case
#[kani::proof]
#[kani::unwind(34)]
#[kani::stub(emit::span::TraceId::try_from_hex, trace_hex_unreachable)]
#[kani::stub(emit::span::SpanId::try_from_hex, span_hex_unreachable)]
pub fn c19_q_tl_str_hex32_upper_root() { str_case(Via::Root, "9E107D9D372BB6826BD81D3542A419D6"); }
#[kani::proof]
#[kani::unwind(34)]
#[kani::stub(emit::span::TraceId::try_from_hex, trace_hex_unreachable)]
#[kani::stub(emit::span::SpanId::try_from_hex, span_hex_unreachable)]
pub fn c19_q_tl_str_hex32_lower_moved() { str_case(Via::Moved, "9e107d9d372bb6826bd81d3542a419d6"); }

/// FALSE claim (mutant twin): a 16-hex-digit string comes back as something that is no longer a string
#[kani::proof]
#[kani::unwind(18)]
#[kani::stub(emit::span::TraceId::try_from_hex, trace_hex_unreachable)]
#[kani::stub(emit::span::SpanId::try_from_hex, span_hex_unreachable)]
pub fn c19_w_tl_str_hex16_lost() {
    let s = "0123456789abcdef";
    through_ctxt(Via::Root, &s, |p| assert!(p.pull::<&str, _>("a").is_none()));
}

fn trace_case(via: Via) {
    let x: u128 = kani::any();
    kani::assume(x != 0);
    let id = TraceId::from_u128(x).unwrap();
    through_ctxt(via, &id, |p| assert!(p.pull::<TraceId, _>("a") == Some(id), "a typed trace id survives the ambient context as the same typed id"));
    kani::cover!(x > u64::MAX as u128, "wide");
}
#[kani::proof]
#[kani::unwind(6)]
#[kani::stub(emit::span::TraceId::try_from_hex, trace_hex_unreachable)]
#[kani::stub(<u128 as emit_core::value::FromValue>::from_value, u128_from_value_unreachable)]
pub fn c19_x_tl_trace_id_root() { trace_case(Via::Root); }
#[kani::proof]
#[kani::unwind(6)]
#[kani::stub(emit::span::TraceId::try_from_hex, trace_hex_unreachable)]
#[kani::stub(<u128 as emit_core::value::FromValue>::from_value, u128_from_value_unreachable)]
pub fn c19_x_tl_trace_id_moved() { trace_case(Via::Moved); }

fn span_case(via: Via) {
    let x: u64 = kani::any();
    kani::assume(x != 0);
    let id = SpanId::from_u64(x).unwrap();
    through_ctxt(via, &id, |p| assert!(p.pull::<SpanId, _>("a") == Some(id), "a typed span id survives the ambient context as the same typed id"));
    kani::cover!(x > u32::MAX as u64, "wide");
}
#[kani::proof]
#[kani::unwind(6)]
#[kani::stub(emit::span::SpanId::try_from_hex, span_hex_unreachable)]
#[kani::stub(<u64 as emit_core::value::FromValue>::from_value, u64_from_value_unreachable)]
pub fn c19_x_tl_span_id_root() { span_case(Via::Root); }
#[kani::proof]
#[kani::unwind(6)]
#[kani::stub(emit::span::SpanId::try_from_hex, span_hex_unreachable)]
#[kani::stub(<u64 as emit_core::value::FromValue>::from_value, u64_from_value_unreachable)]
pub fn c19_x_tl_span_id_moved() { span_case(Via::Moved); }

/// A pushed property that shadows an ambient one of ANOTHER TYPE whose text happens to coincide (1042 vs "1042", true vs
/// "true") is read back with the pushed type.
fn shadow_same_text(case: u8) {
    setup(Order::Fwd0);
    let c = ThreadLocalCtxt::new();
    let mut outer = match case {
        0 => c.open_root(One("a", &1042i64)),
        1 => c.open_root(One("a", &"1042")),
        2 => c.open_root(One("a", &true)),
        _ => c.open_root(One("a", &"true")),
    };
    c.enter(&mut outer);
    let mut inner = match case {
        0 => c.open_push(One("a", &"1042")),
        1 => c.open_push(One("a", &1042i64)),
        2 => c.open_push(One("a", &"true")),
        _ => c.open_push(One("a", &true)),
    };
    c.enter(&mut inner);
    c.with_current(|p| match case {
        0 => assert!(p.pull::<&str, _>("a") == Some("1042"), "the pushed string is what is ambient, as a string"),
        1 => assert!(p.pull::<i64, _>("a") == Some(1042), "the pushed integer is what is ambient, as an integer"),
        2 => assert!(p.pull::<&str, _>("a") == Some("true"), "the pushed string is what is ambient, as a string"),
        _ => assert!(p.pull::<bool, _>("a") == Some(true), "the pushed boolean is what is ambient, as a boolean"),
    });
    c.exit(&mut inner);
    c.exit(&mut outer);
    kani::cover!(true, "ran");
    core::mem::forget(inner);
    core::mem::forget(outer);
}

#[kani::proof]
#[kani::unwind(8)]
pub fn c19_q_tl_shadow_str_over_int() { shadow_same_text(0); }
#[kani::proof]
#[kani::unwind(8)]
pub fn c19_q_tl_shadow_int_over_str() { shadow_same_text(1); }
#[kani::proof]
#[kani::unwind(8)]
pub fn c19_q_tl_shadow_str_over_bool() { shadow_same_text(2); }
#[kani::proof]
#[kani::unwind(8)]
pub fn c19_q_tl_shadow_bool_over_str() { shadow_same_text(3); }
