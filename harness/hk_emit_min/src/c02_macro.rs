//! C02 — collections built by the real `emit::props!` proc-macro (plain, renamed with
//! `#[emit::key]` so that final names keep / invert / interleave identifier order, optional,
//! cfg-gated keys): lookup agrees with enumeration. (emit built without features.)
use core::ops::ControlFlow;
use emit::Props;

const POOL: [&str; 6] = ["a", "b", "c", "m", "z", "absent"];

/// get/pull vs the collection's own enumeration, symbolic lookup key; uniqueness; early exit.
pub fn coherent<P: Props + ?Sized>(p: &P, max_len: usize) {
    let qi: usize = kani::any();
    kani::assume(qi < POOL.len());
    let q = POOL[qi];
    // outer Option: was the key enumerated; inner: its first value as an i32 (None if it is not one)
    let mut first: Option<Option<i32>> = None;
    let mut seen_q = 0u32;
    let mut total = 0usize;
    let _ = p.for_each(|k, v| {
        total += 1;
        if k.get() == q {
            if first.is_none() { first = Some(v.by_ref().cast::<i32>()); }
            seen_q += 1;
        }
        ControlFlow::Continue(())
    });
    assert!(total <= max_len);
    let got = p.get(q).map(|v| v.cast::<i32>());
    assert!(got == first, "get returns the first enumerated value for the key, or nothing");
    assert!(p.pull::<i32, _>(q) == first.flatten(), "pull agrees");
    if p.is_unique() { assert!(seen_q <= 1, "a collection that claims uniqueness never enumerates a key twice"); }
    let k: usize = kani::any();
    kani::assume(k >= 1 && k <= max_len + 1);
    let mut calls = 0usize;
    let r = p.for_each(|_, _| {
        calls += 1;
        assert!(calls <= k, "enumeration stops as soon as the visitor asks");
        if calls == k { ControlFlow::Break(()) } else { ControlFlow::Continue(()) }
    });
    assert!(calls == if k <= total { k } else { total });
    assert!((r == ControlFlow::Break(())) == (k <= total));
    kani::cover!(first.is_some(), "opt:present key");
    kani::cover!(first.is_none(), "absent key");
}

macro_rules! site {
    ($name:ident, $len:expr, |$x:ident, $y:ident, $o:ident| { $($body:tt)* }) => {
        #[kani::proof]
        #[kani::unwind(8)]
        pub fn $name() {
            let $x: i32 = kani::any();
            let $y: i32 = kani::any();
            let $o: Option<i32> = kani::any();
            let p = emit::props! { $($body)* };
            coherent(&p, $len);
            core::mem::forget(p);
        }
    };
}

// final names keep identifier order
site!(c02_q_macro_plain3, 3, |x, y, o| { a: x, b: y, c: 3 });
// renamed so that final names INVERT identifier order
site!(c02_q_macro_renamed_inverted, 2, |x, y, o| { #[emit::key("z")] a: x, b: y });
// renamed so that final names interleave
site!(c02_q_macro_renamed_interleaved, 3, |x, y, o| { #[emit::key("m")] a: x, #[emit::key("a")] b: y, c: 3 });
// optional (None contributes no pair) next to a renamed key
site!(c02_q_macro_optional_renamed, 3, |x, y, o| { #[emit::optional] a: o.as_ref(), #[emit::key("a.x")] b: y, #[emit::key("b")] c: 3 });
// cfg-gated keys (present / absent)
site!(c02_q_macro_cfg, 3, |x, y, o| { #[cfg(all())] z: x, #[cfg(any())] a: y, #[emit::key("c")] b: 3 });
site!(c02_t_macro_renamed3, 3, |x, y, o| { #[emit::key("z")] a: x, #[emit::key("m")] b: y, #[emit::key("a")] c: 3 });
site!(c02_t_macro_optional_all, 3, |x, y, o| { #[emit::optional] z: o.as_ref(), #[emit::optional] #[emit::key("a")] m: o.as_ref(), b: y });

/// concatenations whose parts each claim uniqueness (macro-built, pair) but may share a key
#[kani::proof]
#[kani::unwind(8)]
pub fn c02_q_and_unique_parts() {
    let x: i32 = kani::any();
    let k: usize = kani::any();
    kani::assume(k < 3);
    let m = emit::props! { a: x, #[emit::key("c")] b: 2 };
    let p = emit::Props::and_props(&m, (POOL[k], 7i32));
    coherent(&p, 3);
    let q = emit::Props::and_props((POOL[k], 7i32), &m);
    coherent(&q, 3);
    kani::cover!(k == 0, "shared key a");
}

#[kani::proof]
#[kani::unwind(8)]
pub fn c02_w_twin_macro_lookup_by_ident() {
    // false claim: a renamed key can be looked up by its identifier
    let p = emit::props! { #[emit::key("z")] a: 1, b: 2 };
    assert!(p.get("a").is_some());
    core::mem::forget(p);
}
