//! C17 (part: MinLevelFilter) — accepts exactly when the event's level (typed, text parsed
//! leniently, or the configured default, or Info) is at least the minimum.
use crate::c15_ids::{ref_level, LALPHA};
use crate::util::*;
use emit::level::MinLevelFilter;
use emit::Level;
use emit_core::empty::Empty;
use emit_core::event::Event;
use emit_core::filter::Filter;
use emit_core::path::Path;
use emit_core::template::Template;

fn sym_level() -> Level {
    let k: u8 = kani::any();
    kani::assume(k < 4);
    [Level::Debug, Level::Info, Level::Warn, Level::Error][k as usize]
}

#[kani::proof]
#[kani::unwind(7)]
pub fn c17_q_min_level_filter() {
    let min = sym_level();
    let has_default: bool = kani::any();
    let default = sym_level();
    let mut f = MinLevelFilter::new(min);
    if has_default { f = f.treat_unleveled_as(default); }
    let shape: u8 = kani::any();
    kani::assume(shape <= 3);
    let typed = sym_level();
    let text: [u8; 4] = sym_arr(&LALPHA);
    let n: usize = kani::any();
    kani::assume(n <= 4);
    let s = unsafe { core::str::from_utf8_unchecked(&text[..n]) };
    let (got, level_of_event): (bool, Option<Level>) = match shape {
        0 => (f.matches(Event::new(Path::new_raw("m"), Template::literal("t"), Empty, Empty)), None),
        1 => (f.matches(Event::new(Path::new_raw("m"), Template::literal("t"), Empty, ("lvl", typed))), Some(typed)),
        2 => (f.matches(Event::new(Path::new_raw("m"), Template::literal("t"), Empty, ("lvl", s))), ref_level(&text[..n])),
        _ => (f.matches(Event::new(Path::new_raw("m"), Template::literal("t"), Empty, [("lvl", true)])), None),
    };
    let effective = match level_of_event { Some(l) => l, None => if has_default { default } else { Level::Info } };
    assert!(got == (effective >= min), "accepted iff the effective level is at least the minimum");
    kani::cover!(shape == 2 && level_of_event == Some(Level::Warn) && !got, "text level below minimum");
    kani::cover!(shape == 0 && has_default && got, "unleveled event uses the configured default");
    kani::cover!(shape == 3 && !has_default, "unparseable level falls back to Info");
}

#[kani::proof]
#[kani::unwind(4)]
pub fn c17_q_min_level_filter_numeric() {
    let min: u8 = kani::any();
    let has_default: bool = kani::any();
    let default: u8 = kani::any();
    let mut f = MinLevelFilter::<u8>::new(min);
    if has_default { f = f.treat_unleveled_as(default); }
    let present: bool = kani::any();
    let lvl: u8 = kani::any();
    let got = if present {
        f.matches(Event::new(Path::new_raw("m"), Template::literal("t"), Empty, ("lvl", lvl)))
    } else {
        f.matches(Event::new(Path::new_raw("m"), Template::literal("t"), Empty, Empty))
    };
    let effective = if present { lvl } else if has_default { default } else { 0 };
    assert!(got == (effective >= min));
    kani::cover!(present && !got, "numeric level below minimum");
}

#[kani::proof]
#[kani::unwind(4)]
pub fn c17_w_twin_default_ignored() {
    // false claim: unleveled events are always treated as Info
    let min = sym_level();
    let f = MinLevelFilter::new(min).treat_unleveled_as(sym_level());
    let got = f.matches(Event::new(Path::new_raw("m"), Template::literal("t"), Empty, Empty));
    assert!(got == (Level::Info >= min));
}
