//! C05 — each enabled, started span completes exactly once; disabled or never-started spans never
//! do; no sequence of builder operations changes that; the completed span carries the last name /
//! module / props set and the extent start-reading..end-reading.
use crate::env::*;
use core::cell::Cell;
use emit::span::completion::{self, Completion};
use emit::span::{Span, SpanGuard};
use emit_core::empty::Empty;
use emit_core::extent::Extent;
use emit_core::path::Path;
use emit_core::props::Props;
use emit_core::timestamp::Timestamp;

pub struct RecCompletion {
    pub calls: Cell<u32>,
    pub name0: Cell<u8>,
    pub mdl0: Cell<u8>,
    pub prop_a: Cell<i32>,
    pub has_extent: Cell<bool>,
    pub is_range: Cell<bool>,
    pub start: Cell<u64>,
    pub end: Cell<u64>,
}

impl RecCompletion {
    pub fn new() -> Self {
        RecCompletion { calls: Cell::new(0), name0: Cell::new(0), mdl0: Cell::new(0), prop_a: Cell::new(-1),
            has_extent: Cell::new(false), is_range: Cell::new(false), start: Cell::new(0), end: Cell::new(0) }
    }
}

impl Completion for RecCompletion {
    fn complete<P: Props>(&self, span: Span<P>) {
        self.calls.set(self.calls.get() + 1);
        self.name0.set(span.name().get().as_bytes()[0]);
        let mut i = 0;
        while i < 3 {
            if *span.mdl() == *MDLS[i] { self.mdl0.set(MDLS[i].as_bytes()[0]); }
            i += 1;
        }
        self.prop_a.set(span.props().pull::<i32, _>("a").unwrap_or(-1));
        if let Some(x) = span.extent() {
            self.has_extent.set(true);
            if let Some(r) = x.as_range() {
                self.is_range.set(true);
                self.start.set(r.start.to_unix().as_secs());
                self.end.set(r.end.to_unix().as_secs());
            } else {
                self.end.set(x.as_point().to_unix().as_secs());
            }
        }
    }
}

/// verdict-only filter (does not look at the event: keeps value-bag casts out of this harness)
pub struct VerdictFilter { pub verdict: bool, pub calls: Cell<u32> }
impl emit_core::filter::Filter for VerdictFilter {
    fn matches<E: emit_core::event::ToEvent>(&self, _evt: E) -> bool { self.calls.set(self.calls.get() + 1); self.verdict }
}

/// emitter that records which well-known ids are on the event, by typed downcast only
pub struct IdEmitter { pub calls: Cell<u32>, pub trace: Cell<u128>, pub span: Cell<u64>, pub parent: Cell<u64>, pub a: Cell<i32>, pub has_extent: Cell<bool> }
impl IdEmitter { pub fn new() -> Self { IdEmitter { calls: Cell::new(0), trace: Cell::new(0), span: Cell::new(0), parent: Cell::new(0), a: Cell::new(-1), has_extent: Cell::new(false) } } }
impl emit_core::emitter::Emitter for IdEmitter {
    fn emit<E: emit_core::event::ToEvent>(&self, evt: E) {
        let evt = evt.to_event();
        self.calls.set(self.calls.get() + 1);
        self.has_extent.set(evt.extent().is_some());
        let _ = evt.props().for_each(|k, v| {
            match k.get() {
                "trace_id" => if self.trace.get() == 0 { if let Some(t) = v.downcast_ref::<emit::span::TraceId>() { self.trace.set(t.to_u128()); } },
                "span_id" => if self.span.get() == 0 { if let Some(t) = v.downcast_ref::<emit::span::SpanId>() { self.span.set(t.to_u64()); } },
                "span_parent" => if self.parent.get() == 0 { if let Some(t) = v.downcast_ref::<emit::span::SpanId>() { self.parent.set(t.to_u64()); } },
                "a" => if self.a.get() == -1 { self.a.set(v.cast::<i32>().unwrap_or(-2)); },
                _ => {}
            }
            core::ops::ControlFlow::Continue(())
        });
    }
    fn blocking_flush(&self, _: core::time::Duration) -> bool { true }
}

const NAMES: [&str; 3] = ["n0", "p1", "q2"];
const MDLS: [&str; 3] = ["m0", "k1", "j2"];

/// Symbolic op sequence of length <= NOPS over {start, with_name, with_mdl, with_props, map_props,
/// with_completion}, then one of three endings.
fn op_sequence(nops_max: usize) {
    let verdict: bool = kani::any();
    let ctxt = Empty;
    let clock = SeqClock { readings: [sym_opt_ts(), sym_opt_ts(), sym_opt_ts(), sym_opt_ts()], calls: Cell::new(0) };
    let c_default = RecCompletion::new();
    let c_other = RecCompletion::new();
    let c_with = RecCompletion::new();
    let filter = VerdictFilter { verdict, calls: Cell::new(0) };
    let (guard, frame) = SpanGuard::new(&filter, &ctxt, &clock, CountRng::new(1), &c_default, Empty, Path::new_raw(MDLS[0]), NAMES[0], [("a", 0i32)]);
    assert!(filter.calls.get() == 1, "the filter decides once, at creation");
    assert!(guard.is_enabled() == verdict);
    let mut guard = guard;
    let mut started = false;
    let mut name = 0usize;
    let mdl = Cell::new(0usize);
    let mut prop = 0i32;
    let mut swapped = false;
    let mut start_reading: Option<Timestamp> = None;
    let nops: usize = kani::any();
    kani::assume(nops <= nops_max);
    let mut i = 0;
    while i < nops_max {
        if i < nops {
            let op: u8 = kani::any();
            kani::assume(op <= 5);
            match op {
                0 => {
                    if !started { let k = clock.calls.get(); start_reading = if k < 4 { clock.readings[k] } else { None }; }
                    guard.start();
                    started = true;
                }
                1 => { name = (name + 1) % 3; guard = guard.with_name(NAMES[name]); }
                2 => { mdl.set((mdl.get() + 1) % 3); guard = guard.with_mdl(Path::new_raw(MDLS[mdl.get()])); }
                3 => { prop += 1; guard = guard.with_props([("a", prop)]); }
                4 => { prop += 10; let p = prop; guard = guard.map_props(|_| [("a", p)]); }
                _ => { swapped = true; guard = guard.with_completion(&c_other); }
            }
            assert!(guard.is_enabled() == verdict, "no builder operation changes whether the span is enabled");
        }
        i += 1;
    }
    let k = clock.calls.get();
    let end_reading = if k < 4 { clock.readings[k] } else { None };
    let ending: u8 = kani::any();
    kani::assume(ending <= 2);
    let ret: Option<bool> = match ending {
        0 => { drop(guard); None }
        1 => Some(guard.complete()),
        _ => Some(guard.complete_with(&c_with)),
    };
    let total = c_default.calls.get() + c_other.calls.get() + c_with.calls.get();
    let should = verdict && started;
    assert!(total == if should { 1 } else { 0 }, "exactly one completion iff enabled and started; never two");
    if let Some(r) = ret { assert!(r == should, "the returned flag says whether the span completed"); }
    if should {
        let c = if ending == 2 { &c_with } else if swapped { &c_other } else { &c_default };
        assert!(c.calls.get() == 1, "the completion in force receives the span");
        assert!(c.name0.get() == NAMES[name].as_bytes()[0], "last name set");
        assert!(c.mdl0.get() == MDLS[mdl.get()].as_bytes()[0], "last module set");
        assert!(c.prop_a.get() == prop, "last properties set");
        match (start_reading, end_reading) {
            (Some(s), Some(e)) => {
                let want = Extent::range(s..e);
                assert!(c.has_extent.get(), "a range extent whenever the clock gave both readings");
                match want.as_range() {
                    Some(r) => assert!(c.is_range.get() && c.start.get() == r.start.to_unix().as_secs() && c.end.get() == r.end.to_unix().as_secs()),
                    None => assert!(!c.is_range.get() && c.end.get() == want.as_point().to_unix().as_secs()),
                }
            }
            _ => assert!(!c.has_extent.get()),
        }
    }
    core::mem::forget(frame);
    kani::cover!(should && ending == 0 && swapped, "completed by drop after the completion was replaced");
    kani::cover!(!verdict && started && swapped, "disabled guard with replaced completion stays silent");
    kani::cover!(verdict && !started, "enabled but never started");
    kani::cover!(should && start_reading.is_some() && end_reading.is_none(), "clock lost its reading");
}

#[kani::proof]
#[kani::unwind(13)]
#[kani::stub(emit::span::TraceId::try_from_hex, trace_hex_unreachable)]
#[kani::stub(emit::span::SpanId::try_from_hex, span_hex_unreachable)]
pub fn c05_q_guard_ops3() { op_sequence(3); }

#[kani::proof]
#[kani::unwind(13)]
#[kani::stub(emit::span::TraceId::try_from_hex, trace_hex_unreachable)]
#[kani::stub(emit::span::SpanId::try_from_hex, span_hex_unreachable)]
pub fn c05_t_guard_ops4() { op_sequence(4); }

/// The default completion emits exactly one span event carrying the span's ids when completed
/// inside its frame (ambient context), its properties and a range extent when the clock gave readings.
#[kani::proof]
#[kani::unwind(13)]
#[kani::stub(emit::span::TraceId::try_from_hex, trace_hex_unreachable)]
#[kani::stub(emit::span::SpanId::try_from_hex, span_hex_unreachable)]
#[kani::stub(<u128 as emit_core::value::FromValue>::from_value, u128_from_value_unreachable)]
#[kani::stub(<u64 as emit_core::value::FromValue>::from_value, u64_from_value_unreachable)]
pub fn c05_q_default_completion_event() {
    let verdict: bool = kani::any();
    let ctxt = ArrCtxt::new();
    let em = IdEmitter::new();
    let clock = SeqClock { readings: [sym_opt_ts(), sym_opt_ts(), None, None], calls: Cell::new(0) };
    let filter = VerdictFilter { verdict, calls: Cell::new(0) };
    let inside: bool = kani::any();
    let (mut guard, frame) = SpanGuard::new(&filter, &ctxt, &clock, CountRng::new(7), completion::default(&em, &ctxt), Empty, Path::new_raw("m0"), "n0", [("a", 5i32)]);
    if inside {
        frame.call(move || { guard.start(); drop(guard); });
    } else {
        guard.start();
        drop(guard);
        core::mem::forget(frame);
    }
    assert!(em.calls.get() == if verdict { 1 } else { 0 }, "one span event iff the span passed the filter");
    if verdict {
        assert!(em.a.get() == 5, "span properties are on the event");
        if inside {
            assert!(em.trace.get() == 7 && em.span.get() == 8 && em.parent.get() == 0, "ids present when completed inside the frame");
        } else {
            assert!(em.span.get() == 0, "outside the frame the ambient ids are not visible");
        }
        assert!(em.has_extent.get() == (clock.readings[0].is_some() && clock.readings[1].is_some()));
    }
    kani::cover!(verdict && inside, "completed inside its frame");
    kani::cover!(!verdict && inside, "disabled span inside a (disabled) frame");
}

#[kani::proof]
#[kani::unwind(13)]
#[kani::stub(emit::span::TraceId::try_from_hex, trace_hex_unreachable)]
#[kani::stub(emit::span::SpanId::try_from_hex, span_hex_unreachable)]
pub fn c05_w_twin_disabled_never_started_completes() {
    // false claim: every guard completes once when dropped
    let verdict: bool = kani::any();
    let ctxt = ArrCtxt::new();
    let clock = SeqClock { readings: [None; 4], calls: Cell::new(0) };
    let c = RecCompletion::new();
    let (mut guard, frame) = SpanGuard::new(VerdictFilter { verdict, calls: Cell::new(0) }, &ctxt, &clock, CountRng::new(1), &c, Empty, Path::new_raw("m0"), "n0", Empty);
    guard.start();
    drop(guard);
    core::mem::forget(frame);
    assert!(c.calls.get() == 1);
}
