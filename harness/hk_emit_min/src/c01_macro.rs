//! C01 (macro side) — events emitted through the real `emit::emit!` / `emit::info!` proc-macros:
//! the effective filter is the call-site filter (`when:`) when one is given, otherwise the runtime's
//! (the other one is not evaluated); the destination receives the event exactly once iff that filter
//! accepts; own properties precede ambient ones; `evt:` forms behave the same.
use crate::env::*;
use core::cell::Cell;
use emit::Props;
use emit_core::clock::Clock;
use emit_core::ctxt::Ctxt;
use emit_core::emitter::Emitter;
use emit_core::empty::Empty;
use emit_core::event::ToEvent;
use emit_core::filter::Filter;
use emit_core::runtime::Runtime;

pub struct CountFilter { pub verdict: bool, pub calls: Cell<u32>, pub saw_a: Cell<i32>, pub saw_b: Cell<i32>, pub saw_extent: Cell<bool> }
impl CountFilter { pub fn new(v: bool) -> Self { CountFilter { verdict: v, calls: Cell::new(0), saw_a: Cell::new(-1), saw_b: Cell::new(-1), saw_extent: Cell::new(false) } } }
impl Filter for CountFilter {
    fn matches<E: ToEvent>(&self, evt: E) -> bool {
        let evt = evt.to_event();
        self.calls.set(self.calls.get() + 1);
        self.saw_a.set(evt.props().pull::<i32, _>("a").unwrap_or(-1));
        self.saw_b.set(evt.props().pull::<i32, _>("b").unwrap_or(-1));
        self.saw_extent.set(evt.extent().is_some());
        self.verdict
    }
}

pub struct CountEmitter { pub calls: Cell<u32>, pub a: Cell<i32>, pub b: Cell<i32>, pub has_extent: Cell<bool> }
impl CountEmitter { pub fn new() -> Self { CountEmitter { calls: Cell::new(0), a: Cell::new(-1), b: Cell::new(-1), has_extent: Cell::new(false) } } }
impl Emitter for CountEmitter {
    fn emit<E: ToEvent>(&self, evt: E) {
        let evt = evt.to_event();
        self.calls.set(self.calls.get() + 1);
        self.a.set(evt.props().pull::<i32, _>("a").unwrap_or(-1));
        self.b.set(evt.props().pull::<i32, _>("b").unwrap_or(-1));
        self.has_extent.set(evt.extent().is_some());
    }
    fn blocking_flush(&self, _: core::time::Duration) -> bool { true }
}

#[kani::proof]
#[kani::unwind(13)]
pub fn c01_q_macro_effective_filter() {
    let rt_verdict: bool = kani::any();
    let cs_verdict: bool = kani::any();
    let with_when: bool = kani::any();
    let amb_a: i32 = kani::any();
    let own_a: i32 = kani::any();
    let has_now: bool = kani::any();
    let ctxt = ArrCtxt::new();
    *ctxt.cur.borrow_mut() = ArrProps { a: Some(amb_a), b: Some(3), trace: None, span: None, parent: None };
    let clock = SeqClock { readings: [if has_now { Some(sym_ts()) } else { None }, None, None, None], calls: Cell::new(0) };
    let rt = Runtime::build(CountEmitter::new(), CountFilter::new(rt_verdict), &ctxt, &clock, Empty);
    let cs = CountFilter::new(cs_verdict);
    let form: u8 = kani::any();
    kani::assume(form <= 1);
    if with_when {
        if form == 0 { emit::emit!(rt: &rt, when: &cs, "text {a}", a: own_a); }
        else { emit::info!(rt: &rt, when: &cs, "text {a}", a: own_a); }
        assert!(cs.calls.get() == 1 && rt.filter().calls.get() == 0, "the call-site filter decides; the runtime's is not evaluated");
        assert!(cs.saw_a.get() == own_a, "the filter sees the event's own value first");
        assert!(cs.saw_b.get() == 3, "the call-site filter sees the event exactly as destinations would: with the ambient properties");
        assert!(cs.saw_extent.get() == has_now, "... and with the clock's reading as extent");
    } else {
        if form == 0 { emit::emit!(rt: &rt, "text {a}", a: own_a); }
        else { emit::info!(rt: &rt, "text {a}", a: own_a); }
        assert!(cs.calls.get() == 0 && rt.filter().calls.get() == 1, "without a call-site filter the runtime's decides");
        assert!(rt.filter().saw_a.get() == own_a);
        assert!(rt.filter().saw_b.get() == 3 && rt.filter().saw_extent.get() == has_now, "the filter sees the fully built event");
    }
    let effective = if with_when { cs_verdict } else { rt_verdict };
    assert!(rt.emitter().calls.get() == if effective { 1 } else { 0 }, "emitted exactly once iff the effective filter accepts");
    if effective {
        assert!(rt.emitter().a.get() == own_a, "own properties precede ambient ones (first value wins)");
        assert!(rt.emitter().b.get() == 3, "ambient properties are appended");
        assert!(rt.emitter().has_extent.get() == has_now, "the clock's reading becomes the extent");
    }
    kani::cover!(with_when && cs_verdict && !rt_verdict, "call-site filter overrides a rejecting runtime filter");
    kani::cover!(!with_when && !rt_verdict, "runtime filter rejects");
}

/// `evt:` form (an already built event is emitted through the runtime with extra props)
#[kani::proof]
#[kani::unwind(13)]
pub fn c01_q_macro_emit_evt_form() {
    let rt_verdict: bool = kani::any();
    let cs_verdict: bool = kani::any();
    let with_when: bool = kani::any();
    let own_a: i32 = kani::any();
    let ctxt = ArrCtxt::new();
    *ctxt.cur.borrow_mut() = ArrProps { a: Some(1), b: Some(3), trace: None, span: None, parent: None };
    let clock = SeqClock { readings: [None; 4], calls: Cell::new(0) };
    let rt = Runtime::build(CountEmitter::new(), CountFilter::new(rt_verdict), &ctxt, &clock, Empty);
    let cs = CountFilter::new(cs_verdict);
    let evt = emit::evt!("text {a}", a: own_a);
    if with_when { emit::emit!(rt: &rt, when: &cs, evt: &evt); } else { emit::emit!(rt: &rt, evt: &evt); }
    let effective = if with_when { cs_verdict } else { rt_verdict };
    assert!(cs.calls.get() == if with_when { 1 } else { 0 });
    assert!(rt.filter().calls.get() == if with_when { 0 } else { 1 });
    let f = if with_when { &cs } else { rt.filter() };
    assert!(f.saw_a.get() == own_a && f.saw_b.get() == 3, "the effective filter sees own then ambient properties");
    assert!(rt.emitter().calls.get() == if effective { 1 } else { 0 });
    if effective { assert!(rt.emitter().a.get() == own_a && rt.emitter().b.get() == 3); }
    kani::cover!(with_when && !cs_verdict && rt_verdict, "call-site filter rejects although the runtime's would accept");
}
