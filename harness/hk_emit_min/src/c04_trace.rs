//! C04 (generic part, over the harness context) — nested spans form one consistent trace tree:
//! trace id constant, parent = nearest ENABLED ancestor, ids non-zero and distinct while the rng does
//! not repeat, events carry the innermost enabled span's ids, a rejected span contributes none,
//! ambient ids revert when a span ends.
use crate::env::*;
use core::cell::Cell;
use emit::span::{completion, SpanCtxt, SpanGuard, SpanId, TraceId};
use emit::Frame;
use emit_core::ctxt::Ctxt;
use emit_core::emitter::Emitter;
use emit_core::empty::Empty;
use emit_core::event::{Event, ToEvent};
use emit_core::path::Path;
use emit_core::props::Props;
use emit_core::template::Template;

/// Tree emitter: checks every event against the ghost ids set by the harness just before the event
/// is produced; collects span ids to check distinctness.
pub struct TreeEmitter {
    pub calls: Cell<u32>,
    pub want_trace: Cell<Val>,
    pub want_span: Cell<Val>,
    pub want_parent: Cell<Val>,
    pub check_parent: Cell<bool>,
    pub ids: Cell<[u64; 8]>,
    pub n_ids: Cell<usize>,
}

impl TreeEmitter {
    pub fn new() -> Self {
        TreeEmitter { calls: Cell::new(0), want_trace: Cell::new(Val::None), want_span: Cell::new(Val::None), want_parent: Cell::new(Val::None),
            check_parent: Cell::new(false), ids: Cell::new([0; 8]), n_ids: Cell::new(0) }
    }
}

impl Emitter for TreeEmitter {
    fn emit<E: ToEvent>(&self, evt: E) {
        self.calls.set(self.calls.get() + 1);
        let s = SeenEvt::of(evt);
        assert!(s.vals[K_TRACE] == self.want_trace.get(), "every span and event carries the trace id of the outermost span");
        assert!(s.vals[K_SPAN] == self.want_span.get(), "span id of the innermost enclosing enabled span");
        if self.check_parent.get() {
            assert!(s.vals[K_PARENT] == self.want_parent.get(), "parent id is the id of the nearest enabled ancestor");
        }
    }
    fn blocking_flush(&self, _: core::time::Duration) -> bool { true }
}

struct World<'a> {
    ctxt: &'a ArrCtxt,
    em: &'a TreeEmitter,
    clock: &'a SeqClock,
    rng: &'a CountRng,
    spans: Cell<u32>,
    enabled_spans: Cell<u32>,
}

fn emit_event(w: &World, trace: Val, span: Val) {
    w.em.want_trace.set(trace);
    w.em.want_span.set(span);
    w.em.check_parent.set(false);
    emit_core::emit(w.em, Empty, w.ctxt, Empty, Event::new(Path::new_raw("m"), Template::literal("e"), Empty, Empty));
}

/// One node of the span tree. `trace`/`nearest` are the ghost model: the trace id in force and the
/// id of the nearest enabled ancestor.
fn node(w: &World, depth: usize, trace: Val, nearest: Val) {
    let before = w.ctxt.view();
    let verdict: bool = kani::any();
    let next_id = w.rng.next.get();
    let (mut guard, frame) = SpanGuard::new(RecFilter::new(verdict), w.ctxt, w.clock, w.rng,
        completion::default(w.em, w.ctxt), Empty, Path::new_raw("m"), "s", Empty);
    w.spans.set(w.spans.get() + 1);
    // ghost: ids this span gets (a fresh trace id only when none is in force)
    let (my_trace, my_span) = match trace {
        Val::None => (Val::Trace(next_id as u128), Val::Span(next_id + 1)),
        t => (t, Val::Span(next_id)),
    };
    let (in_trace, in_span) = if verdict { (my_trace, my_span) } else { (trace, nearest) };
    if verdict { w.enabled_spans.set(w.enabled_spans.get() + 1); }
    frame.call(move || {
        guard.start();
        let ev_before: bool = kani::any();
        if ev_before { emit_event(w, in_trace, in_span); }
        if depth > 0 {
            let kids: usize = kani::any();
            kani::assume(kids <= 2);
            let mut k = 0;
            while k < 2 {
                if k < kids { node(w, depth - 1, in_trace, in_span); }
                k += 1;
            }
        }
        // completion: the span event itself
        w.em.want_trace.set(my_trace);
        w.em.want_span.set(my_span);
        w.em.want_parent.set(nearest);
        w.em.check_parent.set(true);
        let calls = w.em.calls.get();
        drop(guard);
        assert!(w.em.calls.get() == calls + if verdict { 1 } else { 0 }, "a rejected span emits nothing");
        let cur = SpanCtxt::current(w.ctxt);
        match in_span { Val::Span(s) => assert!(cur.span_id().map(|i| i.to_u64()) == Some(s)), _ => assert!(cur.span_id().is_none()) }
    });
    assert!(same_view(&w.ctxt.view(), &before), "when a span ends the ambient ids revert to its parent's");
}

fn run_tree(depth: usize, incoming: u8) {
    let ctxt = ArrCtxt::new();
    let em = TreeEmitter::new();
    let clock = SeqClock { readings: [None; 4], calls: Cell::new(0) };
    let rng = CountRng::new(100);
    let w = World { ctxt: &ctxt, em: &em, clock: &clock, rng: &rng, spans: Cell::new(0), enabled_spans: Cell::new(0) };
    match incoming {
        0 => node(&w, depth, Val::None, Val::None),
        1 => {
            // incoming ids placed in the context as typed values
            let t = TraceId::from_u128(7).unwrap();
            let s = SpanId::from_u64(9).unwrap();
            SpanCtxt::new(Some(t), None, Some(s)).push(&ctxt).call(|| node(&w, depth, Val::Trace(7), Val::Span(9)));
        }
        _ => {
            // incoming ids as hex text properties
            Frame::push(&ctxt, [("trace_id", "00000000000000000000000000000007"), ("span_id", "0000000000000009")])
                .call(|| node(&w, depth, Val::Trace(7), Val::Span(9)));
        }
    }
    assert!(same_view(&ctxt.view(), &[Val::None; 6]));
    // ids are taken from the counter rng: non-zero and pairwise distinct by construction of the rng;
    // the number of draws is bounded by two per span
    assert!(rng.next.get() - 100 <= 2 * w.spans.get() as u64);
    kani::cover!(w.spans.get() >= 3 && w.enabled_spans.get() >= 2, "three spans, two enabled");
    kani::cover!(w.spans.get() >= 2 && w.enabled_spans.get() == 1, "opt:a rejected span among enabled ones");
}

#[kani::proof]
#[kani::unwind(13)]
#[kani::stub(emit::span::TraceId::try_from_hex, trace_hex_unreachable)]
#[kani::stub(emit::span::SpanId::try_from_hex, span_hex_unreachable)]
pub fn c04_q_span_tree_depth1_fresh() { run_tree(1, 0); }

#[kani::proof]
#[kani::unwind(13)]
#[kani::stub(emit::span::TraceId::try_from_hex, trace_hex_unreachable)]
#[kani::stub(emit::span::SpanId::try_from_hex, span_hex_unreachable)]
pub fn c04_q_span_tree_depth1_incoming_typed() { run_tree(1, 1); }

#[kani::proof]
#[kani::unwind(34)]
pub fn c04_t_span_tree_depth1_incoming_text() { run_tree(1, 2); }

#[kani::proof]
#[kani::unwind(13)]
#[kani::stub(emit::span::TraceId::try_from_hex, trace_hex_unreachable)]
#[kani::stub(emit::span::SpanId::try_from_hex, span_hex_unreachable)]
pub fn c04_t_span_tree_depth2_fresh() { run_tree(2, 0); }

/// ids drawn for new spans: non-zero, child keeps the trace id, parent link = creator's span id.
#[kani::proof]
#[kani::unwind(13)]
pub fn c04_q_span_ctxt_child_ids() {
    let start: u64 = kani::any();
    kani::assume(start >= 1 && start < u64::MAX - 8);
    let rng = CountRng::new(start);
    let root = SpanCtxt::new_root(&rng);
    let child = root.new_child(&rng);
    let grand = child.new_child(&rng);
    assert!(root.trace_id().is_some() && root.span_id().is_some() && root.span_parent().is_none());
    assert!(child.trace_id() == root.trace_id() && grand.trace_id() == root.trace_id());
    assert!(child.span_parent() == root.span_id() && grand.span_parent() == child.span_id());
    assert!(child.span_id() != root.span_id() && grand.span_id() != child.span_id() && grand.span_id() != root.span_id());
    // a zero draw yields no id rather than a zero id
    let zero = CountRng::new(0);
    assert!(SpanId::random(&zero).is_none());
    kani::cover!(start == 1, "smallest seed");
}

#[kani::proof]
#[kani::unwind(13)]
#[kani::stub(emit::span::TraceId::try_from_hex, trace_hex_unreachable)]
#[kani::stub(emit::span::SpanId::try_from_hex, span_hex_unreachable)]
pub fn c04_w_twin_rejected_span_is_parent() {
    // false claim: children of a rejected span carry the rejected span's id as ambient span id
    let ctxt = ArrCtxt::new();
    let clock = SeqClock { readings: [None; 4], calls: Cell::new(0) };
    let rng = CountRng::new(100);
    let (g, frame) = SpanGuard::new(RecFilter::new(false), &ctxt, &clock, &rng, Empty, Empty, Path::new_raw("m"), "s", Empty);
    frame.call(|| {
        assert!(SpanCtxt::current(&ctxt).span_id().is_some());
    });
    core::mem::forget(g);
}

