//! C04 (generic part, over the harness context) — nested spans form one consistent trace tree:
//! trace id constant, parent = nearest ENABLED ancestor, ids non-zero and distinct while the rng does
//! not repeat, events carry the innermost enabled span's ids, a rejected span contributes none,
//! ambient ids revert when a span ends.
use crate::env::*;
use core::cell::Cell;
use emit::span::{completion, SpanCtxt, SpanGuard, SpanId, TraceId};
use emit::Frame;
use emit_core::ctxt::Ctxt;
use emit_core::emitter::Emitter;
use emit_core::empty::Empty;
use emit_core::event::{Event, ToEvent};
use emit_core::path::Path;
use emit_core::props::Props;
use emit_core::template::Template;

/// Tree emitter: checks every event against the ghost ids set by the harness just before the event
/// is produced; collects span ids to check distinctness.
pub struct TreeEmitter {
    pub calls: Cell<u32>,
    pub want_trace: Cell<Val>,
    pub want_span: Cell<Val>,
    pub want_parent: Cell<Val>,
    pub check_parent: Cell<bool>,
    pub ids: Cell<[u64; 8]>,
    pub n_ids: Cell<usize>,
}

impl TreeEmitter {
    pub fn new() -> Self {
        TreeEmitter { calls: Cell::new(0), want_trace: Cell::new(Val::None), want_span: Cell::new(Val::None), want_parent: Cell::new(Val::None),
            check_parent: Cell::new(false), ids: Cell::new([0; 8]), n_ids: Cell::new(0) }
    }
}

impl Emitter for TreeEmitter {
    fn emit<E: ToEvent>(&self, evt: E) {
        self.calls.set(self.calls.get() + 1);
        let s = SeenEvt::of(evt);
        assert!(s.vals[K_TRACE] == self.want_trace.get(), "every span and event carries the trace id of the outermost span");
        assert!(s.vals[K_SPAN] == self.want_span.get(), "span id of the innermost enclosing enabled span");
        if self.check_parent.get() {
            assert!(s.vals[K_PARENT] == self.want_parent.get(), "parent id is the id of the nearest enabled ancestor");
        }
    }
    fn blocking_flush(&self, _: core::time::Duration) -> bool { true }
}

struct World<'a> {
    ctxt: &'a ArrCtxt,
    em: &'a TreeEmitter,
    clock: &'a SeqClock,
    rng: &'a CountRng,
    spans: Cell<u32>,
    enabled_spans: Cell<u32>,
}

fn emit_event(w: &World, trace: Val, span: Val) {
    w.em.want_trace.set(trace);
    w.em.want_span.set(span);
    w.em.check_parent.set(false);
    emit_core::emit(w.em, Empty, w.ctxt, Empty, Event::new(Path::new_raw("m"), Template::literal("e"), Empty, Empty));
}

/// One node of the span tree. `trace`/`nearest` are the ghost model: the trace id in force and the
/// id of the nearest enabled ancestor.
fn node(w: &World, depth: usize, trace: Val, nearest: Val) {
    let before = w.ctxt.view();
    let verdict: bool = kani::any();
    let next_id = w.rng.next.get();
    let (mut guard, frame) = SpanGuard::new(RecFilter::new(verdict), w.ctxt, w.clock, w.rng,
        completion::default(w.em, w.ctxt), Empty, Path::new_raw("m"), "s", Empty);
    w.spans.set(w.spans.get() + 1);
    // ghost: ids this span gets (a fresh trace id only when none is in force)
    let (my_trace, my_span) = match trace {
        Val::None => (Val::Trace(next_id as u128), Val::Span(next_id + 1)),
        t => (t, Val::Span(next_id)),
    };
    let (in_trace, in_span) = if verdict { (my_trace, my_span) } else { (trace, nearest) };
    if verdict { w.enabled_spans.set(w.enabled_spans.get() + 1); }
    frame.call(move || {
        guard.start();
        let ev_before: bool = kani::any();
        if ev_before { emit_event(w, in_trace, in_span); }
        if depth > 0 {
            let kids: usize = kani::any();
            kani::assume(kids <= 2);
            let mut k = 0;
            while k < 2 {
                if k < kids { node(w, depth - 1, in_trace, in_span); }
                k += 1;
            }
        }
        // completion: the span event itself
        w.em.want_trace.set(my_trace);
        w.em.want_span.set(my_span);
        w.em.want_parent.set(nearest);
        w.em.check_parent.set(true);
        let calls = w.em.calls.get();
        drop(guard);
        assert!(w.em.calls.get() == calls + if verdict { 1 } else { 0 }, "a rejected span emits nothing");
        let cur = SpanCtxt::current(w.ctxt);
        match in_span { Val::Span(s) => assert!(cur.span_id().map(|i| i.to_u64()) == Some(s)), _ => assert!(cur.span_id().is_none()) }
    });
    assert!(same_view(&w.ctxt.view(), &before), "when a span ends the ambient ids revert to its parent's");
}

/// ONE INDUCTIVE STEP of the trace tree (whole trees do not fit CBMC's memory: every id -> Value
/// conversion walks value-bag's primitive type table, times the number of paths; measured: a
/// two-span chain runs out of 14 GB). From an ARBITRARY ambient state (no ids, or any trace id / span
/// id / parent id), creating one span with a symbolic filter verdict and running it inside its frame:
///  * enabled: inside the frame the ambient ids are (ambient trace id or else a fresh one, the new span
///    id, parent = the ambient span id); the event emitted inside and the span's own event carry them;
///  * rejected: the frame adds nothing (children attach to the nearest enabled ancestor), no span event;
///  * afterwards the ambient ids are exactly what they were.
/// With C03's frame discipline (views nest and restore) this step composes to trees of any depth.
fn span_step(with_event: bool, amb: u8, sym_ids: bool) {
    let ctxt = ArrCtxt::new();
    let em = TreeEmitter::new();
    let clock = SeqClock { readings: [None; 4], calls: Cell::new(0) };
    let rng = CountRng::new(100);
    let w = World { ctxt: &ctxt, em: &em, clock: &clock, rng: &rng, spans: Cell::new(0), enabled_spans: Cell::new(0) };
    // arbitrary ambient ids
    // `amb`: 0 = nothing ambient, 1 = ambient ids present, other = symbolic (one harness per case runs in parallel)
    let has: bool = if amb == 0 { false } else if amb == 1 { true } else { kani::any() };
    // the quick tier fixes the VALUES of the ambient ids (the logic under test copies them, it does not compute with
    // them; symbolic 128/64-bit ids cost 4x the time); the thorough tier keeps them symbolic
    let t: u128 = if sym_ids { kani::any() } else { 0x0af7651916cd43dd8448eb211c80319c };
    let sp: u64 = if sym_ids { kani::any() } else { 0x00f067aa0ba902b7 };
    let has_parent: bool = kani::any();
    let pp: u64 = if sym_ids { kani::any() } else { 5 };
    kani::assume(t != 0 && sp != 0 && pp != 0 && sp != 100 && sp != 101);
    if has {
        *ctxt.cur.borrow_mut() = ArrProps { a: None, b: None, trace: TraceId::from_u128(t), span: SpanId::from_u64(sp),
            parent: if has_parent { SpanId::from_u64(pp) } else { None } };
    }
    // (an ambient trace id WITHOUT a span id is decided by the kernel c04_q_new_child_from_any_ambient)
    let before = ctxt.view();
    let (amb_trace, amb_span) = if has { (Val::Trace(t), Val::Span(sp)) } else { (Val::None, Val::None) };
    let verdict: bool = kani::any();
    let (mut guard, frame) = SpanGuard::new(RecFilter::new(verdict), &ctxt, &clock, &rng, completion::default(&em, &ctxt), Empty, Path::new_raw("m"), "s", Empty);
    let (my_trace, my_span) = if has { (Val::Trace(t), Val::Span(100)) } else { (Val::Trace(100), Val::Span(101)) };
    assert!(same_view(&ctxt.view(), &before), "creating a span does not change what is ambient");
    frame.call(|| {
        guard.start();
        let v = ctxt.view();
        if verdict {
            assert!(v[K_TRACE] == my_trace && v[K_SPAN] == my_span && v[K_PARENT] == amb_span, "enabled span: (trace, new span id, parent = enclosing span)");
        } else {
            assert!(same_view(&v, &before), "a rejected span contributes no ids");
        }
        if with_event {
            let (et, es) = if verdict { (my_trace, my_span) } else { (amb_trace, amb_span) };
            emit_event(&w, et, es);
        }
        em.want_trace.set(my_trace); em.want_span.set(my_span); em.want_parent.set(amb_span); em.check_parent.set(true);
        let n = em.calls.get();
        drop(guard);
        assert!(em.calls.get() == n + if verdict { 1 } else { 0 }, "a rejected span emits nothing");
    });
    assert!(same_view(&ctxt.view(), &before), "when the span ends the ambient ids revert");
    kani::cover!(has && verdict, "opt:child span of an ambient trace");
    kani::cover!(!has && verdict, "opt:root span of a fresh trace");
    kani::cover!(has && !verdict, "opt:rejected span inside a trace");
    kani::cover!(verdict, "enabled");
    kani::cover!(!verdict, "rejected");
}

#[kani::proof]
#[kani::unwind(13)]
#[kani::stub(emit::span::TraceId::try_from_hex, trace_hex_unreachable)]
#[kani::stub(emit::span::SpanId::try_from_hex, span_hex_unreachable)]
#[kani::stub(<u128 as emit_core::value::FromValue>::from_value, u128_from_value_unreachable)]
#[kani::stub(<u64 as emit_core::value::FromValue>::from_value, u64_from_value_unreachable)]
pub fn c04_q_span_step_fresh() { span_step(false, 0, false); }

#[kani::proof]
#[kani::unwind(13)]
#[kani::stub(emit::span::TraceId::try_from_hex, trace_hex_unreachable)]
#[kani::stub(emit::span::SpanId::try_from_hex, span_hex_unreachable)]
#[kani::stub(<u128 as emit_core::value::FromValue>::from_value, u128_from_value_unreachable)]
#[kani::stub(<u64 as emit_core::value::FromValue>::from_value, u64_from_value_unreachable)]
pub fn c04_q_span_step_in_trace() { span_step(false, 1, false); }

#[kani::proof]
#[kani::unwind(13)]
#[kani::stub(emit::span::TraceId::try_from_hex, trace_hex_unreachable)]
#[kani::stub(emit::span::SpanId::try_from_hex, span_hex_unreachable)]
#[kani::stub(<u128 as emit_core::value::FromValue>::from_value, u128_from_value_unreachable)]
#[kani::stub(<u64 as emit_core::value::FromValue>::from_value, u64_from_value_unreachable)]
pub fn c04_t_span_step_with_event() { span_step(true, 2, true); }

/// ids drawn for new spans: non-zero, child keeps the trace id, parent link = creator's span id.
#[kani::proof]
#[kani::unwind(13)]
pub fn c04_q_span_ctxt_child_ids() {
    let start: u64 = kani::any();
    kani::assume(start >= 1 && start < u64::MAX - 8);
    let rng = CountRng::new(start);
    let root = SpanCtxt::new_root(&rng);
    let child = root.new_child(&rng);
    let grand = child.new_child(&rng);
    assert!(root.trace_id().is_some() && root.span_id().is_some() && root.span_parent().is_none());
    assert!(child.trace_id() == root.trace_id() && grand.trace_id() == root.trace_id());
    assert!(child.span_parent() == root.span_id() && grand.span_parent() == child.span_id());
    assert!(child.span_id() != root.span_id() && grand.span_id() != child.span_id() && grand.span_id() != root.span_id());
    // a zero draw yields no id rather than a zero id
    let zero = CountRng::new(0);
    assert!(SpanId::random(&zero).is_none());
    kani::cover!(start == 1, "smallest seed");
}

/// `new_child` from ANY ambient ids (each of trace id / span id / parent id present or absent, any value):
/// the child keeps the ambient trace id whenever there is one (also when no span id came with it - incoming
/// ids placed in the context need not include a span), draws a fresh one otherwise; its parent is the
/// ambient span id; its own span id is freshly drawn.
#[kani::proof]
#[kani::unwind(4)]
pub fn c04_q_new_child_from_any_ambient() {
    let t: u128 = kani::any();
    let sp: u64 = kani::any();
    let pp: u64 = kani::any();
    let amb = SpanCtxt::new(TraceId::from_u128(t), SpanId::from_u64(pp), SpanId::from_u64(sp));
    let rng = CountRng::new(100);
    let child = amb.new_child(&rng);
    if t != 0 {
        assert!(child.trace_id().map(|x| x.to_u128()) == Some(t), "the trace id of the incoming context is kept");
        assert!(child.span_id().map(|x| x.to_u64()) == Some(100));
    } else {
        assert!(child.trace_id().map(|x| x.to_u128()) == Some(100), "a fresh trace id only when none is in force");
        assert!(child.span_id().map(|x| x.to_u64()) == Some(101));
    }
    assert!(child.span_parent().map(|x| x.to_u64()) == if sp != 0 { Some(sp) } else { None }, "parent = the enclosing span, if any");
    kani::cover!(t != 0 && sp == 0, "trace id without a span id");
    kani::cover!(t == 0 && sp == 0, "nothing ambient");
    kani::cover!(t != 0 && sp != 0, "full ambient ids");
}

#[kani::proof]
#[kani::unwind(13)]
#[kani::stub(emit::span::TraceId::try_from_hex, trace_hex_unreachable)]
#[kani::stub(emit::span::SpanId::try_from_hex, span_hex_unreachable)]
pub fn c04_w_twin_rejected_span_is_parent() {
    // false claim: children of a rejected span carry the rejected span's id as ambient span id
    let ctxt = ArrCtxt::new();
    let clock = SeqClock { readings: [None; 4], calls: Cell::new(0) };
    let rng = CountRng::new(100);
    let (g, frame) = SpanGuard::new(RecFilter::new(false), &ctxt, &clock, &rng, Empty, Empty, Path::new_raw("m"), "s", Empty);
    frame.call(|| {
        assert!(SpanCtxt::current(&ctxt).span_id().is_some());
    });
    core::mem::forget(g);
}

