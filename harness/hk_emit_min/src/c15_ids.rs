//! C15 — trace/span ids, levels and kinds: text forms round-trip, parsers are total and accept
//! exactly the documented grammar.
use crate::util::*;
use core::fmt::Write as _;
use emit::span::{SpanId, TraceId};
use emit::{Kind, Level};
use emit_core::value::Value;

fn hexval(b: u8) -> Option<u8> {
    if b >= b'0' && b <= b'9' { Some(b - b'0') }
    else if b >= b'a' && b <= b'f' { Some(b - b'a' + 10) }
    else if b >= b'A' && b <= b'F' { Some(b - b'A' + 10) }
    else { None }
}

fn lower(b: u8) -> u8 { if b >= b'A' && b <= b'Z' { b + 32 } else { b } }

/// every 32-byte string (all 256 byte values per position)
#[kani::proof]
#[kani::unwind(34)]
pub fn c15_q_trace_id_parse_any32() {
    let b: [u8; 32] = kani::any();
    let r = TraceId::try_from_hex_slice(&b);
    let mut all_hex = true;
    let mut v: u128 = 0;
    let mut i = 0;
    while i < 32 {
        match hexval(b[i]) { Some(h) => { v = (v << 4) | h as u128; } None => { all_hex = false; } }
        i += 1;
    }
    let want_ok = all_hex && v != 0;
    assert!(r.is_ok() == want_ok, "accepts exactly 32 hex digits denoting a non-zero id");
    if let Ok(id) = r {
        assert!(id.to_u128() == v, "the digits' value");
        let back = id.to_hex();
        let mut i = 0;
        while i < 32 { assert!(back[i] == lower(b[i]), "formats back to the same digits (lowercase)"); i += 1; }
    }
    kani::cover!(want_ok, "accepted");
    kani::cover!(all_hex && v == 0, "all zero");
    kani::cover!(!all_hex, "non-hex byte");
}

#[kani::proof]
#[kani::unwind(18)]
pub fn c15_q_span_id_parse_any16() {
    let b: [u8; 16] = kani::any();
    let r = SpanId::try_from_hex_slice(&b);
    let mut all_hex = true;
    let mut v: u64 = 0;
    let mut i = 0;
    while i < 16 {
        match hexval(b[i]) { Some(h) => { v = (v << 4) | h as u64; } None => { all_hex = false; } }
        i += 1;
    }
    let want_ok = all_hex && v != 0;
    assert!(r.is_ok() == want_ok);
    if let Ok(id) = r {
        assert!(id.to_u64() == v);
        let back = id.to_hex();
        let mut i = 0;
        while i < 16 { assert!(back[i] == lower(b[i])); i += 1; }
    }
    kani::cover!(want_ok, "accepted");
    kani::cover!(!all_hex, "non-hex byte");
}

/// wrong lengths are rejected (symbolic length 0..=35, != 32 / != 16), any bytes
#[kani::proof]
#[kani::unwind(37)]
pub fn c15_q_id_parse_wrong_len() {
    let b: [u8; 35] = kani::any();
    let n: usize = kani::any();
    kani::assume(n <= 35);
    if n != 32 { assert!(TraceId::try_from_hex_slice(&b[..n]).is_err()); }
    if n != 16 { assert!(SpanId::try_from_hex_slice(&b[..n]).is_err()); }
    kani::cover!(n == 0, "empty");
    kani::cover!(n == 33, "one too long");
    kani::cover!(n == 16, "span id length given to the trace id parser");
}

/// all non-zero ids: format -> parse is the identity (hex, bytes, integer forms)
#[kani::proof]
#[kani::unwind(34)]
pub fn c15_q_trace_id_roundtrip_all() {
    let v: u128 = kani::any();
    match TraceId::from_u128(v) {
        None => assert!(v == 0),
        Some(id) => {
            assert!(v != 0 && id.to_u128() == v);
            let hex = id.to_hex();
            assert!(TraceId::try_from_hex_slice(&hex).ok() == Some(id));
            assert!(TraceId::from_bytes(id.to_bytes()) == Some(id));
            let s = unsafe { core::str::from_utf8_unchecked(&hex) };
            assert!(s.parse::<TraceId>().ok() == Some(id));
        }
    }
    kani::cover!(v == u128::MAX, "max");
    kani::cover!(v == 0, "zero");
}

#[kani::proof]
#[kani::unwind(18)]
pub fn c15_q_span_id_roundtrip_all() {
    let v: u64 = kani::any();
    match SpanId::from_u64(v) {
        None => assert!(v == 0),
        Some(id) => {
            assert!(v != 0 && id.to_u64() == v);
            let hex = id.to_hex();
            assert!(SpanId::try_from_hex_slice(&hex).ok() == Some(id));
            assert!(SpanId::from_bytes(id.to_bytes()) == Some(id));
            let s = unsafe { core::str::from_utf8_unchecked(&hex) };
            assert!(s.parse::<SpanId>().ok() == Some(id));
        }
    }
    kani::cover!(v == 1, "one");
    kani::cover!(v == 0, "zero");
}

/// Display writes the hex form.
#[kani::proof]
#[kani::unwind(34)]
#[kani::stub(core::str::from_utf8, ascii_from_utf8)]
pub fn c15_q_id_display() {
    let v: u64 = kani::any();
    kani::assume(v != 0);
    let id = SpanId::from_u64(v).unwrap();
    let mut w = Buf::<20>::new();
    assert!(write!(w, "{}", id).is_ok());
    let hex = id.to_hex();
    assert!(w.n == 16);
    let mut i = 0;
    while i < 16 { assert!(w.b[i] == hex[i]); i += 1; }
    kani::cover!(v == u64::MAX, "max");
}

/// Casting from a typed value or an integer value gives the id (the cast from TEXT goes through the same
/// `try_from_hex` codec decided above, fed by formatting the value - that path does not finish under CBMC).
#[kani::proof]
#[kani::unwind(34)]
#[kani::stub(emit::span::SpanId::try_from_hex, crate::env::span_hex_unreachable)]
pub fn c15_q_id_from_typed_and_integer_value() {
    let v: u64 = kani::any();
    kani::assume(v != 0);
    let id = SpanId::from_u64(v).unwrap();
    assert!(Value::from_any(&id).cast::<SpanId>() == Some(id));
    assert!(Value::from(v).cast::<SpanId>() == Some(id));
    kani::cover!(v == u64::MAX, "max");
}

#[kani::proof]
#[kani::unwind(34)]
pub fn c15_x_trace_id_from_value() {
    let v: u128 = kani::any();
    kani::assume(v != 0);
    let id = TraceId::from_u128(v).unwrap();
    assert!(Value::from_any(&id).cast::<TraceId>() == Some(id));
    assert!(Value::from(v).cast::<TraceId>() == Some(id));
    let hex = id.to_hex();
    let s = unsafe { core::str::from_utf8_unchecked(&hex) };
    assert!(Value::from(s).cast::<TraceId>() == Some(id));
    kani::cover!(v > u64::MAX as u128, "wide");
}

// ---- levels -------------------------------------------------------------------------------

pub const LALPHA: [u8; 20] = *b"iInfodbgeErwWa1 (\x01\n\t";

fn up(b: u8) -> u8 { if b >= b'a' && b <= b'z' { b - 32 } else { b } }
fn is_alpha(b: u8) -> bool { (b >= b'a' && b <= b'z') || (b >= b'A' && b <= b'Z') }

fn word_matches(s: &[u8], w: &[u8]) -> bool {
    // s[0] already matched w[0]
    let mut i = 1;
    while i < s.len() {
        let c = s[i];
        if is_alpha(c) {
            if i >= w.len() || up(c) != w[i] { return false; }
        } else if c < 0x80 && c >= 0x20 && c != 0x7f {
            return true;
        } else {
            return false;
        }
        i += 1;
    }
    true
}

/// The documented lenient grammar (module docs of `emit::level`).
pub fn ref_level(raw: &[u8]) -> Option<Level> {
    // trim whitespace at both ends (the alphabet's whitespace: blank, newline, tab)
    let ws = |c: u8| c == b' ' || c == b'\n' || c == b'\t';
    let mut lo = 0;
    let mut hi = raw.len();
    while lo < hi && ws(raw[lo]) { lo += 1; }
    while hi > lo && ws(raw[hi - 1]) { hi -= 1; }
    let s = &raw[lo..hi];
    if s.is_empty() { return None; }
    match up(s[0]) {
        b'I' => if word_matches(s, b"INFORMATION") { Some(Level::Info) } else { None },
        b'D' => if word_matches(s, b"DEBUG") || word_matches(s, b"DBG") { Some(Level::Debug) } else { None },
        b'E' => if word_matches(s, b"ERROR") { Some(Level::Error) } else { None },
        b'W' => if word_matches(s, b"WARNING") || word_matches(s, b"WRN") { Some(Level::Warn) } else { None },
        _ => None,
    }
}

fn level_parse_len<const N: usize>() {
    let b: [u8; N] = sym_arr(&LALPHA);
    let n: usize = kani::any();
    kani::assume(n <= N);
    let s = unsafe { core::str::from_utf8_unchecked(&b[..n]) };
    let got = Level::try_from_str(s).ok();
    let want = ref_level(&b[..n]);
    assert!(got == want, "the lenient level grammar");
    kani::cover!(want == Some(Level::Debug) && n >= 3, "debug");
    kani::cover!(want.is_none() && n >= 2, "rejected");
}

#[kani::proof]
#[kani::unwind(7)]
pub fn c15_q_level_parse_len4() { level_parse_len::<4>(); }

#[kani::proof]
#[kani::unwind(9)]
pub fn c15_t_level_parse_len6() { level_parse_len::<6>(); }

/// Display -> parse identity for every level; a typed level value casts back to itself.
#[kani::proof]
#[kani::unwind(10)]
#[kani::stub(emit_core::value::Value::parse, crate::env::parse_unreachable)]
pub fn c15_q_level_display_roundtrip() {
    let k: u8 = kani::any();
    kani::assume(k < 4);
    let lvl = [Level::Debug, Level::Info, Level::Warn, Level::Error][k as usize];
    let mut w = Buf::<12>::new();
    assert!(write!(w, "{}", lvl).is_ok());
    assert!(Level::try_from_str(w.as_str()).ok() == Some(lvl));
    assert!(Value::from_any(&lvl).cast::<Level>() == Some(lvl));
    kani::cover!(k == 3, "error level");
}

/// Display -> parse identity for every kind.
#[kani::proof]
#[kani::unwind(10)]
#[kani::stub(emit_core::value::Value::parse, crate::env::parse_unreachable)]
pub fn c15_q_kind_display_roundtrip() {
    let kind = if kani::any() { Kind::Span } else { Kind::Metric };
    let mut w2 = Buf::<12>::new();
    assert!(write!(w2, "{}", kind).is_ok());
    assert!(Kind::try_from_str(w2.as_str()).ok() == Some(kind));
    assert!(Value::from_any(&kind).cast::<Kind>() == Some(kind));
    kani::cover!(kind == Kind::Metric, "metric");
}

#[kani::proof]
#[kani::unwind(8)]
pub fn c15_q_kind_parse_len4() {
    // over {s,S,p,a,n,N,m,blank,x}: only (case-insensitive, blank-trimmed) "span" is a kind of <= 6 bytes here
    const A: [u8; 9] = *b"sSpanNm x";
    let b: [u8; 6] = sym_arr(&A);
    let n: usize = kani::any();
    kani::assume(n <= 6);
    let s = unsafe { core::str::from_utf8_unchecked(&b[..n]) };
    let got = Kind::try_from_str(s).ok();
    // reference
    let mut lo = 0; let mut hi = n;
    while lo < hi && b[lo] == b' ' { lo += 1; }
    while hi > lo && b[hi - 1] == b' ' { hi -= 1; }
    let t = &b[lo..hi];
    let is_span = t.len() == 4 && up(t[0]) == b'S' && up(t[1]) == b'P' && up(t[2]) == b'A' && up(t[3]) == b'N';
    assert!(got == if is_span { Some(Kind::Span) } else { None });
    kani::cover!(is_span && n == 6, "span with blanks");
    kani::cover!(!is_span && n == 4, "rejected");
}

#[kani::proof]
#[kani::unwind(34)]
pub fn c15_w_twin_any_hex_accepted() {
    // false claim: every 32 hex digits are an id (zero is not)
    let b: [u8; 32] = kani::any();
    let mut all_hex = true;
    let mut i = 0;
    while i < 32 { if hexval(b[i]).is_none() { all_hex = false; } i += 1; }
    if all_hex { assert!(TraceId::try_from_hex_slice(&b).is_ok()); }
}
