//! C19 (part) — values captured at a macro call site keep their type: by default numbers, booleans
//! and strings can be pulled back as the same typed value (directly, through a type-erased event and
//! through a borrowed value), anything else displays as its Display text; display/debug modes give
//! exactly the corresponding formatting; an optional capture of None contributes no property.
//! (emit built without features: the owned/shared/buffered paths are in the std group.)
use crate::util::*;
use core::fmt;
use core::fmt::Write as _;
use core::ops::ControlFlow;
use emit::Props;
use emit_core::empty::Empty;
use emit_core::event::Event;
use emit_core::path::Path;
use emit_core::props::ErasedProps;
use emit_core::template::Template;

macro_rules! prim {
    ($name:ident, $t:ty) => {
        #[kani::proof]
        #[kani::unwind(6)]
        pub fn $name() {
            let v: $t = kani::any();
            let p = emit::props! { v };
            assert!(p.pull::<$t, _>("v") == Some(v), "the same typed value comes back");
            let evt = Event::new(Path::new_raw("m"), Template::literal("t"), Empty, &p);
            let erased = evt.erase();
            assert!(erased.props().pull::<$t, _>("v") == Some(v), "also through a type-erased event");
            let val = p.get("v").unwrap();
            assert!(val.by_ref().cast::<$t>() == Some(v), "also through a borrowed value");
            // as_value capture mode
            let q = emit::props! { #[emit::as_value] v };
            assert!(q.pull::<$t, _>("v") == Some(v));
            kani::cover!(v == <$t>::MAX, "maximum");
            kani::cover!(v == <$t>::MIN, "minimum");
        }
    };
}

prim!(c19_q_capture_u8, u8);
prim!(c19_q_capture_i32, i32);
prim!(c19_q_capture_u64, u64);
prim!(c19_q_capture_i64, i64);
prim!(c19_q_capture_u128, u128);
prim!(c19_q_capture_i128, i128);
prim!(c19_t_capture_i8, i8);
prim!(c19_t_capture_u16, u16);
prim!(c19_t_capture_i16, i16);
prim!(c19_t_capture_u32, u32);

#[kani::proof]
#[kani::unwind(6)]
pub fn c19_q_capture_bool_f64_str() {
    let b: bool = kani::any();
    let bits: u64 = kani::any();
    let f = f64::from_bits(bits);
    let si: usize = kani::any();
    const POOL: [&str; 3] = ["", "x", "\u{e9}y"];
    kani::assume(si < 3);
    let s = POOL[si];
    let p = emit::props! { b, f, s };
    assert!(p.pull::<bool, _>("b") == Some(b));
    let back = p.pull::<f64, _>("f").unwrap();
    assert!(back.to_bits() == bits || (f.is_nan() && back.is_nan()), "floats keep their value (NaN stays NaN)");
    let e: &dyn ErasedProps = &p;
    assert!(e.pull::<&str, _>("s") == Some(s), "strings come back as the same borrowed text");
    assert!(e.pull::<bool, _>("b") == Some(b));
    // a number is not a bool and vice versa
    assert!(p.pull::<bool, _>("f").is_none());
    kani::cover!(f.is_nan(), "NaN");
    kani::cover!(f.is_infinite(), "infinite");
    kani::cover!(si == 2, "non-ASCII text");
}

struct Shown(u8);
impl fmt::Display for Shown {
    fn fmt(&self, f: &mut fmt::Formatter) -> fmt::Result { f.write_str(if self.0 % 2 == 0 { "even" } else { "odd!" }) }
}
impl fmt::Debug for Shown {
    fn fmt(&self, f: &mut fmt::Formatter) -> fmt::Result { f.write_str(if self.0 % 2 == 0 { "DBG-E" } else { "DBG-O" }) }
}

fn text_of(v: &emit_core::value::Value) -> Buf<16> {
    let mut w = Buf::<16>::new();
    let _ = write!(w, "{}", v);
    w
}

fn is(w: &Buf<16>, s: &str) -> bool {
    if w.n != s.len() { return false; }
    let mut i = 0;
    while i < s.len() { if w.b[i] != s.as_bytes()[i] { return false; } i += 1; }
    true
}

// Formatting a `Value` goes through value-bag's Display/Debug visitor, whose arms for the primitive variants call
// core's number formatting (float formatting does not finish under CBMC). The value formatted here is a custom
// Display/Debug type, so those arms are dead: they are replaced by assert-unreachable stubs.
pub fn f64_fmt_unreachable(_v: &f64, _f: &mut fmt::Formatter<'_>) -> fmt::Result { panic!("float formatting reached for a non-float value") }
pub fn i64_fmt_unreachable(_v: &i64, _f: &mut fmt::Formatter<'_>) -> fmt::Result { panic!("integer formatting reached for a non-integer value") }
pub fn u64_fmt_unreachable(_v: &u64, _f: &mut fmt::Formatter<'_>) -> fmt::Result { panic!("integer formatting reached for a non-integer value") }
pub fn i128_fmt_unreachable(_v: &i128, _f: &mut fmt::Formatter<'_>) -> fmt::Result { panic!("integer formatting reached for a non-integer value") }
pub fn u128_fmt_unreachable(_v: &u128, _f: &mut fmt::Formatter<'_>) -> fmt::Result { panic!("integer formatting reached for a non-integer value") }

/// default / display / debug capture of a non-primitive: exactly the corresponding formatting.
/// NOT REGISTERED (`c19_x_*`): no verdict in 15 min even with the dead numeric formatters stubbed out.
#[kani::proof]
#[kani::unwind(8)]
#[kani::stub(<f64 as core::fmt::Display>::fmt, f64_fmt_unreachable)]
#[kani::stub(<f64 as core::fmt::Debug>::fmt, f64_fmt_unreachable)]
#[kani::stub(<i64 as core::fmt::Display>::fmt, i64_fmt_unreachable)]
#[kani::stub(<i64 as core::fmt::Debug>::fmt, i64_fmt_unreachable)]
#[kani::stub(<u64 as core::fmt::Display>::fmt, u64_fmt_unreachable)]
#[kani::stub(<u64 as core::fmt::Debug>::fmt, u64_fmt_unreachable)]
#[kani::stub(<i128 as core::fmt::Display>::fmt, i128_fmt_unreachable)]
#[kani::stub(<i128 as core::fmt::Debug>::fmt, i128_fmt_unreachable)]
#[kani::stub(<u128 as core::fmt::Display>::fmt, u128_fmt_unreachable)]
#[kani::stub(<u128 as core::fmt::Debug>::fmt, u128_fmt_unreachable)]
pub fn c19_x_capture_display_debug_modes() {
    let x: u8 = kani::any();
    let v = Shown(x);
    let p = emit::props! { v, #[emit::as_display] d: v, #[emit::as_debug] g: v };
    let want_disp = if x % 2 == 0 { "even" } else { "odd!" };
    let want_dbg = if x % 2 == 0 { "DBG-E" } else { "DBG-O" };
    assert!(is(&text_of(&p.get("v").unwrap()), want_disp), "default capture displays as the Display text");
    assert!(is(&text_of(&p.get("d").unwrap()), want_disp), "display mode");
    assert!(is(&text_of(&p.get("g").unwrap()), want_dbg), "debug mode");
    assert!(p.pull::<u8, _>("v").is_none(), "a non-primitive does not masquerade as a number");
    kani::cover!(x % 2 == 1, "odd");
}

/// optional capture: None contributes no property at all; Some(v) is v
#[kani::proof]
#[kani::unwind(6)]
pub fn c19_q_capture_optional() {
    let o: Option<i32> = kani::any();
    let p = emit::props! { #[emit::optional] o: o.as_ref(), k: 1 };
    let mut n = 0;
    let mut saw_o = false;
    let _ = p.for_each(|k, _| { n += 1; if k.get() == "o" { saw_o = true; } ControlFlow::Continue(()) });
    assert!(saw_o == o.is_some() && n == if o.is_some() { 2 } else { 1 }, "None contributes no property");
    assert!(p.pull::<i32, _>("o") == o);
    kani::cover!(o.is_none(), "absent");
    kani::cover!(o == Some(i32::MIN), "present");
}

#[kani::proof]
#[kani::unwind(6)]
pub fn c19_w_twin_numbers_pull_as_any_width() {
    // false claim: a captured u64 can always be pulled back as u8
    let v: u64 = kani::any();
    let p = emit::props! { v };
    assert!(p.pull::<u8, _>("v").is_some());
}
