//! C03 (generic part) — the frame discipline of `emit::Frame` / `EnterGuard` / `FrameFuture` and the
//! `Ctxt` trait's default `open_push` / `open_disabled`, over the array-backed harness context
//! (`env::ArrCtxt`): the ambient view is exactly that of the innermost active frame; leaving a
//! frame (guard drop, closure return, future completing or suspending between polls) restores
//! exactly what was visible before; nothing leaks between interleaved futures or context instances.
//! The real `ThreadLocalCtxt` (hash maps in TLS) does not fit CBMC (DESIGN.md §3): its own
//! functions are outside this harness.
use crate::env::*;
use core::future::Future;
use core::pin::Pin;
use core::task::{Context, Poll, Waker};
use emit::Frame;
use emit_core::ctxt::Ctxt;
use emit_core::empty::Empty;
use emit_core::props::Props;

type View = [Val; 6];

fn overlay(base: &View, own: &View) -> View {
    let mut v = *base;
    let mut i = 0;
    while i < 6 {
        if own[i] != Val::None { v[i] = own[i]; }
        i += 1;
    }
    v
}

/// Symbolic own properties of a frame: up to two pairs with distinct keys from {a, b}.
fn sym_own() -> ArrProps {
    let mut p = ArrProps::EMPTY;
    let has_a: bool = kani::any();
    let has_b: bool = kani::any();
    if has_a { p.a = Some(kani::any()); }
    if has_b { p.b = Some(kani::any()); }
    p
}

fn open(ctxt: &ArrCtxt, kind: u8, own: ArrProps) -> Frame<&ArrCtxt> {
    match kind {
        0 => Frame::push(ctxt, own),
        1 => Frame::root(ctxt, own),
        2 => Frame::disabled(ctxt, own),
        _ => Frame::current(ctxt),
    }
}

fn expected(kind: u8, model: &View, own: &ArrProps) -> View {
    match kind {
        0 => overlay(model, &own.view()),
        1 => own.view(),
        _ => *model,
    }
}

/// A symbolic well-nested program: at each level up to two sibling frames of symbolic kind and entry
/// API, recursing inside.
fn level(ctxt: &ArrCtxt, other: &ArrCtxt, depth: usize, model: View, max_sibs: usize) { level_api(ctxt, other, depth, model, max_sibs, 9) }

/// `outer_api` < 4 fixes the entry API of the frames at THIS level (the levels below stay symbolic): lets one program
/// family be split into parallel harnesses.
fn level_api(ctxt: &ArrCtxt, other: &ArrCtxt, depth: usize, model: View, max_sibs: usize, outer_api: u8) {
    assert!(same_view(&ctxt.view(), &model), "ambient view is that of the innermost active frame");
    assert!(same_view(&other.view(), &[Val::None; 6]), "nothing leaks to another context instance");
    if depth == 0 { return; }
    let sibs: usize = kani::any();
    kani::assume(sibs <= 2 && sibs <= max_sibs);
    let mut s = 0;
    while s < 2 {
        if s < sibs {
            let kind: u8 = kani::any();
            kani::assume(kind <= 3);
            let own = sym_own();
            let want = expected(kind, &model, &own);
            let mut frame = open(ctxt, kind, own);
            assert!(same_view(&ctxt.view(), &model), "creating a frame does not change what is ambient");
            let api: u8 = if outer_api < 4 { outer_api } else { kani::any() };
            kani::assume(api <= 3);
            match api {
                0 => {
                    {
                        let _g = frame.enter();
                        level(ctxt, other, depth - 1, want, max_sibs);
                    }
                    assert!(same_view(&ctxt.view(), &model), "dropping the guard restores the previous view");
                    let again: bool = kani::any();
                    if again {
                        let _g = frame.enter();
                        assert!(same_view(&ctxt.view(), &want), "re-entering shows the frame's properties again");
                    }
                }
                1 => frame.call(|| level(ctxt, other, depth - 1, want, max_sibs)),
                2 => frame.with(|cur| assert!(same_view(&cur.view(), &want), "with() exposes the frame's view")),
                _ => { let f = frame.in_fn(|| level(ctxt, other, depth - 1, want, max_sibs)); f(); }
            }
            assert!(same_view(&ctxt.view(), &model), "leaving a frame restores exactly what was visible before");
        }
        s += 1;
    }
}

/// two nested levels, one frame per level (plus optional re-entry); one harness per entry API of the OUTER frame
/// (the inner frame's kind and API stay symbolic) so that they run in parallel (one harness took 540 s)
fn chain2(outer_api: u8) {
    let ctxt = ArrCtxt::new();
    let other = ArrCtxt::new();
    level_api(&ctxt, &other, 2, [Val::None; 6], 1, outer_api);
    assert!(ctxt.enters.get() == ctxt.exits.get(), "every enter is matched by an exit");
    kani::cover!(ctxt.enters.get() >= 2, "two nested frames entered");
}

#[kani::proof]
#[kani::unwind(13)]
pub fn c03_q_nested_chain2_outer_enter() { chain2(0); }

#[kani::proof]
#[kani::unwind(13)]
pub fn c03_q_nested_chain2_outer_call() { chain2(1); }

#[kani::proof]
#[kani::unwind(13)]
pub fn c03_q_nested_chain2_outer_in_fn() { chain2(3); }

/// one level, up to two sibling frames one after the other
#[kani::proof]
#[kani::unwind(13)]
pub fn c03_q_sibling_frames() {
    let ctxt = ArrCtxt::new();
    let other = ArrCtxt::new();
    level(&ctxt, &other, 1, [Val::None; 6], 2);
    assert!(ctxt.enters.get() == ctxt.exits.get(), "every enter is matched by an exit");
    kani::cover!(ctxt.enters.get() >= 2, "two sibling frames entered");
}

#[kani::proof]
#[kani::unwind(13)]
pub fn c03_t_nested_frames_depth2() {
    let ctxt = ArrCtxt::new();
    let other = ArrCtxt::new();
    level(&ctxt, &other, 2, [Val::None; 6], 2);
    assert!(ctxt.enters.get() == ctxt.exits.get(), "every enter is matched by an exit");
    kani::cover!(ctxt.enters.get() >= 3, "three frames entered");
}

#[kani::proof]
#[kani::unwind(13)]
pub fn c03_x_nested_frames_depth3() {
    let ctxt = ArrCtxt::new();
    let other = ArrCtxt::new();
    level(&ctxt, &other, 3, [Val::None; 6], 1);
    kani::cover!(ctxt.enters.get() >= 3, "three nested frames entered");
}

// ---- futures ---------------------------------------------------------------------------------

/// A future that yields `yields` times; on every poll it checks that the ambient view is `want`.
struct Checker<'a> { ctxt: &'a ArrCtxt, want: View, yields: u8, polls: u8 }

impl<'a> Future for Checker<'a> {
    type Output = u8;
    fn poll(mut self: Pin<&mut Self>, _cx: &mut Context<'_>) -> Poll<u8> {
        assert!(same_view(&self.ctxt.view(), &self.want), "inside a frame-wrapped future the frame's view is ambient on every poll");
        self.polls += 1;
        if self.yields == 0 { Poll::Ready(self.polls) } else { self.yields -= 1; Poll::Pending }
    }
}

/// Two frame-wrapped futures polled in a symbolic order on the same context: each sees only its own
/// frame while it is being polled; between polls (suspended) the outer view is back.
#[kani::proof]
#[kani::unwind(13)]
pub fn c03_q_interleaved_futures() {
    let ctxt = ArrCtxt::new();
    let outer_own = sym_own();
    let outer = Frame::root(&ctxt, outer_own);
    outer.call(|| {
        let base = outer_own.view();
        let own1 = sym_own();
        let own2 = sym_own();
        let k1: u8 = kani::any();
        let k2: u8 = kani::any();
        kani::assume(k1 <= 2 && k2 <= 2);
        let y1: u8 = kani::any();
        let y2: u8 = kani::any();
        kani::assume(y1 <= 2 && y2 <= 2);
        let mut f1 = open(&ctxt, k1, own1).in_future(Checker { ctxt: &ctxt, want: expected(k1, &base, &own1), yields: y1, polls: 0 });
        let mut f2 = open(&ctxt, k2, own2).in_future(Checker { ctxt: &ctxt, want: expected(k2, &base, &own2), yields: y2, polls: 0 });
        let mut f1 = unsafe { Pin::new_unchecked(&mut f1) };
        let mut f2 = unsafe { Pin::new_unchecked(&mut f2) };
        let mut cx = Context::from_waker(Waker::noop());
        let mut done1 = false;
        let mut done2 = false;
        let mut step = 0;
        while step < 6 {
            let pick: bool = kani::any();
            if pick && !done1 {
                if let Poll::Ready(n) = f1.as_mut().poll(&mut cx) { done1 = true; assert!(n == y1 + 1); }
            } else if !done2 {
                if let Poll::Ready(n) = f2.as_mut().poll(&mut cx) { done2 = true; assert!(n == y2 + 1); }
            }
            assert!(same_view(&ctxt.view(), &base), "a suspended or completed future leaves no trace between polls");
            step += 1;
        }
        kani::cover!(done1 && done2 && y1 == 2 && y2 == 1, "both completed after interleaving");
    });
    assert!(same_view(&ctxt.view(), &[Val::None; 6]));
}

/// `&C`, `Option<C>` wrappers of a context behave like the context (or like no context).
#[kani::proof]
#[kani::unwind(13)]
pub fn c03_q_ctxt_wrappers() {
    let ctxt = ArrCtxt::new();
    let own = sym_own();
    let present: bool = kani::any();
    let opt: Option<&ArrCtxt> = if present { Some(&ctxt) } else { None };
    let kind: u8 = kani::any();
    kani::assume(kind <= 2);
    let frame = match kind { 0 => Frame::push(&opt, own), 1 => Frame::root(&opt, own), _ => Frame::disabled(&opt, own) };
    frame.call(|| {
        let want = if present { expected(kind, &[Val::None; 6], &own) } else { [Val::None; 6] };
        assert!(same_view(&ctxt.view(), &want));
        let seen = opt.with_current(|cur| ArrProps::collect(cur).view());
        assert!(same_view(&seen, &want), "Option<C> exposes the inner context's view, or nothing");
    });
    assert!(same_view(&ctxt.view(), &[Val::None; 6]));
    kani::cover!(present && kind == 0, "present, pushed");
    kani::cover!(!present, "absent context");
}

#[kani::proof]
#[kani::unwind(13)]
pub fn c03_w_twin_root_inherits() {
    // false claim: a root frame also shows what was ambient when it was created
    let ctxt = ArrCtxt::new();
    let outer = sym_own();
    let inner = sym_own();
    Frame::root(&ctxt, outer).call(|| {
        Frame::root(&ctxt, inner).call(|| {
            assert!(same_view(&ctxt.view(), &overlay(&outer.view(), &inner.view())));
        });
    });
}
