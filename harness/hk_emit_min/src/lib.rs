#![allow(dead_code, unused_imports, unused_variables, unused_mut)]
//! Kani harnesses over `emit` built with no features.
//! Naming: `cNN_q_*` quick+thorough, `cNN_t_*` thorough only, `cNN_w_*` mutant twin (must FAIL).

#[path = "../../common/util.rs"]
pub mod util;
#[path = "../../common/env.rs"]
pub mod env;
#[cfg(kani)]
pub mod c05_span;
#[cfg(kani)]
pub mod c15_ids;
#[cfg(kani)]
pub mod c17_level;
#[cfg(kani)]
pub mod c03_frames;
#[cfg(kani)]
pub mod c04_trace;
#[cfg(kani)]
pub mod c19_capture;
#[cfg(kani)]
pub mod c01_macro;
#[cfg(kani)]
pub mod c02_macro;
