#![allow(dead_code, unused_imports, unused_variables, unused_mut, static_mut_refs)]
//! Kani harnesses over `emit_otlp` (default-features = false) built against the scratch tree.
//! Naming: `cNN_q_*` quick+thorough, `cNN_t_*` thorough only, `cNN_w_*` mutant twin (must FAIL).

pub mod util;
#[cfg(kani)]
pub mod c14_route;
#[cfg(kani)]
pub mod c12_send;
#[cfg(kani)]
pub mod c12_chan;
#[cfg(kani)]
pub mod c13_anyvalue;
