//! C12 (partial) — `impl emit_batcher::Channel for client::Channel`: however a batch is split
//! into size-limited requests, the requests partition the pushed items in order (every item in
//! exactly one request), `len` is the number of items, and `clear` leaves an empty channel that
//! behaves like a fresh one.
//!
//! The scope -> payloads map inside `EncodedScopeItems` is the association list of
//! stubs/otlp.toml `scope-items-map` (hashbrown does not finish under CBMC).
use crate::util::*;
use emit_otlp::verif::VChannel;

/// `N` items (a constant of each instantiation: containers concrete in shape), payload sizes 0..=3
/// and one request size limit 0..=4 symbolic.
fn push_case<const N: usize, const TWIN: bool>() {
    let limit: usize = kani::any();
    kani::assume(limit <= 4);
    let mut sizes = [0usize; 4];
    let mut i = 0;
    while i < N {
        sizes[i] = kani::any();
        kani::assume(sizes[i] <= 3);
        i += 1;
    }
    let mut ch = VChannel::new();
    let mut i = 0;
    while i < N {
        ch.push_leaky(sizes[i], limit);
        i += 1;
    }
    assert!(ch.len() == N, "len is the number of items pushed");
    let nr = ch.n_requests();
    assert!(nr <= N, "no more requests than items");
    // Items are told apart by position only: reading the payloads back out of the requests does
    // not fit (302 s for two items, out of memory at 12 GB for the general oracle), so what is
    // checked is the accounting — every pushed item is counted in exactly one request — under the
    // assumption that a request keeps its items in push order (`Vec::push`).
    let mut k = 0; // items accounted for so far
    let mut r = 0;
    while r < N {
        if r < nr {
            let m = ch.request_items(r);
            assert!(m >= 1, "no request without items");
            assert!(m <= N - k, "no item is counted that was not pushed");
            let mut before_last = 0;
            let mut i = 0;
            while i < N {
                if i < m - 1 {
                    before_last += sizes[k + i];
                }
                i += 1;
            }
            k += m;
            if TWIN {
                // mutant: "a request never holds more than one item"
                assert!(m == 1, "MUTANT: one item per request");
            } else if m >= 2 {
                assert!(before_last < limit, "an item only joins a request that is still below the size limit");
            }
        }
        r += 1;
    }
    assert!(k == N, "every pushed item is counted in exactly one request");
    kani::cover!(nr == N, "every item in its own request");
    kani::cover!(N < 2 || nr == 1, "all items in one request");
    kani::cover!(N < 3 || (nr > 1 && nr < N), "mixed split");
    kani::cover!(limit == 0, "limit 0");
    core::mem::forget(ch);
}

/// `clear` empties the channel and a cleared channel groups like a fresh one.
fn clear_case<const N: usize>() {
    let limit: usize = kani::any();
    kani::assume(limit <= 4);
    let mut ch = VChannel::new();
    let mut i = 0;
    while i < N {
        ch.push(i + 1, limit); // concrete sizes 1, 2, ..: these payloads are freed by `clear`
        i += 1;
    }
    assert!(ch.len() == N);
    ch.clear();
    assert!(ch.len() == 0 && ch.n_requests() == 0, "clear leaves no item and no request behind");
    let s: usize = kani::any();
    kani::assume(s <= 3);
    ch.push_leaky(s, limit);
    assert!(ch.len() == 1 && ch.n_requests() == 1 && ch.request_items(0) == 1,
        "a cleared channel takes the next item into a new request");
    kani::cover!(limit == 4 && s == 0, "large limit, empty payload");
    kani::cover!(limit == 0, "limit 0");
    core::mem::forget(ch);
}

macro_rules! harness {
    ($name:ident, $unwind:expr, $call:expr) => {
        #[kani::proof]
        #[kani::unwind($unwind)]
        pub fn $name() {
            $call
        }
    };
}

harness!(c12_q_channel_push_2, 4, push_case::<2, false>());
harness!(c12_w_channel_push_2, 4, push_case::<2, true>());
harness!(c12_q_channel_clear_1, 4, clear_case::<1>());
