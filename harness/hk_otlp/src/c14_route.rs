//! C14 — accept/decline decision of the three OTLP event encoders: metrics accepts exactly the
//! metric samples (metric kind with a numeric or numeric-sequence value), traces exactly the
//! spans (span kind with a range extent), logs everything.
//!
//! The kind is given either as text (`"span"`, `"metric"`, other text, absent) or as a captured
//! `emit::Kind` (what `emit::Span`/`emit::Metric` and the macros produce; recovered by downcast).
//! The two representations live in separate harnesses: a `Value` whose internal variant is not
//! fixed makes CBMC explore the generic "format and re-parse" path of `Value::parse`
//! (`fmt::write` through function pointers: > 15 min). In the captured-`Kind` harnesses that
//! function is replaced by a stub that fails when reached.
use crate::util::*;
use emit::{Event, Kind, Path, Template, Value};
use emit_otlp::verif;

static K_SPAN: Kind = Kind::Span;
static K_METRIC: Kind = Kind::Metric;

/// kind selector (a const of each harness: see the module comment):
/// 0 absent, 1 "span", 2 "metric", 3 other text, 4 Kind::Span, 5 Kind::Metric
fn kind_value<const K: u8>() -> Option<Value<'static>> {
    match K {
        0 => None,
        1 => Some(Value::from("span")),
        2 => Some(Value::from("metric")),
        3 => Some(Value::from("log")),
        4 => Some(Value::from_any(&K_SPAN)),
        _ => Some(Value::from_any(&K_METRIC)),
    }
}

fn is_span(k: u8) -> bool {
    k == 1 || k == 4
}

fn is_metric(k: u8) -> bool {
    k == 2 || k == 5
}

fn agg_value(a: u8) -> Option<Value<'static>> {
    match a {
        0 => None,
        1 => Some(Value::from("count")),
        2 => Some(Value::from("sum")),
        _ => Some(Value::from("last")),
    }
}

pub struct Nums {
    i: i64,
    f: f64,
    si: [i64; 2],
    sf: [f64; 2],
    so: OptSeq,
}

/// A sequence whose elements are numbers or nulls (what a captured `Vec<Option<i64>>` streams): numeric only if
/// no element is null.
pub struct OptSeq {
    v: [Option<i64>; 2],
}

impl sval::Value for OptSeq {
    fn stream<'sval, S: sval::Stream<'sval> + ?Sized>(&'sval self, stream: &mut S) -> sval::Result {
        stream.seq_begin(Some(2))?;
        let mut i = 0;
        while i < 2 {
            stream.seq_value_begin()?;
            match self.v[i] {
                Some(x) => stream.i64(x)?,
                None => stream.null()?,
            }
            stream.seq_value_end()?;
            i += 1;
        }
        stream.seq_end()
    }
}

fn sym_nums() -> Nums {
    let n = Nums { i: kani::any(), f: kani::any(), si: kani::any(), sf: kani::any(), so: OptSeq { v: kani::any() } };
    // Summing +inf and -inf yields NaN; Kani's "NaN on addition" check flags that although it is
    // not a Rust panic (NaN data points are outside the routing property): excluded.
    kani::assume(!(n.sf[0].is_infinite() && n.sf[1].is_infinite()));
    n
}

/// value selector: 0 missing, 1 i64, 2 f64, 3 [i64; 2], 4 [f64; 2], 5 text, 6 bool, 7 sequence of numbers and nulls
fn metric_value<'a>(v: u8, n: &'a Nums) -> Option<Value<'a>> {
    match v {
        0 => None,
        1 => Some(Value::from(n.i)),
        2 => Some(Value::from(n.f)),
        3 => Some(Value::from(&n.si)),
        4 => Some(Value::from(&n.sf)),
        5 => Some(Value::from("x")),
        6 => Some(Value::from(true)),
        _ => Some(Value::from_sval(&n.so)),
    }
}

fn is_numeric(v: u8, n: &Nums) -> bool {
    (v >= 1 && v <= 4) || (v == 7 && n.so.v[0].is_some() && n.so.v[1].is_some())
}

// ---- metrics ------------------------------------------------------------------------------

/// `K` fixes the kind, `V` the value selector (255: symbolic over all seven — only affordable
/// where the encoder declines on the kind alone and never looks at the value).
fn metrics_case<const K: u8, const V: u8, const TWIN: bool>() {
    let v: u8 = if V == 255 { kani::any() } else { V };
    let (a, x): (u8, u8) = (kani::any(), kani::any());
    kani::assume(v <= 7 && a <= 3 && x <= 2);
    let n = sym_nums();
    let props = Slots { s: [("evt_kind", kind_value::<K>()), ("metric_value", metric_value(v, &n)), ("metric_agg", agg_value(a))] };
    let evt = Event::new(Path::new_raw("m"), Template::literal("t"), extent_of(x), &props);
    let got = verif::metrics_accepts(&evt);
    let want = is_metric(K) && is_numeric(v, &n);
    if TWIN {
        // mutant: "every metric-kinded event is accepted, whatever its value"
        assert!(got == is_metric(K), "MUTANT: metrics accepts iff kind = metric");
    } else {
        assert!(got == want, "metrics accepts iff kind = metric and the value is numeric or a numeric sequence");
    }
    kani::cover!(got == want && a == 0 && x == 0, "no aggregation (gauge), no extent");
    kani::cover!(got == want && a == 1 && x == 2, "count over a range");
    kani::cover!(got == want && a == 2 && x == 1, "sum at a point");
    kani::cover!(got == want && a == 3, "unknown aggregation");
    kani::cover!(got, "opt: accepted");
    kani::cover!(!got, "opt: declined");
    kani::cover!(v == 7 && n.so.v[0].is_none() && n.so.v[1].is_none() && a == 2, "opt: all-null sequence with sum aggregation");
    kani::cover!(v == 7 && n.so.v[0].is_some() && n.so.v[1].is_none(), "opt: sequence mixing a number and a null");
    core::mem::forget(evt);
    core::mem::forget(props);
}

// ---- traces -------------------------------------------------------------------------------

fn traces_case<const K: u8, const TWIN: bool>() {
    let x: u8 = kani::any();
    kani::assume(x <= 2);
    let props = Slots { s: [("evt_kind", kind_value::<K>())] };
    let evt = Event::new(Path::new_raw("m"), Template::literal("t"), extent_of_sym_range(x), &props);
    let got = verif::traces_accepts(&evt);
    let want = is_span(K) && x == 2;
    if TWIN {
        // mutant: "every span-kinded event is accepted, whatever its extent"
        assert!(got == is_span(K), "MUTANT: traces accepts iff kind = span");
    } else {
        assert!(got == want, "traces accepts iff kind = span and the extent is a range");
    }
    kani::cover!(got == want && x == 0, "no extent");
    kani::cover!(got == want && x == 1, "point extent");
    kani::cover!(got == want && x == 2, "range extent");
    kani::cover!(got, "opt: accepted");
    core::mem::forget(evt);
    core::mem::forget(props);
}

// ---- logs ---------------------------------------------------------------------------------

fn logs_case<const K: u8, const TWIN: bool>() {
    let (v, x): (u8, u8) = (kani::any(), kani::any());
    kani::assume(v <= 6 && x <= 2);
    let n = sym_nums();
    let props = Slots { s: [("evt_kind", kind_value::<K>()), ("metric_value", metric_value(v, &n))] };
    let evt = Event::new(Path::new_raw("m"), Template::literal("t"), extent_of(x), &props);
    let got = verif::logs_accepts(&evt);
    if TWIN {
        assert!(!got, "MUTANT: logs declines");
    } else {
        assert!(got, "logs accepts every event");
    }
    kani::cover!(v == 1 && x == 1, "numeric value, point extent");
    kani::cover!(v == 5 && x == 2, "text value, range extent");
    kani::cover!(x == 0 && v == 0, "no extent, no value");
    core::mem::forget(evt);
    core::mem::forget(props);
}

// ---- harnesses ----------------------------------------------------------------------------
//
// One Kani run costs ~100 s before CBMC even starts solving (the reachable part of emit_otlp +
// sval is large), so a harness bundles several *instantiations*: a symbolic selector picks the
// arm, and inside an arm kind and value shape are constants (see the module comment).

macro_rules! harness {
    ($name:ident, [$($call:expr),+ $(,)?]) => {
        #[kani::proof]
        #[kani::unwind(16)]
        pub fn $name() {
            let sel: u8 = kani::any();
            let mut n: u8 = 0;
            $( if sel == n { $call; return; } n += 1; )+
            kani::assume(false);
        }
    };
    // captured `emit::Kind`: must be recovered by downcast; `Value::parse` fails the harness when reached
    (captured $name:ident, [$($call:expr),+ $(,)?]) => {
        #[kani::proof]
        #[kani::unwind(16)]
        #[kani::stub(emit::Value::parse, crate::util::parse_not_reached)]
        pub fn $name() {
            let sel: u8 = kani::any();
            let mut n: u8 = 0;
            $( if sel == n { $call; return; } n += 1; )+
            kani::assume(false);
        }
    };
}

// traces: extent symbolic in every arm
harness!(c14_q_traces_text_kinds, [traces_case::<0, false>(), traces_case::<1, false>(), traces_case::<2, false>(), traces_case::<3, false>()]);
harness!(captured c14_q_traces_captured_kinds, [traces_case::<4, false>(), traces_case::<5, false>()]);
harness!(c14_w_traces_span_text, [traces_case::<1, true>()]);

// metrics, metric kind as text: aggregation and extent symbolic (one value shape per harness:
// an arm costs 130-330 s, bundling does not pay here)
harness!(c14_q_metrics_text_missing, [metrics_case::<2, 0, false>()]);
harness!(c14_q_metrics_text_i64, [metrics_case::<2, 1, false>()]);
harness!(c14_t_metrics_text_f64, [metrics_case::<2, 2, false>()]);
harness!(c14_t_metrics_text_seq_i64, [metrics_case::<2, 3, false>()]);
harness!(c14_q_metrics_text_seq_f64, [metrics_case::<2, 4, false>()]);
harness!(c14_q_metrics_text_textvalue, [metrics_case::<2, 5, false>()]);
harness!(c14_t_metrics_text_boolvalue, [metrics_case::<2, 6, false>()]);
// a sequence that is not numeric because some element is null (falls back to logs)
harness!(c14_q_metrics_text_seq_with_nulls, [metrics_case::<2, 7, false>()]);
// metrics, metric kind as captured `emit::Kind`
harness!(captured c14_t_metrics_captured_missing, [metrics_case::<5, 0, false>()]);
harness!(captured c14_t_metrics_captured_i64, [metrics_case::<5, 1, false>()]);
harness!(captured c14_t_metrics_captured_f64, [metrics_case::<5, 2, false>()]);
harness!(captured c14_q_metrics_captured_seq_i64, [metrics_case::<5, 3, false>()]);
harness!(captured c14_t_metrics_captured_seq_f64, [metrics_case::<5, 4, false>()]);
harness!(captured c14_t_metrics_captured_textvalue, [metrics_case::<5, 5, false>()]);
harness!(captured c14_t_metrics_captured_boolvalue, [metrics_case::<5, 6, false>()]);
// metrics, other kinds (declined whatever the value)
harness!(c14_q_metrics_other_kinds_i64, [metrics_case::<0, 1, false>(), metrics_case::<1, 1, false>(), metrics_case::<3, 1, false>()]);
harness!(captured c14_t_metrics_span_captured_i64, [metrics_case::<4, 1, false>()]);
harness!(c14_t_metrics_other_kinds_seq_text, [metrics_case::<0, 3, false>(), metrics_case::<1, 5, false>(), metrics_case::<3, 4, false>()]);
harness!(c14_t_metrics_other_kinds_missing_f64_bool, [metrics_case::<0, 0, false>(), metrics_case::<1, 2, false>(), metrics_case::<3, 6, false>()]);
harness!(c14_w_metrics_text_textvalue, [metrics_case::<2, 5, true>()]);

// logs: the encoder never looks at kind or value (both may stay symbolic in shape here)
harness!(c14_q_logs_kind_metric_text, [logs_case::<2, false>()]);
harness!(captured c14_q_logs_kind_span_captured, [logs_case::<4, false>()]);
harness!(c14_t_logs_kind_absent, [logs_case::<0, false>()]);
harness!(c14_w_logs_kind_metric_text, [logs_case::<2, true>()]);
