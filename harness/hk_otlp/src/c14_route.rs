//! C14 — accept/decline decision of the three OTLP event encoders: metrics accepts exactly the
//! metric samples (metric kind with a numeric or numeric-sequence value), traces exactly the
//! spans (span kind with a range extent), logs everything.
use crate::util::*;
use emit::{Event, Kind, Path, Template, Value};
use emit_otlp::verif;

static K_SPAN: Kind = Kind::Span;
static K_METRIC: Kind = Kind::Metric;

/// kind selector: 0 absent, 1 "span", 2 "metric", 3 Kind::Span, 4 Kind::Metric, 5 other text
fn kind_value(k: u8) -> Option<Value<'static>> {
    match k {
        0 => None,
        1 => Some(Value::from("span")),
        2 => Some(Value::from("metric")),
        3 => Some(Value::from_any(&K_SPAN)),
        4 => Some(Value::from_any(&K_METRIC)),
        _ => Some(Value::from("log")),
    }
}

fn agg_value(a: u8) -> Option<Value<'static>> {
    match a {
        0 => None,
        1 => Some(Value::from("count")),
        2 => Some(Value::from("sum")),
        _ => Some(Value::from("last")),
    }
}

struct Nums {
    i: i64,
    f: f64,
    si: [i64; 2],
    sf: [f64; 2],
}

/// value selector: 0 missing, 1 i64, 2 f64, 3 [i64; 2], 4 [f64; 2], 5 text, 6 bool
fn metric_value<'a>(v: u8, n: &'a Nums) -> Option<Value<'a>> {
    match v {
        0 => None,
        1 => Some(Value::from(n.i)),
        2 => Some(Value::from(n.f)),
        3 => Some(Value::from(&n.si)),
        4 => Some(Value::from(&n.sf)),
        5 => Some(Value::from("x")),
        _ => Some(Value::from(true)),
    }
}

fn is_numeric(v: u8) -> bool {
    v >= 1 && v <= 4
}

#[kani::proof]
#[kani::unwind(16)]
pub fn c14_q_metrics_accepts_iff_metric_sample() {
    let (k, v, a, x): (u8, u8, u8, u8) = (kani::any(), kani::any(), kani::any(), kani::any());
    kani::assume(k <= 5 && v <= 6 && a <= 3 && x <= 2);
    let n = Nums { i: kani::any(), f: kani::any(), si: kani::any(), sf: kani::any() };
    let props = Slots { s: [("evt_kind", kind_value(k)), ("metric_value", metric_value(v, &n)), ("metric_agg", agg_value(a))] };
    let evt = Event::new(Path::new_raw("m"), Template::literal("t"), extent_of(x), &props);
    let got = verif::metrics_accepts(&evt);
    let want = (k == 2 || k == 4) && is_numeric(v);
    assert!(got == want, "metrics accepts iff kind = metric and the value is numeric or a numeric sequence");
    kani::cover!(got && v == 1 && a == 0, "accepted: integer gauge");
    kani::cover!(got && v == 2 && a == 1, "accepted: float count");
    kani::cover!(got && v == 3 && a == 2 && x == 2, "accepted: integer sequence sum over a range");
    kani::cover!(got && v == 4 && a == 3 && k == 4, "accepted: float sequence, unknown aggregation, captured Kind");
    kani::cover!(!got && (k == 2) && v == 5, "declined: metric kind with a text value");
    kani::cover!(!got && (k == 2) && v == 0, "declined: metric kind without a value");
    kani::cover!(!got && (k == 1 || k == 3) && v == 1, "declined: span kind with a numeric value");
    kani::cover!(!got && k == 0 && v == 1, "declined: no kind");
    core::mem::forget(evt);
    core::mem::forget(props);
}

#[kani::proof]
#[kani::unwind(16)]
pub fn c14_q_traces_accepts_iff_span_with_range() {
    let (k, x): (u8, u8) = (kani::any(), kani::any());
    kani::assume(k <= 5 && x <= 2);
    let props = Slots { s: [("evt_kind", kind_value(k))] };
    let evt = Event::new(Path::new_raw("m"), Template::literal("t"), extent_of(x), &props);
    let got = verif::traces_accepts(&evt);
    let want = (k == 1 || k == 3) && x == 2;
    assert!(got == want, "traces accepts iff kind = span and the extent is a range");
    kani::cover!(got && k == 1, "accepted: text kind");
    kani::cover!(got && k == 3, "accepted: captured Kind");
    kani::cover!(!got && k == 1 && x == 1, "declined: span with a point extent");
    kani::cover!(!got && k == 1 && x == 0, "declined: span without extent");
    kani::cover!(!got && (k == 2 || k == 4) && x == 2, "declined: metric kind");
    kani::cover!(!got && k == 0 && x == 2, "declined: no kind");
    kani::cover!(!got && k == 5 && x == 2, "declined: unknown kind");
    core::mem::forget(evt);
    core::mem::forget(props);
}

#[kani::proof]
#[kani::unwind(16)]
pub fn c14_q_logs_accepts_everything() {
    let (k, v, x): (u8, u8, u8) = (kani::any(), kani::any(), kani::any());
    kani::assume(k <= 5 && v <= 6 && x <= 2);
    let n = Nums { i: kani::any(), f: kani::any(), si: kani::any(), sf: kani::any() };
    let props = Slots { s: [("evt_kind", kind_value(k)), ("metric_value", metric_value(v, &n))] };
    let evt = Event::new(Path::new_raw("m"), Template::literal("t"), extent_of(x), &props);
    let got = verif::logs_accepts(&evt);
    assert!(got, "logs accepts every event");
    kani::cover!(k == 2 && v == 1, "metric sample");
    kani::cover!(k == 1 && x == 2, "span");
    kani::cover!(k == 0 && x == 0, "plain event");
    core::mem::forget(evt);
    core::mem::forget(props);
}
