//! C12 (partial) — the request loop of `OtlpTransport::send`: for any sequence of per-request
//! outcomes, every request of the batch is either handed to the network and acknowledged exactly
//! once, or handed back inside the retryable remainder; nothing vanishes; `Ok(())` only when all
//! were acknowledged; the remainder is retried starting with the failed request.
//!
//! The network request itself (`OtlpTransport::send_batch`: hyper/tokio) is replaced in the scratch
//! tree by `verif::send_batch_outcome` (stubs/otlp.toml, `send-batch-call`), which records the
//! request it was handed and answers from `verif::SCRIPT`.
use crate::util::*;
use emit_otlp::verif::{self, VChannel, VTransport};
use std::panic as stdpanic;

/// Requests are told apart by their slot in the batch's request vector: `ids[i]` is the address
/// of request `i` (0-based, in batch order) before the batch is handed to `send`.
fn channel_of<const N: usize>() -> (VChannel, [usize; 4]) {
    let ch = VChannel::with_empty_requests(N);
    let mut ids = [0usize; 4];
    let mut i = 0;
    while i < N {
        ids[i] = ch.request_addr(i);
        i += 1;
    }
    (ch, ids)
}

fn index_of<const N: usize>(ids: &[usize; 4], addr: usize) -> usize {
    let mut i = 0;
    while i < N {
        if ids[i] == addr {
            return i;
        }
        i += 1;
    }
    panic!("the network was handed / the remainder contains something that is not a request of the batch")
}

struct Tally {
    /// acked[id]: how many times request `id` (1-based) was handed to the network and acknowledged
    acked: [u8; 5],
    /// failed[id]: how many times it was handed to the network and failed
    failed: [u8; 5],
}

/// Account for the attempts `from..to` recorded by the stand-in.
fn tally<const N: usize>(t: &mut Tally, ids: &[usize; 4], from: usize, to: usize) {
    let mut i = from;
    while i < to {
        let id = index_of::<N>(ids, unsafe { verif::ATTEMPTED[i] });
        if unsafe { verif::SCRIPT[i] } {
            t.acked[id] += 1;
        } else {
            t.failed[id] += 1;
        }
        i += 1;
    }
}

fn in_remainder<const N: usize>(rem: &Option<VChannel>, ids: &[usize; 4], id: usize) -> u8 {
    let mut c = 0;
    if let Some(ch) = rem {
        let mut r = 0;
        while r < N {
            if r < ch.n_requests() && index_of::<N>(ids, ch.request_addr(r)) == id {
                c += 1;
            }
            r += 1;
        }
        assert!(ch.n_requests() <= N, "the remainder is not larger than the batch");
    }
    c
}

/// The number of requests `N` is a constant of each instantiation (containers concrete in shape:
/// with a symbolic count the drop glue of the payload vectors alone exhausts memory).
fn send_case<const N: usize, const TWIN: bool>() {
    let n: usize = N;
    let script: [bool; 8] = [kani::any(), kani::any(), kani::any(), kani::any(), true, true, true, true];
    unsafe {
        verif::ATTEMPTS = 0;
        verif::SCRIPT = script;
    }
    let transport = VTransport::new();
    let (ch, ids) = channel_of::<N>();
    assert!(ch.n_requests() == n);

    let (ok, rem) = transport.send(ch);

    let attempts = unsafe { verif::ATTEMPTS };
    assert!(attempts <= n, "no more network requests than requests in the batch");
    let mut t = Tally { acked: [0; 5], failed: [0; 5] };
    tally::<N>(&mut t, &ids, 0, attempts);
    let mut id = 0;
    while id < N {
        {
            let r = in_remainder::<N>(&rem, &ids, id);
            assert!(t.acked[id] <= 1, "no request is acknowledged twice");
            if TWIN {
                // mutant: "every request is acknowledged, whatever the collector answers"
                assert!(t.acked[id] == 1, "MUTANT: every request is acknowledged");
            } else {
                assert!(t.acked[id] + r == 1, "every request is acknowledged exactly once or handed back for retry, never both, never neither");
            }
            if ok {
                assert!(t.acked[id] == 1, "Ok(()) only when every request was acknowledged");
            }
        }
        id += 1;
    }
    if !ok {
        assert!(attempts >= 1 && !script[attempts - 1], "an error is only reported for a failed request");
        let failed_id = index_of::<N>(&ids, unsafe { verif::ATTEMPTED[attempts - 1] });
        assert!(rem.is_some(), "a transport failure is retryable");
        assert!(in_remainder::<N>(&rem, &ids, failed_id) == 1, "the failed request is handed back for retry");
        // `send` takes requests from the back of the vector: the failed one is the next to be tried
        let back = rem.as_ref().unwrap();
        assert!(back.n_requests() >= 1 && index_of::<N>(&ids, back.request_addr(back.n_requests() - 1)) == failed_id,
            "the remainder starts with the failed request");
    }
    kani::cover!(ok, "all acknowledged");
    kani::cover!(!ok && attempts == 1, "opt: first request fails");
    kani::cover!(!ok && attempts >= 2, "opt: a later request fails");
    core::mem::forget(rem);
    core::mem::forget(transport);
}

/// After a failure the remainder is sent again: the first request retried is the failed one, and
/// once the collector acknowledges, every request of the original batch has been acknowledged
/// exactly once overall.
fn retry_case<const N: usize>() {
    let n: usize = N;
    let fail_at: usize = kani::any();
    kani::assume(fail_at < n);
    let mut script = [true; 8];
    script[fail_at] = false;
    unsafe {
        verif::ATTEMPTS = 0;
        verif::SCRIPT = script;
    }
    let transport = VTransport::new();
    let (ch, ids) = channel_of::<N>();
    let (ok, rem) = transport.send(ch);
    assert!(!ok, "the scripted failure is reported");
    let first = unsafe { verif::ATTEMPTS };
    assert!(first == fail_at + 1);
    let failed_id = unsafe { verif::ATTEMPTED[fail_at] };
    let rem = rem.unwrap();
    let (ok2, rem2) = transport.send(rem);
    assert!(ok2 && rem2.is_none(), "the retry succeeds once the collector acknowledges");
    let total = unsafe { verif::ATTEMPTS };
    assert!(total > first && unsafe { verif::ATTEMPTED[first] } == failed_id, "the retry starts with the failed request");
    let mut t = Tally { acked: [0; 5], failed: [0; 5] };
    tally::<N>(&mut t, &ids, 0, total);
    let mut id = 0;
    while id < N {
        assert!(t.acked[id] == 1, "after the retry every request was acknowledged exactly once");
        id += 1;
    }
    kani::cover!(fail_at == 0, "first request fails");
    kani::cover!(fail_at == n - 1, "last request fails");
    core::mem::forget(transport);
}

macro_rules! harness {
    ($name:ident, $unwind:expr, $call:expr) => {
        #[kani::proof]
        #[kani::unwind($unwind)]
        #[kani::stub(stdpanic::catch_unwind, crate::util::no_unwind)]
        pub fn $name() {
            $call
        }
    };
}

// unwind = N + 1: every loop runs over the N requests (the slice drop loops of the popped requests
// are not resolved by constant propagation, so a larger bound multiplies the nested drop glue)
harness!(c12_q_send_loop_1, 3, send_case::<1, false>());
harness!(c12_q_send_loop_2, 3, send_case::<2, false>());
harness!(c12_t_send_loop_3, 4, send_case::<3, false>());
harness!(c12_t_send_loop_4, 5, send_case::<4, false>());
harness!(c12_w_send_loop_2, 3, send_case::<2, true>());
// NOT REGISTERED (`c12_x_*`): ran out of memory (26 GB) in the thorough tier
harness!(c12_x_send_retry_2, 4, retry_case::<2>());
