//! C13 (partial) — the any-value bridge `data::any_value::EmitValue`: for every structured value
//! (here: every token sequence of the sval grammar up to depth 2) the adapter does not panic,
//! its output is balanced, and every scalar of the input appears exactly once, in order, under
//! the `AnyValue` member that fits its type (map keys as bare key text).
use core::cell::Cell;
use emit_otlp::verif;

// ---- input: a value whose `stream` emits a symbolic token sequence ---------------------------

pub const NULL: u8 = 0;
pub const BOOL: u8 = 1;
pub const I64: u8 = 2;
pub const F64: u8 = 3;
pub const TEXT: u8 = 4;
pub const BIN: u8 = 5;
pub const SEQ: u8 = 6;
pub const MAP: u8 = 7;
// integers wider than OTLP's int64 (and one unsigned that fits)
pub const U64_SMALL: u8 = 8;
pub const U64_MAX: u8 = 9;
pub const I128_MIN: u8 = 10;
pub const U128_MAX: u8 = 11;

const U64_MAX_TEXT: &str = "18446744073709551615";
const I128_MIN_TEXT: &str = "-170141183460469231731687303715884105728";
const U128_MAX_TEXT: &str = "340282366920938463463374607431768211455";

/// How a text scalar is compared: first byte and length (a byte-wise comparison costs a loop per
/// fragment under merged symbolic state).
pub fn text_id(t: &str) -> i64 {
    let b = t.as_bytes();
    if b.is_empty() { 0 } else { (b[0] as i64) * 1000 + b.len() as i64 }
}

/// The shape is a fixed array of symbolic choices consumed left to right while streaming, so
/// that streaming the same value twice yields the same tokens. `MAXD`: nesting depth at which only
/// scalars are produced; `ANY_KEYS`: map keys of any kind (else text); `WIDE`: scalars are drawn
/// from the integer family {i64, small u64, u64::MAX, i128::MIN, u128::MAX} instead.
pub struct Tokens<const MAXD: u8, const ANY_KEYS: bool, const WIDE: bool> {
    pub shape: [u8; 16],
    pub at: Cell<usize>,
    pub scalars: Cell<usize>,
    /// what the output must contain for each scalar, in order: (kind, value / text id)
    pub log: Cell<[(u8, i64); 8]>,
}

impl<const MAXD: u8, const ANY_KEYS: bool, const WIDE: bool> Tokens<MAXD, ANY_KEYS, WIDE> {
    fn next(&self, below: u8) -> u8 {
        let i = self.at.get();
        assert!(i < 16, "harness: shape array too small");
        self.at.set(i + 1);
        self.shape[i] % below
    }

    fn note(&self, kind: u8, v: i64) {
        let n = self.scalars.get();
        let mut log = self.log.get();
        if n < 8 {
            log[n] = (kind, v);
        }
        self.log.set(log);
        self.scalars.set(n + 1);
    }

    fn scalar<'sval, S: sval::Stream<'sval> + ?Sized>(&self, kind: u8, stream: &mut S) -> sval::Result {
        let kind = if WIDE {
            match kind {
                0 => I64,
                1 => U64_SMALL,
                2 => U64_MAX,
                3 => I128_MIN,
                _ => U128_MAX,
            }
        } else {
            kind
        };
        match kind {
            NULL => { self.note(NULL, 0); stream.null() }
            BOOL => { self.note(BOOL, 1); stream.bool(true) }
            I64 => { self.note(I64, -7); stream.i64(-7) }
            F64 => { self.note(F64, 2); stream.f64(2.5) }
            TEXT => {
                self.note(TEXT, text_id("ab"));
                stream.text_begin(Some(2))?;
                stream.text_fragment_computed("ab")?;
                stream.text_end()
            }
            BIN => {
                self.note(BIN, 1);
                stream.binary_begin(Some(1))?;
                stream.binary_fragment_computed(&[9u8])?;
                stream.binary_end()
            }
            // an unsigned 64-bit integer that fits int64 stays an integer
            U64_SMALL => { self.note(I64, 7); stream.u64(7) }
            // OTLP has no integers beyond int64: they become decimal text
            U64_MAX => { self.note(TEXT, text_id(U64_MAX_TEXT)); stream.u64(u64::MAX) }
            I128_MIN => { self.note(TEXT, text_id(I128_MIN_TEXT)); stream.i128(i128::MIN) }
            _ => { self.note(TEXT, text_id(U128_MAX_TEXT)); stream.u128(u128::MAX) }
        }
    }

    fn value<'sval, S: sval::Stream<'sval> + ?Sized>(&self, depth: u8, stream: &mut S) -> sval::Result {
        let scalars = if WIDE { 5 } else { SEQ };
        let kind = if depth >= MAXD {
            self.next(scalars)
        } else {
            // containers are the two choices after the scalars
            let k = self.next(scalars + 2);
            if k < scalars { k } else { SEQ + (k - scalars) }
        };
        if kind < SEQ {
            return self.scalar(kind, stream);
        }
        let n = self.next(3) as usize; // 0, 1 or 2 entries
        if kind == SEQ {
            stream.seq_begin(Some(n))?;
            let mut i = 0;
            while i < 2 {
                if i < n {
                    stream.seq_value_begin()?;
                    self.value(depth + 1, stream)?;
                    stream.seq_value_end()?;
                }
                i += 1;
            }
            stream.seq_end()
        } else {
            stream.map_begin(Some(n))?;
            let mut i = 0;
            while i < 2 {
                if i < n {
                    stream.map_key_begin()?;
                    let k = if ANY_KEYS { self.next(MAP + 1) } else { TEXT };
                    if k < SEQ {
                        self.scalar(k, stream)?;
                    } else if k == SEQ {
                        stream.seq_begin(Some(0))?;
                        stream.seq_end()?;
                    } else {
                        stream.map_begin(Some(0))?;
                        stream.map_end()?;
                    }
                    stream.map_key_end()?;
                    stream.map_value_begin()?;
                    self.value(depth + 1, stream)?;
                    stream.map_value_end()?;
                }
                i += 1;
            }
            stream.map_end()
        }
    }
}

impl<const MAXD: u8, const ANY_KEYS: bool, const WIDE: bool> sval::Value for Tokens<MAXD, ANY_KEYS, WIDE> {
    fn stream<'sval, S: sval::Stream<'sval> + ?Sized>(&'sval self, stream: &mut S) -> sval::Result {
        self.at.set(0);
        self.scalars.set(0);
        self.value(0, stream)
    }
}

// ---- output: a stream that checks balance and records the scalars it is handed --------------

pub const O_ENUM: u8 = 1;
pub const O_TAGGED: u8 = 2;
pub const O_RECORD: u8 = 3;
pub const O_FIELD: u8 = 4;
pub const O_SEQ: u8 = 5;
pub const O_ELEM: u8 = 6;
pub const O_TEXT: u8 = 7;
pub const O_BIN: u8 = 8;

/// member of `AnyValue` / field of `KeyValue` an output token sits directly under
pub const M_NONE: u8 = 0;
pub const M_STRING: u8 = 1;
pub const M_BOOL: u8 = 2;
pub const M_INT: u8 = 3;
pub const M_DOUBLE: u8 = 4;
pub const M_ARRAY: u8 = 5;
pub const M_KVLIST: u8 = 6;
pub const M_BYTES: u8 = 7;
pub const M_KEY: u8 = 8;
pub const M_VALUE: u8 = 9;
pub const M_VALUES: u8 = 10;
pub const M_OTHER: u8 = 11;

/// Labels are told apart by first byte and length (unique within the AnyValue / KeyValue
/// vocabulary); a full string match costs a `memcmp` loop per candidate and token.
fn member(label: &str) -> u8 {
    let b = label.as_bytes();
    if b.is_empty() {
        return M_OTHER;
    }
    match (b[0], b.len()) {
        (b's', 11) => M_STRING,
        (b'b', 9) => M_BOOL,
        (b'i', 8) => M_INT,
        (b'd', 11) => M_DOUBLE,
        (b'a', 10) => M_ARRAY,
        (b'k', 11) => M_KVLIST,
        (b'b', 10) => M_BYTES,
        (b'k', 3) => M_KEY,
        (b'v', 5) => M_VALUE,
        (b'v', 6) => M_VALUES,
        _ => M_OTHER,
    }
}

pub struct Rec {
    pub stack: [(u8, u8); 24],
    pub depth: usize,
    pub scalars: usize,
    pub log: [(u8, i64); 8],
    pub text_len: i64,
}

impl Rec {
    pub fn new() -> Rec {
        Rec { stack: [(0, 0); 24], depth: 0, scalars: 0, log: [(0, 0); 8], text_len: 0 }
    }

    fn open(&mut self, what: u8, m: u8) -> sval::Result {
        assert!(self.depth < 24, "harness: output nesting deeper than the recorder's stack");
        self.stack[self.depth] = (what, m);
        self.depth += 1;
        Ok(())
    }

    fn close(&mut self, what: u8, m: u8) -> sval::Result {
        assert!(self.depth >= 1, "output closes a token that was never opened");
        self.depth -= 1;
        assert!(self.stack[self.depth] == (what, m), "output tokens are balanced: an end matches the innermost open begin");
        Ok(())
    }

    /// the member the next token sits directly under (0 at top level)
    fn under(&self) -> (u8, u8) {
        if self.depth == 0 { (0, M_NONE) } else { self.stack[self.depth - 1] }
    }

    fn note(&mut self, kind: u8, v: i64) {
        if self.scalars < 8 {
            self.log[self.scalars] = (kind, v);
        }
        self.scalars += 1;
    }
}

fn lbl(label: Option<&sval::Label>) -> u8 {
    match label {
        Some(l) => member(l.as_str()),
        None => M_NONE,
    }
}

impl<'sval> sval::Stream<'sval> for Rec {
    fn null(&mut self) -> sval::Result {
        self.note(NULL, 0);
        Ok(())
    }

    fn bool(&mut self, v: bool) -> sval::Result {
        assert!(self.under() == (O_TAGGED, M_BOOL), "a bool is written under AnyValue.boolValue");
        self.note(BOOL, v as i64);
        Ok(())
    }

    fn i64(&mut self, v: i64) -> sval::Result {
        assert!(self.under() == (O_TAGGED, M_INT), "an integer is written under AnyValue.intValue");
        self.note(I64, v);
        Ok(())
    }

    fn f64(&mut self, v: f64) -> sval::Result {
        assert!(self.under() == (O_TAGGED, M_DOUBLE), "a float is written under AnyValue.doubleValue");
        self.note(F64, v as i64);
        Ok(())
    }

    fn text_begin(&mut self, _: Option<usize>) -> sval::Result {
        let u = self.under();
        assert!(u == (O_TAGGED, M_STRING) || u == (O_FIELD, M_KEY), "text is written under AnyValue.stringValue or as a KeyValue key");
        self.text_len = 0;
        self.open(O_TEXT, 0)
    }

    fn text_fragment_computed(&mut self, f: &str) -> sval::Result {
        assert!(self.under() == (O_TEXT, 0), "text fragments only inside text");
        // first byte of the first fragment, total length
        self.text_len += if self.text_len == 0 { text_id(f) } else { f.len() as i64 };
        Ok(())
    }

    fn text_end(&mut self) -> sval::Result {
        self.close(O_TEXT, 0)?;
        let n = self.text_len;
        self.note(TEXT, n);
        Ok(())
    }

    fn binary_begin(&mut self, _: Option<usize>) -> sval::Result {
        assert!(self.under() == (O_TAGGED, M_BYTES), "bytes are written under AnyValue.bytesValue");
        self.text_len = 0;
        self.open(O_BIN, 0)
    }

    fn binary_fragment_computed(&mut self, f: &[u8]) -> sval::Result {
        assert!(self.under() == (O_BIN, 0), "binary fragments only inside binary");
        self.text_len += f.len() as i64;
        Ok(())
    }

    fn binary_end(&mut self) -> sval::Result {
        self.close(O_BIN, 0)?;
        let n = self.text_len;
        self.note(BIN, n);
        Ok(())
    }

    fn seq_begin(&mut self, _: Option<usize>) -> sval::Result {
        assert!(self.under() == (O_FIELD, M_VALUES), "a list is written as the `values` field of ArrayValue / KeyValueList");
        self.open(O_SEQ, 0)
    }

    fn seq_value_begin(&mut self) -> sval::Result {
        assert!(self.under() == (O_SEQ, 0), "list elements only inside a list");
        self.open(O_ELEM, 0)
    }

    fn seq_value_end(&mut self) -> sval::Result {
        self.close(O_ELEM, 0)
    }

    fn seq_end(&mut self) -> sval::Result {
        self.close(O_SEQ, 0)
    }

    fn enum_begin(&mut self, _: Option<&sval::Tag>, _: Option<&sval::Label>, _: Option<&sval::Index>) -> sval::Result {
        self.open(O_ENUM, 0)
    }

    fn enum_end(&mut self, _: Option<&sval::Tag>, _: Option<&sval::Label>, _: Option<&sval::Index>) -> sval::Result {
        self.close(O_ENUM, 0)
    }

    fn tagged_begin(&mut self, _: Option<&sval::Tag>, label: Option<&sval::Label>, _: Option<&sval::Index>) -> sval::Result {
        assert!(self.under() == (O_ENUM, 0), "an AnyValue member is written inside the AnyValue enum");
        self.open(O_TAGGED, lbl(label))
    }

    fn tagged_end(&mut self, _: Option<&sval::Tag>, label: Option<&sval::Label>, _: Option<&sval::Index>) -> sval::Result {
        self.close(O_TAGGED, lbl(label))
    }

    fn record_tuple_begin(&mut self, _: Option<&sval::Tag>, _: Option<&sval::Label>, _: Option<&sval::Index>, _: Option<usize>) -> sval::Result {
        self.open(O_RECORD, 0)
    }

    fn record_tuple_value_begin(&mut self, _: Option<&sval::Tag>, label: &sval::Label, _: &sval::Index) -> sval::Result {
        assert!(self.under() == (O_RECORD, 0), "fields only inside a record");
        self.open(O_FIELD, member(label.as_str()))
    }

    fn record_tuple_value_end(&mut self, _: Option<&sval::Tag>, label: &sval::Label, _: &sval::Index) -> sval::Result {
        self.close(O_FIELD, member(label.as_str()))
    }

    fn record_tuple_end(&mut self, _: Option<&sval::Tag>, _: Option<&sval::Label>, _: Option<&sval::Index>) -> sval::Result {
        self.close(O_RECORD, 0)
    }
}

// ---- harnesses ----------------------------------------------------------------------------------

/// Structured values (sequences / maps given as an sval token stream of symbolic shape).
/// MEASURED: does not fit. `emit::Value::from_sval` erases the value and the stream behind `dyn`
/// (`sval_dynamic`), and CBMC does not resolve the erased calls to the one implementation in use:
/// every `sval::Stream` / `sval::Value` implementor of the binary (sval_fmt, sval_buffer, sval_json,
/// sval_protobuf) is explored, including number formatting. Depth 1 (a container of <= 2 scalars)
/// did not leave symbolic execution in 15 min (12 min with cheaper oracles). Kept for the thorough
/// tier so that the measurement can be repeated; not part of the quick claim.
fn case<const MAXD: u8, const ANY_KEYS: bool, const WIDE: bool, const TWIN: bool>() {
    let shape: [u8; 16] = kani::any();
    let tokens = Tokens::<MAXD, ANY_KEYS, WIDE> {
        shape,
        at: Cell::new(0),
        scalars: Cell::new(0),
        log: Cell::new([(0, 0); 8]),
    };
    let mut rec = Rec::new();
    let r = verif::stream_any_value(emit::Value::from_sval(&tokens), &mut rec);
    assert!(r.is_ok(), "the adapter does not fail on a well-formed token sequence");
    assert!(rec.depth == 0, "output tokens are balanced: nothing is left open");
    let n_in = tokens.scalars.get();
    if TWIN {
        assert!(rec.scalars == n_in && n_in <= 1, "MUTANT: at most one scalar");
    } else {
        assert!(rec.scalars == n_in, "every scalar of the input appears exactly once in the output");
    }
    let log = tokens.log.get();
    let mut i = 0;
    while i < 8 {
        if i < n_in {
            assert!(rec.log[i] == log[i], "scalars keep their order, type and value (integers beyond int64 as decimal text)");
        }
        i += 1;
    }
    kani::cover!(n_in == 1 && tokens.at.get() == 1, "a bare scalar");
    kani::cover!(MAXD == 0 || n_in >= 2, "two or more scalars");
}

/// Scalars captured directly by `emit::Value` (no erasure): each arm fixes the kind, the value is
/// symbolic where the output does not depend on formatting, and at its extreme where it does.
/// Expected output: one scalar, under the AnyValue member of its type; integers that do not fit
/// OTLP's int64 as decimal text under stringValue.
fn scalar_case<const KIND: u8, const TWIN: bool>() {
    let mut rec = Rec::new();
    let (r, want) = match KIND {
        NULL => (verif::stream_any_value(emit::Value::null(), &mut rec), (NULL, 0)),
        BOOL => {
            let b: bool = kani::any();
            (verif::stream_any_value(emit::Value::from(b), &mut rec), (BOOL, b as i64))
        }
        I64 => {
            let v: i64 = kani::any();
            (verif::stream_any_value(emit::Value::from(v), &mut rec), (I64, v))
        }
        F64 => {
            let v: i32 = kani::any();
            (verif::stream_any_value(emit::Value::from(v as f64 + 0.5), &mut rec), (F64, (v as f64 + 0.5) as i64))
        }
        TEXT => {
            let t = if kani::any() { "ab" } else { "" };
            (verif::stream_any_value(emit::Value::from(t), &mut rec), (TEXT, text_id(t)))
        }
        U64_SMALL => {
            let v: u64 = kani::any();
            kani::assume(v <= i64::MAX as u64);
            (verif::stream_any_value(emit::Value::from(v), &mut rec), (I64, v as i64))
        }
        U64_MAX => {
            // every u64 above i64::MAX has 19 or 20 decimal digits; the extreme is pinned so that
            // the expected text is a constant
            let v: u64 = if kani::any() { u64::MAX } else { i64::MAX as u64 + 1 };
            let t = if v == u64::MAX { U64_MAX_TEXT } else { "9223372036854775808" };
            (verif::stream_any_value(emit::Value::from(v), &mut rec), (TEXT, text_id(t)))
        }
        I128_MIN => (verif::stream_any_value(emit::Value::from(i128::MIN), &mut rec), (TEXT, text_id(I128_MIN_TEXT))),
        _ => (verif::stream_any_value(emit::Value::from(u128::MAX), &mut rec), (TEXT, text_id(U128_MAX_TEXT))),
    };
    assert!(r.is_ok(), "the adapter does not fail on a scalar");
    assert!(rec.depth == 0, "output tokens are balanced: nothing is left open");
    if TWIN {
        assert!(rec.scalars == 0, "MUTANT: no scalar is written");
    } else {
        assert!(rec.scalars == 1, "the scalar appears exactly once in the output");
        assert!(rec.log[0] == want, "the scalar keeps its type and value (integers beyond int64 become decimal text)");
    }
    kani::cover!(rec.scalars == 1, "one scalar written");
}

macro_rules! harness {
    ($name:ident, $unwind:expr, [$($call:expr),+ $(,)?]) => {
        #[kani::proof]
        #[kani::unwind($unwind)]
        pub fn $name() {
            let sel: u8 = kani::any();
            let mut n: u8 = 0;
            $( if sel == n { $call; return; } n += 1; )+
            kani::assume(false);
        }
    };
}

harness!(c13_q_any_value_scalars, 8, [scalar_case::<NULL, false>(), scalar_case::<BOOL, false>(), scalar_case::<I64, false>(), scalar_case::<F64, false>(), scalar_case::<TEXT, false>(), scalar_case::<U64_SMALL, false>()]);
harness!(c13_q_any_value_u64_beyond_i64, 42, [scalar_case::<U64_MAX, false>()]);
harness!(c13_q_any_value_128_bit, 42, [scalar_case::<I128_MIN, false>(), scalar_case::<U128_MAX, false>()]);
harness!(c13_w_any_value_scalars, 8, [scalar_case::<I64, true>()]);
// structured values: see `case` — measured not to fit; thorough tier only
// NOT REGISTERED (`c13_x_*`): symbolic token shapes give no verdict in 1200 s (the concrete shape tables above are what is decided)
harness!(c13_x_any_value_text_keys_depth1, 17, [case::<1, false, false, false>()]);
harness!(c13_x_any_value_any_keys_depth1, 17, [case::<1, true, false, false>()]);

/// Structured values of CONCRETE shape (a table of token sequences; every arm of a harness runs
/// one row, so nothing about the shape is symbolic inside an arm: ~6 s per arm instead of > 15 min
/// for a symbolic shape). Row format: the choices `Tokens::<2, true, false>` consumes left to right —
/// value kind (0..=5 scalar, 6 seq, 7 map), for containers the entry count, for map entries the
/// key kind (0..=7) before the value.
const SHAPES: [[u8; 16]; 18] = [
    /*  0 */ [TEXT, 0, 0, 0, 0, 0, 0, 0, 0, 0, 0, 0, 0, 0, 0, 0],
    /*  1 */ [SEQ, 0, 0, 0, 0, 0, 0, 0, 0, 0, 0, 0, 0, 0, 0, 0],
    /*  2 */ [SEQ, 2, I64, F64, 0, 0, 0, 0, 0, 0, 0, 0, 0, 0, 0, 0],
    /*  3 */ [SEQ, 2, TEXT, BIN, 0, 0, 0, 0, 0, 0, 0, 0, 0, 0, 0, 0],
    /*  4 */ [SEQ, 1, SEQ, 2, BOOL, NULL, 0, 0, 0, 0, 0, 0, 0, 0, 0, 0],
    /*  5 */ [MAP, 0, 0, 0, 0, 0, 0, 0, 0, 0, 0, 0, 0, 0, 0, 0],
    /*  6 */ [MAP, 1, TEXT, I64, 0, 0, 0, 0, 0, 0, 0, 0, 0, 0, 0, 0],
    /*  7 */ [MAP, 2, TEXT, TEXT, TEXT, F64, 0, 0, 0, 0, 0, 0, 0, 0, 0, 0],
    /*  8 */ [MAP, 1, TEXT, SEQ, 2, I64, TEXT, 0, 0, 0, 0, 0, 0, 0, 0, 0],
    /*  9 */ [MAP, 1, TEXT, MAP, 1, TEXT, BOOL, 0, 0, 0, 0, 0, 0, 0, 0, 0],
    /* 10 */ [SEQ, 1, MAP, 2, TEXT, NULL, TEXT, BIN, 0, 0, 0, 0, 0, 0, 0, 0],
    /* 11 */ [MAP, 1, NULL, I64, 0, 0, 0, 0, 0, 0, 0, 0, 0, 0, 0, 0],
    // non-text keys
    /* 12 */ [MAP, 1, BOOL, I64, 0, 0, 0, 0, 0, 0, 0, 0, 0, 0, 0, 0],
    /* 13 */ [MAP, 1, I64, I64, 0, 0, 0, 0, 0, 0, 0, 0, 0, 0, 0, 0],
    /* 14 */ [MAP, 1, F64, I64, 0, 0, 0, 0, 0, 0, 0, 0, 0, 0, 0, 0],
    /* 15 */ [MAP, 1, BIN, I64, 0, 0, 0, 0, 0, 0, 0, 0, 0, 0, 0, 0],
    /* 16 */ [MAP, 1, SEQ, I64, 0, 0, 0, 0, 0, 0, 0, 0, 0, 0, 0, 0],
    /* 17 */ [MAP, 1, MAP, I64, 0, 0, 0, 0, 0, 0, 0, 0, 0, 0, 0, 0],
];

fn shape_case<const ROW: usize>() {
    let tokens = Tokens::<2, true, false> {
        shape: SHAPES[ROW],
        at: Cell::new(0),
        scalars: Cell::new(0),
        log: Cell::new([(0, 0); 8]),
    };
    let mut rec = Rec::new();
    let r = verif::stream_any_value(emit::Value::from_sval(&tokens), &mut rec);
    assert!(r.is_ok(), "the adapter does not fail on a well-formed token sequence");
    assert!(rec.depth == 0, "output tokens are balanced: nothing is left open");
    let n_in = tokens.scalars.get();
    assert!(rec.scalars == n_in, "every scalar of the input appears exactly once in the output");
    let log = tokens.log.get();
    let mut i = 0;
    while i < 8 {
        if i < n_in {
            assert!(rec.log[i] == log[i], "scalars keep their order, type and value");
        }
        i += 1;
    }
    kani::cover!(rec.scalars == n_in, "streamed to the end");
}

harness!(c13_q_any_value_shapes_sequences, 10, [shape_case::<0>(), shape_case::<1>(), shape_case::<2>(), shape_case::<3>(), shape_case::<4>()]);
harness!(c13_q_any_value_shapes_text_key_maps, 10, [shape_case::<5>(), shape_case::<6>(), shape_case::<7>(), shape_case::<8>(), shape_case::<9>(), shape_case::<10>(), shape_case::<11>()]);
// non-text map keys: the property demands "no panic"; on the pinned tree these reach `todo!()`
// (any_value.rs, `if self.in_map_key { todo!() }`): see known_findings.json
harness!(c13_t_any_value_shapes_scalar_keys, 10, [shape_case::<12>(), shape_case::<13>(), shape_case::<14>()]);
harness!(c13_t_any_value_shapes_complex_keys, 10, [shape_case::<15>(), shape_case::<16>(), shape_case::<17>()]);
