//! C13 (partial) — the any-value bridge `data::any_value::EmitValue`: for every structured value
//! (here: every token sequence of the sval grammar up to depth 2) the adapter does not panic,
//! its output is balanced, and every scalar of the input appears exactly once, in order, under
//! the `AnyValue` member that fits its type (map keys as bare key text).
use core::cell::Cell;
use emit_otlp::verif;

// ---- input: a value whose `stream` emits a symbolic token sequence ---------------------------

pub const NULL: u8 = 0;
pub const BOOL: u8 = 1;
pub const I64: u8 = 2;
pub const F64: u8 = 3;
pub const TEXT: u8 = 4;
pub const BIN: u8 = 5;
pub const SEQ: u8 = 6;
pub const MAP: u8 = 7;

/// The shape is a fixed array of symbolic choices consumed left to right while streaming, so
/// that streaming the same value twice yields the same tokens.
pub struct Tokens {
    pub shape: [u8; 16],
    pub at: Cell<usize>,
    pub max_depth: u8,
    /// `false`: map keys are always text; `true`: the key kind is symbolic over all eight kinds
    pub any_keys: bool,
    pub scalars: Cell<usize>,
    pub log: Cell<[(u8, i64); 8]>,
}

impl Tokens {
    fn next(&self, below: u8) -> u8 {
        let i = self.at.get();
        assert!(i < 16, "harness: shape array too small");
        self.at.set(i + 1);
        self.shape[i] % below
    }

    fn note(&self, kind: u8, v: i64) {
        let n = self.scalars.get();
        let mut log = self.log.get();
        if n < 8 {
            log[n] = (kind, v);
        }
        self.log.set(log);
        self.scalars.set(n + 1);
    }

    fn scalar<'sval, S: sval::Stream<'sval> + ?Sized>(&self, kind: u8, stream: &mut S) -> sval::Result {
        match kind {
            NULL => { self.note(NULL, 0); stream.null() }
            BOOL => { self.note(BOOL, 1); stream.bool(true) }
            I64 => { self.note(I64, -7); stream.i64(-7) }
            F64 => { self.note(F64, 2); stream.f64(2.5) }
            TEXT => {
                self.note(TEXT, 2);
                stream.text_begin(Some(2))?;
                stream.text_fragment_computed("ab")?;
                stream.text_end()
            }
            _ => {
                self.note(BIN, 1);
                stream.binary_begin(Some(1))?;
                stream.binary_fragment_computed(&[9u8])?;
                stream.binary_end()
            }
        }
    }

    fn value<'sval, S: sval::Stream<'sval> + ?Sized>(&self, depth: u8, stream: &mut S) -> sval::Result {
        let kind = if depth >= self.max_depth { self.next(SEQ) } else { self.next(MAP + 1) };
        if kind < SEQ {
            return self.scalar(kind, stream);
        }
        let n = self.next(3) as usize; // 0, 1 or 2 entries
        if kind == SEQ {
            stream.seq_begin(Some(n))?;
            let mut i = 0;
            while i < 2 {
                if i < n {
                    stream.seq_value_begin()?;
                    self.value(depth + 1, stream)?;
                    stream.seq_value_end()?;
                }
                i += 1;
            }
            stream.seq_end()
        } else {
            stream.map_begin(Some(n))?;
            let mut i = 0;
            while i < 2 {
                if i < n {
                    stream.map_key_begin()?;
                    let k = if self.any_keys { self.next(MAP + 1) } else { TEXT };
                    if k < SEQ {
                        self.scalar(k, stream)?;
                    } else if k == SEQ {
                        stream.seq_begin(Some(0))?;
                        stream.seq_end()?;
                    } else {
                        stream.map_begin(Some(0))?;
                        stream.map_end()?;
                    }
                    stream.map_key_end()?;
                    stream.map_value_begin()?;
                    self.value(depth + 1, stream)?;
                    stream.map_value_end()?;
                }
                i += 1;
            }
            stream.map_end()
        }
    }
}

impl sval::Value for Tokens {
    fn stream<'sval, S: sval::Stream<'sval> + ?Sized>(&'sval self, stream: &mut S) -> sval::Result {
        self.at.set(0);
        self.scalars.set(0);
        self.value(0, stream)
    }
}

// ---- output: a stream that checks balance and records the scalars it is handed --------------

pub const O_ENUM: u8 = 1;
pub const O_TAGGED: u8 = 2;
pub const O_RECORD: u8 = 3;
pub const O_FIELD: u8 = 4;
pub const O_SEQ: u8 = 5;
pub const O_ELEM: u8 = 6;
pub const O_TEXT: u8 = 7;
pub const O_BIN: u8 = 8;

/// member of `AnyValue` / field of `KeyValue` an output token sits directly under
pub const M_NONE: u8 = 0;
pub const M_STRING: u8 = 1;
pub const M_BOOL: u8 = 2;
pub const M_INT: u8 = 3;
pub const M_DOUBLE: u8 = 4;
pub const M_ARRAY: u8 = 5;
pub const M_KVLIST: u8 = 6;
pub const M_BYTES: u8 = 7;
pub const M_KEY: u8 = 8;
pub const M_VALUE: u8 = 9;
pub const M_VALUES: u8 = 10;
pub const M_OTHER: u8 = 11;

fn member(label: &str) -> u8 {
    match label {
        "stringValue" => M_STRING,
        "boolValue" => M_BOOL,
        "intValue" => M_INT,
        "doubleValue" => M_DOUBLE,
        "arrayValue" => M_ARRAY,
        "kvlistValue" => M_KVLIST,
        "bytesValue" => M_BYTES,
        "key" => M_KEY,
        "value" => M_VALUE,
        "values" => M_VALUES,
        _ => M_OTHER,
    }
}

pub struct Rec {
    pub stack: [(u8, u8); 24],
    pub depth: usize,
    pub scalars: usize,
    pub log: [(u8, i64); 8],
    pub text_len: i64,
}

impl Rec {
    pub fn new() -> Rec {
        Rec { stack: [(0, 0); 24], depth: 0, scalars: 0, log: [(0, 0); 8], text_len: 0 }
    }

    fn open(&mut self, what: u8, m: u8) -> sval::Result {
        assert!(self.depth < 24, "harness: output nesting deeper than the recorder's stack");
        self.stack[self.depth] = (what, m);
        self.depth += 1;
        Ok(())
    }

    fn close(&mut self, what: u8, m: u8) -> sval::Result {
        assert!(self.depth >= 1, "output closes a token that was never opened");
        self.depth -= 1;
        assert!(self.stack[self.depth] == (what, m), "output tokens are balanced: an end matches the innermost open begin");
        Ok(())
    }

    /// the member the next token sits directly under (0 at top level)
    fn under(&self) -> (u8, u8) {
        if self.depth == 0 { (0, M_NONE) } else { self.stack[self.depth - 1] }
    }

    fn note(&mut self, kind: u8, v: i64) {
        if self.scalars < 8 {
            self.log[self.scalars] = (kind, v);
        }
        self.scalars += 1;
    }
}

fn lbl(label: Option<&sval::Label>) -> u8 {
    match label {
        Some(l) => member(l.as_str()),
        None => M_NONE,
    }
}

impl<'sval> sval::Stream<'sval> for Rec {
    fn null(&mut self) -> sval::Result {
        self.note(NULL, 0);
        Ok(())
    }

    fn bool(&mut self, v: bool) -> sval::Result {
        assert!(self.under() == (O_TAGGED, M_BOOL), "a bool is written under AnyValue.boolValue");
        self.note(BOOL, v as i64);
        Ok(())
    }

    fn i64(&mut self, v: i64) -> sval::Result {
        assert!(self.under() == (O_TAGGED, M_INT), "an integer is written under AnyValue.intValue");
        self.note(I64, v);
        Ok(())
    }

    fn f64(&mut self, v: f64) -> sval::Result {
        assert!(self.under() == (O_TAGGED, M_DOUBLE), "a float is written under AnyValue.doubleValue");
        self.note(F64, v as i64);
        Ok(())
    }

    fn text_begin(&mut self, _: Option<usize>) -> sval::Result {
        let u = self.under();
        assert!(u == (O_TAGGED, M_STRING) || u == (O_FIELD, M_KEY), "text is written under AnyValue.stringValue or as a KeyValue key");
        self.text_len = 0;
        self.open(O_TEXT, 0)
    }

    fn text_fragment_computed(&mut self, f: &str) -> sval::Result {
        assert!(self.under() == (O_TEXT, 0), "text fragments only inside text");
        self.text_len += f.len() as i64;
        Ok(())
    }

    fn text_end(&mut self) -> sval::Result {
        self.close(O_TEXT, 0)?;
        let n = self.text_len;
        self.note(TEXT, n);
        Ok(())
    }

    fn binary_begin(&mut self, _: Option<usize>) -> sval::Result {
        assert!(self.under() == (O_TAGGED, M_BYTES), "bytes are written under AnyValue.bytesValue");
        self.text_len = 0;
        self.open(O_BIN, 0)
    }

    fn binary_fragment_computed(&mut self, f: &[u8]) -> sval::Result {
        assert!(self.under() == (O_BIN, 0), "binary fragments only inside binary");
        self.text_len += f.len() as i64;
        Ok(())
    }

    fn binary_end(&mut self) -> sval::Result {
        self.close(O_BIN, 0)?;
        let n = self.text_len;
        self.note(BIN, n);
        Ok(())
    }

    fn seq_begin(&mut self, _: Option<usize>) -> sval::Result {
        assert!(self.under() == (O_FIELD, M_VALUES), "a list is written as the `values` field of ArrayValue / KeyValueList");
        self.open(O_SEQ, 0)
    }

    fn seq_value_begin(&mut self) -> sval::Result {
        assert!(self.under() == (O_SEQ, 0), "list elements only inside a list");
        self.open(O_ELEM, 0)
    }

    fn seq_value_end(&mut self) -> sval::Result {
        self.close(O_ELEM, 0)
    }

    fn seq_end(&mut self) -> sval::Result {
        self.close(O_SEQ, 0)
    }

    fn enum_begin(&mut self, _: Option<&sval::Tag>, _: Option<&sval::Label>, _: Option<&sval::Index>) -> sval::Result {
        self.open(O_ENUM, 0)
    }

    fn enum_end(&mut self, _: Option<&sval::Tag>, _: Option<&sval::Label>, _: Option<&sval::Index>) -> sval::Result {
        self.close(O_ENUM, 0)
    }

    fn tagged_begin(&mut self, _: Option<&sval::Tag>, label: Option<&sval::Label>, _: Option<&sval::Index>) -> sval::Result {
        assert!(self.under() == (O_ENUM, 0), "an AnyValue member is written inside the AnyValue enum");
        self.open(O_TAGGED, lbl(label))
    }

    fn tagged_end(&mut self, _: Option<&sval::Tag>, label: Option<&sval::Label>, _: Option<&sval::Index>) -> sval::Result {
        self.close(O_TAGGED, lbl(label))
    }

    fn record_tuple_begin(&mut self, _: Option<&sval::Tag>, _: Option<&sval::Label>, _: Option<&sval::Index>, _: Option<usize>) -> sval::Result {
        self.open(O_RECORD, 0)
    }

    fn record_tuple_value_begin(&mut self, _: Option<&sval::Tag>, label: &sval::Label, _: &sval::Index) -> sval::Result {
        assert!(self.under() == (O_RECORD, 0), "fields only inside a record");
        self.open(O_FIELD, member(label.as_str()))
    }

    fn record_tuple_value_end(&mut self, _: Option<&sval::Tag>, label: &sval::Label, _: &sval::Index) -> sval::Result {
        self.close(O_FIELD, member(label.as_str()))
    }

    fn record_tuple_end(&mut self, _: Option<&sval::Tag>, _: Option<&sval::Label>, _: Option<&sval::Index>) -> sval::Result {
        self.close(O_RECORD, 0)
    }
}

// ---- harnesses ----------------------------------------------------------------------------------

fn case<const MAX_DEPTH: u8, const ANY_KEYS: bool, const SHAPE: usize, const TWIN: bool>() {
    let mut shape = [0u8; 16];
    let mut i = 0;
    while i < SHAPE {
        shape[i] = kani::any();
        kani::assume(shape[i] <= MAP);
        i += 1;
    }
    let tokens = Tokens {
        shape,
        at: Cell::new(0),
        max_depth: MAX_DEPTH,
        any_keys: ANY_KEYS,
        scalars: Cell::new(0),
        log: Cell::new([(0, 0); 8]),
    };
    let mut rec = Rec::new();
    let r = verif::stream_any_value(emit::Value::from_sval(&tokens), &mut rec);
    assert!(r.is_ok(), "the adapter does not fail on a well-formed token sequence");
    assert!(rec.depth == 0, "output tokens are balanced: nothing is left open");
    let n_in = tokens.scalars.get();
    assert!(tokens.at.get() <= SHAPE, "harness: shape prefix too short for this bound");
    if TWIN {
        // mutant: "the output never contains a key"
        assert!(rec.scalars == n_in && n_in <= 1, "MUTANT: at most one scalar");
    } else {
        assert!(rec.scalars == n_in, "every scalar of the input appears exactly once in the output");
    }
    let log = tokens.log.get();
    let mut i = 0;
    while i < 8 {
        if i < n_in {
            assert!(rec.log[i] == log[i], "scalars keep their order, type and value");
        }
        i += 1;
    }
    kani::cover!(n_in == 0, "empty container");
    kani::cover!(n_in >= 3, "three or more scalars");
    kani::cover!(shape[0] == MAP && shape[1] % 3 == 2, "map of two entries");
    kani::cover!(shape[0] == SEQ && shape[1] % 3 >= 1 && shape[2] == MAP, "opt: map nested in a sequence");
}

// depth 0: a scalar; depth <= 1: containers of scalars; depth <= 2: nested once
#[kani::proof]
#[kani::unwind(13)]
pub fn c13_q_any_value_text_keys_depth1() { case::<1, false, 8, false>() }

#[kani::proof]
#[kani::unwind(13)]
pub fn c13_q_any_value_any_keys_depth1() { case::<1, true, 8, false>() }

#[kani::proof]
#[kani::unwind(13)]
pub fn c13_t_any_value_text_keys_depth2() { case::<2, false, 16, false>() }

#[kani::proof]
#[kani::unwind(13)]
pub fn c13_t_any_value_any_keys_depth2() { case::<2, true, 16, false>() }

#[kani::proof]
#[kani::unwind(13)]
pub fn c13_w_any_value_depth1() { case::<1, false, 8, true>() }
