//! Shared helpers: a property list with a concrete shape (fixed keys) and symbolic content.
use core::ops::ControlFlow;
use emit::{Props, Str, Value};

/// `N` slots with concrete keys; a slot holds a value or is absent. Enumeration order = slot order.
pub struct Slots<'a, const N: usize> {
    pub s: [(&'static str, Option<Value<'a>>); N],
}

impl<'a, const N: usize> Props for Slots<'a, N> {
    fn for_each<'kv, F: FnMut(Str<'kv>, Value<'kv>) -> ControlFlow<()>>(&'kv self, mut f: F) -> ControlFlow<()> {
        let mut i = 0;
        while i < N {
            if let Some(v) = &self.s[i].1 {
                f(Str::new(self.s[i].0), v.by_ref())?;
            }
            i += 1;
        }
        ControlFlow::Continue(())
    }
}

pub fn ts(secs: u64) -> emit::Timestamp {
    emit::Timestamp::from_unix(core::time::Duration::from_secs(secs)).unwrap()
}

/// 0 none, 1 point, 2 range with SYMBOLIC bounds in 0..=3 s (forwards, empty `t..t` and backwards ranges: all of
/// them are range extents - "an empty range is still considered a range", emit_core::extent)
#[cfg(kani)]
pub fn extent_of_sym_range(kind: u8) -> Option<emit::Extent> {
    match kind {
        0 => None,
        1 => Some(emit::Extent::point(ts(5))),
        _ => {
            let (a, b): (u8, u8) = (kani::any(), kani::any());
            kani::assume(a <= 3 && b <= 3);
            Some(emit::Extent::range(ts(a as u64)..ts(b as u64)))
        }
    }
}

/// 0 none, 1 point, 2 range
pub fn extent_of(kind: u8) -> Option<emit::Extent> {
    match kind {
        0 => None,
        1 => Some(emit::Extent::point(ts(5))),
        _ => Some(emit::Extent::range(ts(2)..ts(5))),
    }
}

/// Stand-in for `emit::Value::parse` in harnesses whose kind is a captured `emit::Kind`: the
/// kind must be recovered by downcasting, never by formatting and re-parsing (the formatting
/// machinery does not finish under CBMC). Reaching it fails the harness.
pub fn parse_not_reached<'v, T: core::str::FromStr>(_v: &emit::Value<'v>) -> Option<T>
where
    'v: 'v, // makes 'v early-bound so that the generics line up with `impl<'v> Value<'v> { fn parse<T> }`
{
    panic!("Value::parse reached for a captured Kind")
}

/// Stand-in for `std::hash::RandomState::new` (reads OS randomness through thread-locals): fixed
/// keys. Hash-map contents do not depend on the keys; hash-flooding behaviour is outside the claims.
pub fn fixed_random_state() -> std::hash::RandomState {
    unsafe { core::mem::transmute::<[u64; 2], std::hash::RandomState>([0x0706050403020100, 0x0f0e0d0c0b0a0908]) }
}

/// Stand-in for `std::panic::catch_unwind`: Kani has no unwinding (a panic is a failed check and
/// aborts the path), so running the closure and returning `Ok` is exact; the intrinsic itself
/// crashes kani-compiler 0.68 when reachable (DESIGN.md §3).
pub fn no_unwind<F: FnOnce() -> R + std::panic::UnwindSafe, R>(f: F) -> std::thread::Result<R> {
    Ok(f())
}

/// Stand-in for `alloc::fmt::format` in harnesses where no formatted text is observed (error and
/// diagnostic messages only): `fmt::write` through function pointers does not finish under CBMC.
pub fn no_format(_args: core::fmt::Arguments<'_>) -> String {
    String::new()
}
