//! Shared helpers: a property list with a concrete shape (fixed keys) and symbolic content.
use core::ops::ControlFlow;
use emit::{Props, Str, Value};

/// `N` slots with concrete keys; a slot holds a value or is absent. Enumeration order = slot order.
pub struct Slots<'a, const N: usize> {
    pub s: [(&'static str, Option<Value<'a>>); N],
}

impl<'a, const N: usize> Props for Slots<'a, N> {
    fn for_each<'kv, F: FnMut(Str<'kv>, Value<'kv>) -> ControlFlow<()>>(&'kv self, mut f: F) -> ControlFlow<()> {
        let mut i = 0;
        while i < N {
            if let Some(v) = &self.s[i].1 {
                f(Str::new(self.s[i].0), v.by_ref())?;
            }
            i += 1;
        }
        ControlFlow::Continue(())
    }
}

pub fn ts(secs: u64) -> emit::Timestamp {
    emit::Timestamp::from_unix(core::time::Duration::from_secs(secs)).unwrap()
}

/// 0 none, 1 point, 2 range
pub fn extent_of(kind: u8) -> Option<emit::Extent> {
    match kind {
        0 => None,
        1 => Some(emit::Extent::point(ts(5))),
        _ => Some(emit::Extent::range(ts(2)..ts(5))),
    }
}
