#![allow(dead_code, unused_imports, unused_variables, unused_mut)]
//! Kani harnesses over `emit::level::MinLevelPathMap` (`emit` built with `alloc` only).

#[cfg(kani)]
pub mod c17_nested;
