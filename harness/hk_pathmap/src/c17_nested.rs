//! C17 — nested module rules, registration order, prefix-sharing siblings and repeated registrations in
//! `emit::level::MinLevelPathMap`.
//!
//! What is executed is the real `MinLevelPathMap::<L>::{new, default_min_level, min_level}` and
//! `<MinLevelPathMap<L> as Filter>::matches` (with `Path::segments`, `Str::{by_ref, to_owned, cmp}`, `Vec::insert`,
//! `binary_search_by_key`, `<Option<&MinLevelFilter<L>> as Filter>::matches`, `MinLevelFilter::<L>::matches`,
//! `Props::pull`) from the scratch copy of /repo, instantiated at the harness level type `L = HL` below.
//!
//! Shapes are concrete, contents symbolic: every harness runs a few CONCRETE registration sequences (indices into
//! `POOL`, in the written order — all orders, repeats and prefix-sharing siblings are enumerated by the harness
//! families in c17_nested_gen.rs) with SYMBOLIC minimum levels (any `u8` each), a symbolic presence and level of
//! the map default, a symbolic event level, and looks up EVERY module of `MODS`.
//! Oracle (property text): the minimum of the longest registered path that is the module or an ancestor of it at
//! `::` boundaries applies (the last registration of that path), else the map default, else the event is accepted.
//!
//! Needs CBMC's `--max-field-sensitivity-array-size 1024` (group file): Vec buffers are byte arrays for CBMC and are
//! only constant-propagated when field sensitivity covers them (77 s -> 7 s for one registration; two-segment
//! registrations do not finish at all without it).
use emit::level::{MinLevelFilter, MinLevelPathMap};
use emit::Level;
use emit_core::empty::Empty;
use emit_core::event::Event;
use emit_core::filter::Filter;
use emit_core::path::Path;
use emit_core::template::Template;
use emit_core::value::{FromValue, Value};

/// Harness level type. The trie walk of `MinLevelPathMap<L>` and the comparison in `MinLevelFilter<L>` are generic in
/// `L: FromValue + Ord + Default`; this instantiation takes the level of a leveled event (`from_value`, the value is
/// ignored) and of an unleveled one (`default`) from statics set by the harness, so no value-bag cast is explored.
/// (`L = Level` — typed/textual/numeric level values — is decided by the c17_level and c17_pathmap1 harnesses.)
#[derive(Clone, Copy, PartialEq, Eq, PartialOrd, Ord, Debug)]
pub struct HL(pub u8);

// distinctive non-zero initialisers (kani-compiler aliases zero statics with std constants); set at harness start
static mut EVT_LVL: u8 = 0x5b;
static mut DEF_LVL: u8 = 0x5d;

impl<'v> FromValue<'v> for HL {
    fn from_value(_value: Value<'v>) -> Option<Self> {
        Some(HL(unsafe { EVT_LVL }))
    }
}

impl Default for HL {
    fn default() -> Self {
        HL(unsafe { DEF_LVL })
    }
}

/// registered paths: nested (a, a::b, a::b::c), prefix-sharing siblings at both depths (a / aa, a::b / a::bb), unrelated (b)
pub const POOL: [&str; 6] = ["a", "a::b", "a::bb", "a::b::c", "aa", "b"];
/// event modules: every pool path, a descendant of the deepest, a child of `a` that is not registered, an unrelated root
pub const MODS: [&str; 9] = ["a", "a::b", "a::bb", "a::b::c", "aa", "b", "a::b::c::d", "a::x", "c"];

/// reference: is module `m` equal to `p` or a descendant of it at a `::` boundary
fn under(m: &str, p: &str) -> bool {
    let (m, p) = (m.as_bytes(), p.as_bytes());
    if p.len() > m.len() { return false; }
    let mut i = 0;
    while i < p.len() { if m[i] != p[i] { return false; } i += 1; }
    m.len() == p.len() || (m.len() >= p.len() + 2 && m[p.len()] == b':' && m[p.len() + 1] == b':')
}

fn textual_prefix(m: &str, p: &str) -> bool {
    let (m, p) = (m.as_bytes(), p.as_bytes());
    if p.len() > m.len() { return false; }
    let mut i = 0;
    while i < p.len() { if m[i] != p[i] { return false; } i += 1; }
    true
}

pub const SAW_RULE_ACCEPT: u8 = 1;
pub const SAW_RULE_REJECT: u8 = 2;
pub const SAW_DEFAULT_REJECT: u8 = 4;
pub const SAW_NO_RULE_ACCEPT: u8 = 8;
/// the longest matching rule and a shorter matching rule would decide differently
pub const SAW_DEEPER_OVERRIDES: u8 = 16;
/// the last and an earlier registration of the deciding path would decide differently
pub const SAW_REPEAT_OVERRIDES: u8 = 32;

#[derive(Clone, Copy, PartialEq, Eq)]
pub enum Oracle {
    /// the property
    Longest,
    /// deliberately false (twins): the FIRST registered matching rule applies
    FirstRegistered,
    /// deliberately false (twins): for a repeated path the FIRST registration stays in force
    FirstOfRepeats,
    /// deliberately false (twins): a registered path governs every module it is a TEXTUAL prefix of
    TextualPrefix,
}

/// reference for one lookup: linear scan over the registrations (`lv[k]` = minimum of registration k, `lvl` = the
/// level the filter sees). Returns (expected verdict, SAW_* situations).
fn reference(regs: &[usize], lv: &[u8; 4], m: &str, lvl: u8, has_default: bool, dflt: u8, oracle: Oracle) -> (bool, u8) {
    let mut saw = 0u8;
    let mut best: Option<(usize, u8)> = None;
    let mut k = 0;
    while k < regs.len() {
        let p = POOL[regs[k]];
        if under(m, p) || (oracle == Oracle::TextualPrefix && textual_prefix(m, p)) {
            match best {
                None => best = Some((p.len(), lv[k])),
                Some((n, min)) => {
                    let take = match oracle {
                        Oracle::Longest | Oracle::TextualPrefix => p.len() >= n,
                        Oracle::FirstRegistered => false,
                        Oracle::FirstOfRepeats => p.len() > n,
                    };
                    if p.len() != n && (lvl >= min) != (lvl >= lv[k]) { saw |= SAW_DEEPER_OVERRIDES; }
                    if p.len() == n && (lvl >= min) != (lvl >= lv[k]) { saw |= SAW_REPEAT_OVERRIDES; }
                    if take { best = Some((p.len(), lv[k])); }
                }
            }
        }
        k += 1;
    }
    let want = match best {
        Some((_, min)) => lvl >= min,
        None => if has_default { lvl >= dflt } else { true },
    };
    saw |= match (best.is_some(), has_default, want) {
        (true, _, true) => SAW_RULE_ACCEPT,
        (true, _, false) => SAW_RULE_REJECT,
        (false, true, false) => SAW_DEFAULT_REJECT,
        (false, false, true) => SAW_NO_RULE_ACCEPT,
        _ => 0,
    };
    (want, saw)
}


/// how paths reach the map
#[derive(Clone, Copy, PartialEq, Eq)]
pub enum Paths {
    /// registrations and event modules are `&'static str` paths (`Path::new_raw`): trie keys stay static
    Static,
    /// registrations are OWNED paths (`Path::new_owned_raw(Box<str>)`: every trie key is copied into its own `Box<str>` by
    /// `Str::to_owned`), event modules are BORROWED (`Path::new_ref_raw`)
    OwnedBorrowed,
}

/// One CONCRETE registration sequence `regs` (indices into POOL, registered in this order), symbolic levels, symbolic
/// default, symbolic event level; every module of MODS is looked up. Returns the SAW_* situations met.
pub fn seq_check(regs: &[usize], leveled: bool, oracle: Oracle) -> u8 {
    seq_check_paths(regs, leveled, oracle, Paths::Static)
}

pub fn seq_check_paths(regs: &[usize], leveled: bool, oracle: Oracle, paths: Paths) -> u8 {
    let el: u8 = kani::any();
    let dl: u8 = kani::any();
    unsafe { EVT_LVL = el; DEF_LVL = dl; }
    // the level the filter must see: a leveled event carries `el`, an unleveled one gets `L::default()`
    let lvl = if leveled { el } else { dl };
    let mut map: MinLevelPathMap<HL> = MinLevelPathMap::new();
    let has_default: bool = kani::any();
    let dflt: u8 = kani::any();
    if has_default { map.default_min_level(MinLevelFilter::new(HL(dflt))); }
    let lv: [u8; 4] = kani::any();
    let mut k = 0;
    while k < regs.len() {
        let p = match paths {
            Paths::Static => Path::new_raw(POOL[regs[k]]),
            Paths::OwnedBorrowed => Path::new_owned_raw(POOL[regs[k]]),
        };
        map.min_level(p, MinLevelFilter::new(HL(lv[k])));
        k += 1;
    }
    let mut saw = 0u8;
    let mut mi = 0;
    while mi < MODS.len() {
        let m = MODS[mi];
        let mdl = match paths {
            Paths::Static => Path::new_raw(m),
            Paths::OwnedBorrowed => Path::new_ref_raw(m),
        };
        let got = if leveled {
            map.matches(Event::new(mdl, Template::new(&[]), Empty, ("lvl", 1i32)))
        } else {
            map.matches(Event::new(mdl, Template::new(&[]), Empty, Empty))
        };
        let (want, s) = reference(regs, &lv, m, lvl, has_default, dflt, oracle);
        assert!(got == want, "the minimum of the longest registered path the module is under applies (last registration), else the default, else accept");
        saw |= s;
        mi += 1;
    }
    core::mem::forget(map);
    saw
}

/// index -> level as a decision chain (not an array read: the result is an if-then-else over constants, which CBMC's
/// simplifier can decide niche checks like `Option<MinLevelFilter<Level>>::is_some` on)
fn level_of(i: u8) -> Level {
    if i == 0 { Level::Debug } else if i == 1 { Level::Info } else if i == 2 { Level::Warn } else { Level::Error }
}

pub fn value_parse_unreachable<'v, T: core::str::FromStr>(_v: &Value<'v>) -> Option<T> where Value<'v>: Sized {
    panic!("text fallback Value::parse reached although the level value is typed")
}

/// The same run at the DEFAULT instantiation `L = emit::Level`: minimum levels and the map default are any of the four
/// levels. `typed`: the event carries a typed `Level` (any of the four) under `lvl`, so `Level::from_value` takes the
/// downcast path (its text fallback is stubbed assert-unreachable); otherwise the event is unleveled and is treated
/// as `Level::default()` = Info.
pub fn seq_check_level(regs: &[usize], typed: bool, oracle: Oracle) -> u8 {
    let el: u8 = if typed { kani::any() } else { 1 };
    kani::assume(el < 4);
    let mut map: MinLevelPathMap<Level> = MinLevelPathMap::new();
    let has_default: bool = kani::any();
    let dflt: u8 = kani::any();
    kani::assume(dflt < 4);
    if has_default { map.default_min_level(level_of(dflt)); }
    let lv: [u8; 4] = kani::any();
    kani::assume(lv[0] < 4 && lv[1] < 4 && lv[2] < 4 && lv[3] < 4);
    let mut k = 0;
    while k < regs.len() {
        map.min_level(Path::new_raw(POOL[regs[k]]), level_of(lv[k]));
        k += 1;
    }
    let mut saw = 0u8;
    let mut mi = 0;
    while mi < MODS.len() {
        let m = MODS[mi];
        let got = if typed {
            map.matches(Event::new(Path::new_raw(m), Template::new(&[]), Empty, ("lvl", level_of(el))))
        } else {
            map.matches(Event::new(Path::new_raw(m), Template::new(&[]), Empty, Empty))
        };
        let (want, s) = reference(regs, &lv, m, el, has_default, dflt, oracle);
        assert!(got == want, "the minimum of the longest registered path the module is under applies (last registration), else the default, else accept");
        saw |= s;
        mi += 1;
    }
    core::mem::forget(map);
    saw
}

// modes of the harness families
fn hl_leveled(regs: &[usize]) -> u8 { seq_check_paths(regs, true, Oracle::Longest, Paths::Static) }
fn hl_unleveled(regs: &[usize]) -> u8 { seq_check_paths(regs, false, Oracle::Longest, Paths::Static) }
fn hl_owned(regs: &[usize]) -> u8 { seq_check_paths(regs, true, Oracle::Longest, Paths::OwnedBorrowed) }
fn level_unleveled(regs: &[usize]) -> u8 { seq_check_level(regs, false, Oracle::Longest) }

/// a harness = a mode + a list of concrete registration sequences
macro_rules! seqs {
    ($name:ident, $mode:ident, [$([$($i:expr),*]),* $(,)?]) => {
        #[kani::proof]
        #[kani::unwind(12)]
        pub fn $name() {
            let mut saw = 0u8;
            $( saw |= $mode(&[$($i),*]); )*
            kani::cover!(saw & SAW_RULE_ACCEPT != 0, "a registered rule decides: accepted");
            kani::cover!(saw & SAW_RULE_REJECT != 0, "a registered rule decides: rejected");
            kani::cover!(saw & SAW_DEFAULT_REJECT != 0, "no rule applies, the map default rejects");
            kani::cover!(saw & SAW_NO_RULE_ACCEPT != 0, "no rule applies, no default: accepted");
            kani::cover!(saw & SAW_DEEPER_OVERRIDES != 0, "opt:a deeper rule decides against a shallower one");
            kani::cover!(saw & SAW_REPEAT_OVERRIDES != 0, "opt:a repeated registration decides against the earlier one");
        }
    };
}

/// mutant twins: the same runs against a deliberately false reference must FAIL
macro_rules! twin {
    ($name:ident, $oracle:expr, [$($i:expr),*]) => {
        #[kani::proof]
        #[kani::unwind(12)]
        pub fn $name() {
            let saw = seq_check(&[$($i),*], true, $oracle);
            kani::cover!(saw != 0, "ran");
        }
    };
}

// false claim: the FIRST registered matching rule applies (a, then a::b: module a::b would be governed by a)
twin!(c17_w_nest_first_registered_wins, Oracle::FirstRegistered, [0, 1]);
// false claim: a repeated registration of a path does not replace the earlier one
twin!(c17_w_nest_first_of_repeats_wins, Oracle::FirstOfRepeats, [0, 0]);
// false claim: `aa` is governed by the rule for `a` (textual prefix instead of `::` boundaries)
twin!(c17_w_nest_prefix_is_textual, Oracle::TextualPrefix, [0, 1]);

// NOT registered (does not fit, kept for documentation): nested rules at L = emit::Level with a TYPED event level.
// `Level::from_value` -> value-bag's `dyn Any` downcast stops constant propagation (first symptom: the Template drop glue
// and every memcmp are unwound to the bound): one pair did not leave symex in 9 min (5.8 GB and growing) even with the
// field-sensitivity option, with the level as an array read, as a decision chain, and with a CONCRETE event level.
#[kani::proof]
#[kani::unwind(12)]
#[kani::stub(emit_core::value::Value::parse, value_parse_unreachable)]
pub fn c17_x_nest_level_typed_pair() {
    let saw = seq_check_level(&[0, 1], true, Oracle::Longest);
    kani::cover!(saw != 0, "ran");
}

include!("c17_nested_gen.rs");
