#![allow(dead_code, unused_imports, unused_variables, unused_mut)]
//! Kani harnesses over `emit_file::default_writer` (the JSON record of the rolling-file emitter), C13.
//! Naming: `cNN_q_*` quick+thorough, `cNN_t_*` thorough only, `cNN_w_*` mutant twin (must FAIL).

pub mod c13_writer;
