//! C13 (rolling-file part) — the record `emit_file`'s default writer streams for an event, checked against the
//! documented contract of its consumer, sval_json.
//!
//! `default_writer` wraps the event in a function-local `sval::Value` (`EventValue`) and hands it to
//! `sval_json::stream_to_io_write`. sval_json itself cannot be executed symbolically within reach (DESIGN C13), so in
//! the scratch tree that ONE call goes to a recording `sval::Stream` instead (stubs/file_writer.toml,
//! inject/file_writer.rs) and the REAL `EventValue::stream`, `Props::dedup`, `ErasedProps` and value-bag's sval bridge
//! run unchanged. sval_json's contract for a record (sval_json/src/to_fmt.rs, the part this harness relies on):
//!   record_begin -> `{` ; record_value_begin(label) -> `"label":` where the label text is JSON-ESCAPED UNLESS the label
//!   carries the tag `sval::tags::VALUE_IDENT`, in which case it is written VERBATIM ; record_end -> `}`.
//! Hence "one valid JSON object per line ... every other property appears exactly once under its key with its first
//! value" (C13) requires of the code emit owns:
//!   W1 exactly one record_begin, first, and one record_end, last; nothing else at nesting depth 0;
//!   W2 the fixed fields come first, in the order [ts_start if range] [ts if extent] mdl msg tpl, each as
//!      record_value_begin(L) <one text value> record_value_end(L);
//!   W3 every further entry is record_value_begin(K) <exactly one value> record_value_end(K) with the same label K;
//!   W4 a label tagged VALUE_IDENT (written verbatim) consists only of characters that need no JSON escaping;
//!      in particular a property key containing `"`, `\` or a control character is never tagged VALUE_IDENT;
//!   W5 K is the text of an input property key; every distinct input key appears exactly once, with the value of its
//!      FIRST occurrence in the input (kind and payload);
//!   W6 if the consumer reports an error for a call inside the record, the writer returns Err (sval_json forgets an error
//!      once the outer `stream` returns Ok, and `FileSetInner::emit` writes the buffer whenever the writer returned Ok).
//! The texts of ts/mdl/msg/tpl (Display formatting) are not observed: `sval::stream_display_fragments` is stubbed to
//! produce no fragments under Kani (the native replay runs the real one; the recorder ignores fragment contents of
//! the fixed fields).
use core::time::Duration;
use emit::{Event, Extent, Path, Props, Template, Timestamp, Value};
use emit_file::verif_writer as vw;

/// Property keys of the pool: plain, with a quote, with a backslash, empty, a control character (zero padded).
pub const POOL: [([u8; KL], usize); 5] = [(*b"a\0\0", 1), (*b"a\"b", 3), (*b"a\\\0", 2), (*b"\0\0\0", 0), (*b"\n\0\0", 1)];
/// Alphabet of keys with symbolic content.
pub const ALPHA: [u8; 4] = [b'a', b'"', b'\\', b'\n'];
pub const KL: usize = 3;
/// Text values.
pub const TEXTS: [&str; 2] = ["x", "yz"];

/// Kani stand-in for `sval::stream_display_fragments` (core::fmt of timestamps / templates does not finish under CBMC):
/// no fragments. The surrounding text_begin/text_end of `sval::Display` stay real.
pub fn no_fragments<'sval, S: sval::Stream<'sval> + ?Sized, D: core::fmt::Display>(stream: &mut S, value: D) -> sval::Result {
    Ok(())
}

/// Kani stand-ins for value-bag's Debug / Display / error arms (`sval_fmt::stream_debug`, `sval_fmt::stream_display`): the
/// events of these harnesses hold no value captured through `Debug`, `Display` or as an error, so the arms are dead; CBMC
/// nevertheless walks them (value-bag's internal tag is not constant after the values went through the de-duplication map)
/// and with them `core::fmt::write` over every `Debug` impl in the binary. Reaching one fails the harness.
pub fn fmt_arm_unreachable_debug<'sval, S: sval::Stream<'sval> + ?Sized, D: core::fmt::Debug>(stream: &mut S, value: D) -> sval::Result {
    panic!("harness: value-bag's Debug arm reached although no property value was captured through Debug")
}

pub fn fmt_arm_unreachable_display<'sval, S: sval::Stream<'sval> + ?Sized, D: core::fmt::Display>(stream: &mut S, value: D) -> sval::Result {
    panic!("harness: value-bag's Display / error arm reached although no property value was captured through Display")
}

#[derive(Clone, Copy, PartialEq)]
pub enum Val {
    I(i32),
    B(bool),
    T(usize),
}

pub fn ev(i: usize) -> vw::Ev {
    unsafe { vw::REC.ev[i] }
}

/// The recorded text (length + first HEAD bytes, zero padded) equals `text`.
pub fn label_is(e: &vw::Ev, text: &str) -> bool {
    let b = text.as_bytes();
    if e.len != b.len() {
        return false;
    }
    let mut i = 0;
    while i < vw::HEAD {
        if i < b.len() && e.head[i] != b[i] {
            return false;
        }
        i += 1;
    }
    b.len() <= vw::HEAD
}

/// The recorded text equals the key (zero padded buffer + length).
pub fn label_is_key(e: &vw::Ev, kbuf: &[u8; KL], klen: usize) -> bool {
    e.len == klen && e.head[0] == kbuf[0] && e.head[1] == kbuf[1] && e.head[2] == kbuf[2]
}

/// The label text needs no escaping inside a JSON string (what sval_json assumes of a VALUE_IDENT label).
pub fn json_safe(e: &vw::Ev) -> bool {
    if e.len > vw::HEAD {
        return false; // not fully observed: cannot vouch for it
    }
    let mut i = 0;
    while i < vw::HEAD {
        if i < e.len {
            let c = e.head[i];
            if c == b'"' || c == b'\\' || c < 0x20 {
                return false;
            }
        }
        i += 1;
    }
    true
}

pub fn same_label(a: &vw::Ev, b: &vw::Ev) -> bool {
    a.len == b.len && a.head == b.head && a.ident == b.ident && a.tagged == b.tagged
}

/// W2 for one fixed field starting at event `p`; returns the index after it.
pub fn fixed_field(p: usize, n: usize, name: &str) -> usize {
    assert!(n >= 4 && p <= n - 4, "record ends inside the fixed fields");
    let b = ev(p);
    assert!(b.kind == vw::VALUE_BEGIN && label_is(&b, name), "fixed fields come first and in order");
    assert!(!b.ident || json_safe(&b), "a label written verbatim needs no escaping");
    assert!(ev(p + 1).kind == vw::TEXT_BEGIN && ev(p + 2).kind == vw::TEXT_END, "a fixed field is one text value");
    let e = ev(p + 3);
    assert!(e.kind == vw::VALUE_END && same_label(&b, &e), "record_value_end matches its begin");
    p + 4
}

/// Key of property slot `i`: octal digit `i` of `KEYS` (from the right): 0..=4 that key of `POOL`; 7 a symbolic index
/// into `POOL`; 6 symbolic content: any text of 0..=2 characters over `ALPHA`. Every slot owns its buffer (zero padded),
/// so key comparisons never go through a symbolic pointer (a symbolic `&'static str` out of a table costs > 12 M SAT
/// variables in `memcmp` for two keys).
pub fn key_of_slot(keys: usize, i: usize) -> ([u8; KL], usize) {
    let digit = (keys >> (3 * i)) & 7;
    if digit == 6 {
        let len: usize = kani::any();
        kani::assume(len <= 2);
        let mut buf = [0u8; KL];
        let mut j = 0;
        while j < 2 {
            let a: usize = kani::any();
            kani::assume(a < ALPHA.len());
            if j < len {
                buf[j] = ALPHA[a];
            }
            j += 1;
        }
        (buf, len)
    } else {
        let k: usize = if digit < 6 { digit } else { kani::any() };
        kani::assume(k < POOL.len());
        POOL[k]
    }
}

/// Event of the harnesses: module `m`, template `t`, extent per `EXT` (0 none, 1 point, 2 range, 3 symbolic among the
/// three), exactly `NP` properties with keys per `KEYS` (see `key_of_slot`; duplicates arise whenever two slots get the
/// same text) and values that all have the kind `KIND` (0 i32, 1 bool, 2 text from `TEXTS`) with symbolic payloads.
/// Shapes are constants of a harness because a conditionally filled property slot (`Some(value)` merged with `None`) or a
/// symbolic value kind makes value-bag's internal tag symbolic, and CBMC then walks every dyn visitor arm (fmt, serde,
/// error sources): measured > 8 min of symbolic execution for ONE property, against 20 s with constant shapes.
macro_rules! build_event {
    ($EXT:expr, $NP:expr, $KIND:expr, $KEYS:expr, $ext_kind:ident, $kbuf:ident, $klen:ident, $vals:ident, $evt:ident) => {
        let $ext_kind: u8 = if $EXT < 3 { $EXT } else { kani::any() };
        kani::assume($ext_kind < 3);
        let t0 = Timestamp::from_unix(Duration::new(1, 0)).unwrap();
        let t1 = Timestamp::from_unix(Duration::new(2, 5)).unwrap();
        let extent: Option<Extent> = match $ext_kind {
            0 => None,
            1 => Some(Extent::point(t1)),
            _ => Some(Extent::range(t0..t1)),
        };
        let mut $kbuf = [[0u8; KL]; $NP];
        let mut $klen = [0usize; $NP];
        let mut i = 0;
        while i < $NP {
            let (b, l) = key_of_slot($KEYS, i);
            $kbuf[i] = b;
            $klen[i] = l;
            i += 1;
        }
        let mut $vals = [Val::B(false); $NP];
        let props: [(&str, Value); $NP] = core::array::from_fn(|i| {
            let (val, value) = match $KIND {
                0 => {
                    let num: i32 = kani::any();
                    (Val::I(num), Value::from(num))
                }
                1 => {
                    let flag: bool = kani::any();
                    (Val::B(flag), Value::from(flag))
                }
                _ => {
                    let ti: usize = kani::any();
                    kani::assume(ti < TEXTS.len());
                    (Val::T(ti), Value::from(TEXTS[ti]))
                }
            };
            $vals[i] = val;
            // all bytes are ASCII
            (unsafe { core::str::from_utf8_unchecked(&$kbuf[i][..$klen[i]]) }, value)
        });
        let $evt = Event::new(Path::new_raw("m"), Template::literal("t"), extent, props);
    };
    // the same event, but its (exactly two) properties are given as the CONCATENATION of two single pairs - what a sink sees
    // for "event properties followed by ambient properties". Each side is a collection that claims uniqueness; the
    // concatenation must not (the two may share a key), or `dedup()` would skip its work and the key would be written twice.
    (split $EXT:expr, $NP:expr, $KIND:expr, $KEYS:expr, $ext_kind:ident, $kbuf:ident, $klen:ident, $vals:ident, $evt:ident) => {
        build_event!($EXT, $NP, $KIND, $KEYS, $ext_kind, $kbuf, $klen, $vals, whole);
        let pairs = whole.props();
        let $evt = Event::new(
            Path::new_raw("m"),
            Template::literal("t"),
            whole.extent().cloned(),
            emit::Props::and_props((pairs[0].0, pairs[0].1.by_ref()), (pairs[1].0, pairs[1].1.by_ref())),
        );
    };
}

/// W1..W5 on the record of one event. `TWIN`: assert the false variant "there are as many entries as properties"
/// (false as soon as a key occurs twice).
pub fn writer_record<const EXT: u8, const NP: usize, const KIND: usize, const KEYS: usize, const TWIN: bool>() {
    build_event!(EXT, NP, KIND, KEYS, ext_kind, kbuf, klen, vals, evt);
    check_record::<_, EXT, NP, KEYS, TWIN>(evt, ext_kind, &kbuf, &klen, &vals);
}

/// The same for an event whose two properties arrive as `pair.and_props(pair)` (see `build_event!(split ..)`).
pub fn writer_record_split<const EXT: u8, const NP: usize, const KIND: usize, const KEYS: usize, const TWIN: bool>() {
    build_event!(split EXT, NP, KIND, KEYS, ext_kind, kbuf, klen, vals, evt);
    check_record::<_, EXT, NP, KEYS, TWIN>(evt, ext_kind, &kbuf, &klen, &vals);
}

fn check_record<P: emit::Props, const EXT: u8, const NP: usize, const KEYS: usize, const TWIN: bool>(
    evt: Event<P>,
    ext_kind: u8,
    kbuf: &[[u8; KL]; NP],
    klen: &[usize; NP],
    vals: &[Val; NP],
) {
    // ---- the real default writer, its sval_json call redirected to the recorder
    vw::reset(usize::MAX);
    let mut buf = vw::new_buf();
    let r = vw::default_writer(&mut buf, &evt.erase());
    assert!(r.is_ok(), "the writer reports success when its consumer accepts every call");

    // ---- oracle over the recorded calls
    let (n, overflow, entered) = unsafe { (vw::REC.n, vw::REC.overflow, vw::REC.entered) };
    assert!(entered == 1, "the event is streamed exactly once");
    assert!(!overflow && n >= 2 && n <= vw::MAX_EV, "harness: recorder too small");
    // W1
    assert!(ev(0).kind == vw::RECORD_BEGIN, "the record is opened first");
    assert!(ev(n - 1).kind == vw::RECORD_END, "the record is closed last");
    // W2
    let mut p = 1;
    if ext_kind == 2 {
        p = fixed_field(p, n, "ts_start");
    }
    if ext_kind >= 1 {
        p = fixed_field(p, n, "ts");
    }
    p = fixed_field(p, n, "mdl");
    p = fixed_field(p, n, "msg");
    p = fixed_field(p, n, "tpl");
    // W3..W5: hits[s] = number of entries written for input slot s, counted at the FIRST slot that carries the key
    let mut hits = [0u8; NP];
    let mut entries = 0usize;
    let mut j = 0;
    while j < NP {
        if p < n - 1 {
            assert!(p <= n - 4, "a property entry is begin, value, end");
            let b = ev(p);
            assert!(b.kind == vw::VALUE_BEGIN, "only record values inside the record");
            assert!(!b.ident || json_safe(&b), "a property key that needs escaping is never tagged VALUE_IDENT");
            // first input slot with that key
            let mut first = NP;
            let mut s = NP;
            while s > 0 {
                s -= 1;
                if label_is_key(&b, &kbuf[s], klen[s]) {
                    first = s;
                }
            }
            assert!(first < NP, "the label is the text of one of the event's property keys");
            let v = ev(p + 1);
            let end = match vals[first] {
                Val::I(x) => {
                    assert!(v.kind == vw::I64 && v.num == x as i64, "first value under the key (integer)");
                    p + 2
                }
                Val::B(x) => {
                    assert!(v.kind == vw::BOOL && v.num == x as i64, "first value under the key (bool)");
                    p + 2
                }
                Val::T(t) => {
                    assert!(v.kind == vw::TEXT_BEGIN && label_is(&v, TEXTS[t]), "first value under the key (text)");
                    assert!(ev(p + 2).kind == vw::TEXT_END, "text value closed");
                    p + 3
                }
            };
            assert!(end < n - 1, "record_value_end is missing");
            let e = ev(end);
            assert!(e.kind == vw::VALUE_END && same_label(&b, &e), "record_value_end matches its begin");
            assert!(hits[first] < 3, "harness: counter");
            hits[first] += 1;
            entries += 1;
            p = end + 1;
        }
        j += 1;
    }
    assert!(p == n - 1, "nothing but the record's values between record_begin and record_end");
    let mut distinct = 0usize;
    let mut dup_other_value = false;
    let mut s = 0;
    while s < NP {
        // is slot s the first one with its key
        let mut is_first = true;
        let mut t = 0;
        while t < NP {
            if t < s && klen[t] == klen[s] && kbuf[t] == kbuf[s] {
                is_first = false;
                if vals[t] != vals[s] {
                    dup_other_value = true;
                }
            }
            t += 1;
        }
        if is_first {
            distinct += 1;
            if !TWIN {
                assert!(hits[s] == 1, "every distinct key exactly once");
            }
        }
        s += 1;
    }
    if TWIN {
        assert!(entries == NP, "FALSE: as many entries as properties, duplicates included");
    } else {
        assert!(entries == distinct, "as many entries as distinct keys");
    }

    let sym0 = NP >= 1 && (KEYS & 7) >= 6;
    kani::cover!(EXT < 3 || ext_kind == 0, "no extent");
    kani::cover!(EXT < 3 || ext_kind == 1, "point extent");
    kani::cover!(EXT < 3 || ext_kind == 2, "range extent");
    kani::cover!(!sym0 || kbuf[0][0] == b'"' || kbuf[0][1] == b'"', "key with a quote");
    kani::cover!(!sym0 || kbuf[0][0] == b'\\' || kbuf[0][1] == b'\\', "key with a backslash");
    kani::cover!(!sym0 || klen[0] == 0, "empty key");
    kani::cover!(!sym0 || kbuf[0][0] == b'\n', "control character key");
    kani::cover!(NP < 2 || (KEYS & 0o70) < 0o60 || (distinct < NP && dup_other_value), "duplicate key with different values");
    kani::cover!(NP < 2 || (KEYS & 0o70) < 0o60 || distinct == NP, "all keys distinct");
    kani::cover!(n >= 14, "record of at least the three fixed fields");
    core::mem::forget(evt);
    core::mem::forget(buf);
}

/// W6: the consumer answers `Err` at ONE call (symbolic position among all calls of the record: record_begin, a fixed
/// field's begin / text / end, a property's begin / value / end, record_end). A consumer error inside the record makes
/// `default_writer` return Err (the event is then counted as `event_format_failed` and nothing is written); without an
/// error it returns Ok. Never a panic.
pub fn writer_consumer_error<const EXT: u8, const NP: usize, const KIND: usize, const KEYS: usize, const TWIN: bool>() {
    build_event!(EXT, NP, KIND, KEYS, ext_kind, kbuf, klen, vals, evt);
    let fail_at: usize = kani::any();
    kani::assume(fail_at < vw::MAX_EV);
    vw::reset(fail_at);
    let mut buf = vw::new_buf();
    let r = vw::default_writer(&mut buf, &evt.erase());
    let (calls, entered) = unsafe { (vw::REC.calls, vw::REC.entered) };
    assert!(entered == 1, "the event is streamed exactly once");
    let failed = calls > fail_at;
    if TWIN {
        assert!(r.is_ok(), "FALSE: the writer always reports success");
    } else if failed {
        assert!(r.is_err(), "the writer reports the consumer's error");
    } else {
        assert!(r.is_ok(), "the writer reports success when its consumer accepts every call");
    }
    kani::cover!(failed && fail_at == 0, "record_begin fails");
    kani::cover!(failed && fail_at == 2, "text of the first fixed field fails");
    // record_begin, then 4 calls per fixed field (3 + one per timestamp), then the properties
    let first_prop_call = 1 + 4 * (3 + (ext_kind >= 1) as usize + (ext_kind == 2) as usize);
    kani::cover!(NP < 1 || (failed && fail_at >= first_prop_call && fail_at < first_prop_call + 3), "a call inside the first property fails");
    kani::cover!(!failed, "no call fails");
    core::mem::forget(r);
    core::mem::forget(evt);
    core::mem::forget(buf);
}

macro_rules! harness {
    ($name:ident, $unwind:expr, $body:ident, $EXT:expr, $NP:expr, $KIND:expr, $KEYS:expr, $TWIN:expr) => {
        #[cfg(kani)]
        #[kani::proof]
        #[kani::unwind($unwind)]
        #[kani::stub(sval::stream_display_fragments, no_fragments)]
        #[kani::stub(sval_fmt::stream_debug, fmt_arm_unreachable_debug)]
        #[kani::stub(sval_fmt::stream_display, fmt_arm_unreachable_display)]
        pub fn $name() {
            $body::<$EXT, $NP, $KIND, $KEYS, $TWIN>()
        }
    };
}

// unwind 13: `sval::Tag == sval::tags::VALUE_IDENT` compares the 11-byte tag name once the ids agree (memcmp + 1)
// arguments: extent (0 none, 1 point, 2 range, 3 symbolic), properties, value kind (0 i32, 1 bool, 2 text),
// KEYS octal, digit i = key of slot i: 0 `a`, 1 `a"b`, 2 `a\`, 3 empty, 4 newline, 6 symbolic text, 7 symbolic pool index
// quick: every extent kind, 0 / 1 / 3 properties, every value kind, any key text for the single property, duplicates
harness!(c13_q_file_writer_record_x0_p0, 13, writer_record, 0, 0, 0, 0o0, false);
harness!(c13_q_file_writer_record_x1_p1_int_anykey, 13, writer_record, 1, 1, 0, 0o6, false);
harness!(c13_q_file_writer_record_x0_p1_bool_poolkey, 13, writer_record, 0, 1, 1, 0o7, false);
harness!(c13_q_file_writer_record_x2_p3_text_dup, 13, writer_record, 2, 3, 2, 0o101, false);
harness!(c13_q_file_writer_record_concatenated_dup, 13, writer_record_split, 0, 2, 0, 0o11, false);
harness!(c13_q_file_writer_consumer_error, 13, writer_consumer_error, 0, 2, 0, 0o21, false);
// thorough: symbolic extent, further key patterns (all equal, all distinct incl. empty and control, late duplicate), kinds
harness!(c13_t_file_writer_record_x3_p0, 13, writer_record, 3, 0, 0, 0o0, false);
harness!(c13_t_file_writer_record_x3_p1_text_anykey, 13, writer_record, 3, 1, 2, 0o6, false);
harness!(c13_t_file_writer_record_x0_p3_int_same, 13, writer_record, 0, 3, 0, 0o111, false);
harness!(c13_t_file_writer_record_x1_p3_bool_distinct, 13, writer_record, 1, 3, 1, 0o432, false);
harness!(c13_t_file_writer_record_x0_p3_int_late_dup, 13, writer_record, 0, 3, 0, 0o220, false);
harness!(c13_t_file_writer_record_x2_p2_bool_dup, 13, writer_record, 2, 2, 1, 0o44, false);
harness!(c13_t_file_writer_consumer_error_x2_p1_text, 13, writer_consumer_error, 2, 1, 2, 0o1, false);
// mutant twins (must FAIL)
harness!(c13_w_file_writer_record_dup_twice, 13, writer_record, 0, 2, 0, 0o11, true);
harness!(c13_w_file_writer_consumer_error_swallowed, 13, writer_consumer_error, 0, 1, 0, 0o1, true);
