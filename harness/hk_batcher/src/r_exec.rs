//! R — one iteration of the receiver loop of the REAL `Receiver::exec`, de-asynced in the scratch tree
//! (stubs/batcher.toml exec-*: `async fn` -> `fn`, `.await` -> poll-once `block_on`), from an ARBITRARY state.
//!
//! The receiver touches the shared state in exactly one critical section per loop iteration: everything the
//! iteration does (take callbacks, every processor attempt, retry waits, flush callbacks) is observed to be
//! complete when the state lock is acquired for the SECOND time (shim hook), and the snapshots taken inside
//! `on_batch` assert that the lock is not held while processing. So an iteration is one atomic step on the shared
//! state followed by local work, and is checked from an arbitrary pre-state like the sender steps.
//! Environment: `on_batch` records its argument and returns a ready future with a symbolic outcome
//! {Ok, Err no-retry, Err retry(any remainder, possibly empty)}; the panic plan makes any of the guarded calls
//! (take callbacks, on_batch itself, the poll of its future, flush callbacks) panic; `wait` records the
//! requested delay. The post-conditions are checked in the hook at the second acquisition (see `hook`), which is
//! either the next swap or `Receiver::drop` after `exec` returned.
//!
//! C06: the batch handed to the processor is the whole pre-queue in order; the pending queue is empty after the
//!      swap; a retry re-delivers exactly the remainder the processor returned and nothing else.
//! C07: flush callbacks travelling with the batch are not run while an attempt or a retry wait is outstanding and
//!      are run exactly once after the batch's final attempt (at once for an empty hand-off).
//! C08: every outcome sequence (incl. panics) ends the iteration: <= budget+1 attempts, non-decreasing bounded
//!      back-off, every take/flush callback invoked exactly once; closed + empty => exec returns.
use crate::util::*;
use core::future::{ready, Ready};
use core::time::Duration;

const MAXA: usize = 4;
const EMPTY: Q = ArrQ { items: [0; QN], len: 0 };

// odd non-zero initialisers on purpose (see util.rs); `reset_local` stores the start values
const ODD: Q = ArrQ { items: [0x5E; QN], len: 0x5EED_0000_0000_0020 };
static mut TX: *const Sender<Q> = 0x5EED_0000_0000_0021usize as *const Sender<Q>;
static mut POST: Option<v::Snapshot> = None;
static mut POST_CALLS: usize = 0x5EED_0000_0000_0022;
static mut POST_WAITS: usize = 0x5EED_0000_0000_0023;
static mut POST_RAN: [u8; 6] = [0x5E, 0x11, 0x5E, 0x12, 0x5E, 0x13];
static mut POST_GUARDED: u32 = 0x5EED_0024;

static mut CALLS: usize = 0x5EED_0000_0000_0025;
static mut ARG: [Q; MAXA] = [ODD; MAXA];
static mut OUT: [u8; MAXA] = [0x5E, 0x21, 0x5E, 0x22];
static mut REM: [Q; MAXA] = [ODD; MAXA];
static mut POLL_IDX: [u32; MAXA] = [0x5EED_0026; MAXA];
static mut WAITS: usize = 0x5EED_0000_0000_0027;
static mut WAIT_D: [Duration; MAXA] = [Duration::from_nanos(0x5EED_0028); MAXA];
static mut WAIT_AFTER: [usize; MAXA] = [0x5EED_0000_0000_0029; MAXA];
static mut MAX_REM: usize = 0x5EED_0000_0000_002A;
static mut RETRY0: u32 = 0x5EED_002B;

fn reset_local() {
    unsafe {
        TX = core::ptr::null();
        POST = None;
        POST_CALLS = 0;
        POST_WAITS = 0;
        POST_RAN = [0; 6];
        POST_GUARDED = 0;
        CALLS = 0;
        ARG = [EMPTY; MAXA];
        OUT = [0; MAXA];
        REM = [EMPTY; MAXA];
        POLL_IDX = [0; MAXA];
        WAITS = 0;
        WAIT_D = [Duration::ZERO; MAXA];
        WAIT_AFTER = [0; MAXA];
    }
}

fn flush_not_run() -> bool {
    ran(2) == 0 && ran(3) == 0
}

fn on_batch(b: Q) -> Ready<Result<(), BatchError<Q>>> {
    unsafe {
        let i = CALLS;
        assert!(i < MAXA, "more processor calls than the retry budget allows");
        CALLS = i + 1;
        ARG[i] = b;
        POLL_IDX[i] = shim::PANIC_CALLS;
        // C07: the flush callbacks of the batch in flight are still held while an attempt is made
        assert!(flush_not_run(), "flush callbacks not run before the final attempt has finished");
        let s = v::snapshot(&*TX);
        assert!(s.is_in_batch && s.pending_len == 0, "processing happens outside the lock, after the swap");
        let o: u8 = kani::any();
        kani::assume(o < 3);
        OUT[i] = o;
        match o {
            0 => ready(Ok(())),
            1 => ready(Err(BatchError::no_retry(HErr))),
            _ => {
                let r = Q { items: kani::any(), len: kani::any() };
                kani::assume(r.len <= MAX_REM);
                REM[i] = r;
                ready(Err(BatchError::retry(HErr, r)))
            }
        }
    }
}

fn wait(d: Duration) -> Ready<()> {
    assert_unlocked();
    unsafe {
        let i = WAITS;
        assert!(i < MAXA, "more waits than the retry budget allows");
        WAITS = i + 1;
        WAIT_D[i] = d;
        WAIT_AFTER[i] = CALLS;
        if CALLS > 0 {
            assert!(flush_not_run(), "flush callbacks not run while a retry is outstanding");
        }
    }
    ready(())
}

/// Stand-in for the private `Capacity::next` (a 32-entry scan; the real one is decided for every state by
/// `c06_q_k_capacity`: no panic, any history). Its result is only a hint passed to `Channel::with_capacity`,
/// which `ArrQ` ignores, so a constant is equivalent here. (Not applied in the native replay, where the real
/// function runs; it draws no symbolic value, so the replayed inputs stay aligned.)
pub fn capacity_next_stub(_c: &mut emit_batcher::Capacity, _last_len: usize) -> usize {
    0
}

#[derive(Clone, Copy)]
struct Ctx {
    pre: Pre,
    idle0: Duration,
    k: u32,
    plan: u32,
    len_lo: usize,
    max_len: usize,
    panics: bool,
    twin: u8,
}

static mut CTX: Option<Ctx> = None;
static mut CHECKED: bool = true;

/// Called by the shim before every acquisition of the state lock, with the number of earlier acquisitions.
/// n == 0: the receiver's swap of iteration 1. n == 1: iteration 1 is over — either the loop came round to its
/// next swap, or `exec` returned and `Receiver::drop` closes the channel. The post-conditions of the iteration
/// are checked HERE. Then the run is cut: symbolically by `assume(false)` (everything behind the `Arc` is a byte
/// array for CBMC, so a second iteration never becomes concrete: measured > 11 GB); in the native replay build
/// (`cfg(test)`) the channel is closed and emptied instead, so that a replayed run terminates normally and only a
/// genuine assertion can panic.
fn hook(n: usize) {
    unsafe {
        if n != 1 {
            return;
        }
        let tx = &*TX;
        let s = v::snapshot(tx);
        POST = Some(s);
        POST_CALLS = CALLS;
        POST_WAITS = WAITS;
        POST_RAN = RAN;
        POST_GUARDED = shim::PANIC_CALLS;
        check_iteration(CTX.expect("context set"), s);
        CHECKED = true;
        if cfg!(test) {
            let old = v::set_state(
                tx,
                v::Init {
                    max_capacity: v::max_capacity(tx),
                    pending: EMPTY,
                    on_take: Vec::new(),
                    on_flush: Vec::new(),
                    is_open: false,
                    is_in_batch: s.is_in_batch,
                    truncated: s.truncated,
                },
            );
            core::mem::forget(old);
        } else {
            kani::assume(false);
        }
    }
}

fn bit(plan: u32, i: u32) -> bool {
    i < 32 && (plan >> i) & 1 == 1
}

fn ms(x: u64) -> Duration {
    Duration::from_millis(x)
}

/// Shape parameters are CONCRETE per harness (containers concrete in shape, symbolic in content): `nt`/`nf`
/// take-/flush-watchers, retry budget `k`, pending length in `len_lo..=max_len`. Symbolic: queue content and
/// length, flags, counters, processor outcomes and remainders, the panic plan.
/// twin 1: claims a retry re-delivers the ORIGINAL batch; twin 2: claims flush callbacks are never run.
fn exec_step(len_lo: usize, max_len: usize, nt: usize, nf: usize, k: u32, panics: bool, twin: u8) {
    reset_statics();
    reset_local();
    let cap: usize = kani::any();
    kani::assume(cap >= 1 && cap < QN && cap >= max_len);
    let q = Q { items: kani::any(), len: kani::any() };
    kani::assume(q.len >= len_lo && q.len <= max_len);
    let pre = Pre { cap, q, open: kani::any(), in_batch: kani::any(), n_take: nt, n_flush: nf, truncated: kani::any() };
    let (tx, mut rx) = build(&pre);
    // HISTORY: the receiver-local state is whatever earlier batches left behind — an arbitrary retry counter
    // (reachable values: 0..=budget+1), an arbitrary current retry back-off <= 10 s and idle back-off <= 500 ms
    // (whole milliseconds). Every NEW batch must nevertheless get the full budget and a restarted back-off.
    let retry0: u32 = kani::any();
    kani::assume(retry0 <= k + 1);
    let rd_s: u8 = kani::any();
    let rd_ms: u16 = kani::any();
    kani::assume(rd_ms < 1000 && (rd_s < 10 || (rd_s == 10 && rd_ms == 0)));
    let retry_delay0 = Duration::new(rd_s as u64, rd_ms as u32 * 1_000_000);
    let id_ms: u16 = kani::any();
    kani::assume(id_ms <= 500);
    let idle0 = Duration::new(0, id_ms as u32 * 1_000_000);
    v::set_receiver_history(&mut rx, retry0, k, retry_delay0, idle0);
    let plan: u32 = if panics { kani::any() } else { 0 };
    kani::assume(plan < 256);
    unsafe {
        MAX_REM = max_len;
        RETRY0 = retry0;
        TX = &tx;
        CTX = Some(Ctx { pre, idle0, k, plan, len_lo, max_len, panics, twin });
        CHECKED = false;
        shim::PANIC_PLAN = plan;
        shim::LOCK_HOOK = Some(hook);
    }

    rx.exec(wait, on_batch);

    // only reached in the native replay build (see `hook`)
    assert!(unsafe { CHECKED }, "the iteration was checked");
    core::mem::forget(tx);
}

fn check_iteration(ctx: Ctx, post: v::Snapshot) {
    let Ctx { pre, idle0, k, plan, len_lo, max_len, panics, twin } = ctx;
    let m = unsafe { POST_CALLS };
    let pr = unsafe { POST_RAN };
    // the swap: the pending batch is taken whole, an empty one without watchers is left behind
    assert!(post.pending_len == 0 && post.on_take == 0 && post.on_flush == 0, "pending batch empty after the swap");
    assert!(post.is_in_batch == (pre.q.len > 0), "in-batch flag set iff a non-empty batch was taken");
    assert!(post.is_open == pre.open && post.truncated == pre.truncated && post.blocked == 0);
    // take callbacks: the first guarded calls, one each
    let nt = pre.n_take as u32;
    let nf = pre.n_flush as u32;
    let mut j = 0u32;
    while j < 2 {
        let expect = if j < nt && !bit(plan, j) { 1 } else { 0 };
        assert!(pr[j as usize] == expect, "take callback invoked exactly once");
        j += 1;
    }
    let mut c = nt; // index of the next guarded call
    let mut waits = 0usize;
    let (mut processed, mut failed, mut panicked) = (0usize, 0usize, 0usize);
    if pre.q.len == 0 {
        assert!(m == 0, "the processor is not called for an empty hand-off");
        if pre.open {
            // idle back-off: next step from wherever it stood, non-decreasing, capped at 500 ms
            let next = idle0 + idle0 + ms(1);
            let expect = if next < ms(500) { next } else { ms(500) };
            assert!(unsafe { POST_WAITS } == 1 && unsafe { WAIT_D[0] } == expect, "idle: one wait of the next idle delay");
            assert!(expect >= idle0 && expect <= ms(500));
            waits = 1;
        } else {
            // C08: closed and drained => `exec` returns (this acquisition is Receiver::drop: no wait happened,
            // and the loop cannot come round without waiting)
            assert!(unsafe { WAITS } == 0, "closed and empty: exec returns in this iteration");
        }
    } else {
        let mut expect_arg = pre.q;
        let mut delay = 0u64;
        let mut done = false;
        let mut i = 0usize;
        while i < MAXA && !done {
            assert!(i as u32 <= k, "at most budget+1 attempts, counted from this batch's own first attempt");
            if bit(plan, c) {
                // on_batch itself panics: not run to completion (model: not run), batch given up
                assert!(m == i, "a panicking processor call ends the batch");
                c += 1;
                panicked += 1;
                done = true;
            } else {
                assert!(m > i, "the attempt is made");
                let arg = unsafe { ARG[i] };
                if twin == 1 && i == 1 {
                    assert!(same_items(&arg, &pre.q), "TWIN (false): a retry re-delivers the original batch");
                }
                assert!(same_items(&arg, &expect_arg), "processor receives the whole batch / exactly the returned remainder, in order");
                c += 1;
                assert!(unsafe { POLL_IDX[i] } == c);
                if bit(plan, c) {
                    // the processor's future panics when polled
                    c += 1;
                    panicked += 1;
                    done = true;
                } else {
                    c += 1;
                    let o = unsafe { OUT[i] };
                    if o == 0 {
                        processed += 1;
                        done = true;
                    } else {
                        failed += 1;
                        let rem = unsafe { REM[i] };
                        if o == 2 && rem.len > 0 && (i as u32) < k {
                            // a retryable failure with budget left (the budget of THIS batch: whatever earlier
                            // batches used does not count) is retried: one wait with the restarted back-off, then
                            // exactly the remainder
                            delay = if delay * 2 + 700 < 10_000 { delay * 2 + 700 } else { 10_000 };
                            assert!(unsafe { POST_WAITS } > waits, "a retryable failure within the batch's own budget is retried (after a wait)");
                            assert!(unsafe { WAIT_AFTER[waits] } == i + 1 && unsafe { WAIT_D[waits] } == ms(delay), "back-off restarts for every batch: 700 ms, 2.1 s, ...");
                            waits += 1;
                            expect_arg = rem;
                        } else {
                            done = true;
                        }
                    }
                }
            }
            i += 1;
        }
        assert!(done, "the batch reaches a final attempt");
        assert!(m <= i, "no attempt beyond the final one");
    }
    assert!(unsafe { POST_WAITS } == waits, "no other waits");
    // flush callbacks: the last guarded calls of the iteration, one each
    let mut j = 0u32;
    while j < 2 {
        let expect = if j < nf && !bit(plan, c + j) { 1 } else { 0 };
        if twin == 2 && j < nf {
            assert!(pr[2 + j as usize] == 0, "TWIN (false): flush callbacks are never run");
        }
        assert!(pr[2 + j as usize] == expect, "flush callback invoked exactly once after the final attempt");
        j += 1;
    }
    assert!(unsafe { POST_GUARDED } == c + nf, "no other guarded call");
    assert!(post.processed == processed && post.failed == failed && post.panicked == panicked && post.retried == waits - (if pre.q.len == 0 { waits } else { 0 }),
        "batch counters agree with the outcomes");

    // non-vacuity; a cover that does not apply to this harness' shape is trivially satisfied
    let ne = max_len > 0;
    let last = if m >= 1 { m - 1 } else { 0 };
    kani::cover!(!ne || (pre.q.len == max_len && m == 1 && processed == 1), "full batch processed at first attempt");
    kani::cover!(!ne || (m >= 1 && failed >= 1 && unsafe { OUT[0] } == 1), "permanent failure");
    kani::cover!(!ne || (m >= 1 && unsafe { OUT[0] } == 2 && unsafe { REM[0] }.len == 0), "empty remainder is not retried");
    kani::cover!(len_lo > 0 || (pre.q.len == 0 && pre.open && pr[2] as u32 == nf.min(1) && !bit(plan, c)), "empty hand-off, idle wait");
    kani::cover!(len_lo > 0 || (pre.q.len == 0 && !pre.open), "closed and empty: returns");
    kani::cover!(!(ne && k > 0) || (m == 2 && processed == 1), "retry then success");
    kani::cover!(!(ne && k > 0) || (m == 2 && unsafe { RETRY0 } == k + 1), "retry although an earlier batch exhausted its budget");
    kani::cover!(
        !(ne && k > 0) || (m as u32 == k + 1 && failed as u32 == k + 1 && unsafe { OUT[last] } == 2 && unsafe { REM[last] }.len > 0),
        "retry budget exhausted"
    );
    kani::cover!(!(ne && panics) || (m == 0 && panicked == 1), "processor call panics");
    kani::cover!(!(ne && panics) || (m == 1 && panicked == 1), "processor future panics");
    kani::cover!(!(ne && panics && nt >= 1) || (bit(plan, 0) && processed == 1), "take callback panics, batch still processed");
    kani::cover!(!(ne && panics && nf >= 1) || (pr[2] == 0 && processed == 1), "flush callback panics after a processed batch");
}

macro_rules! exec_harness {
    ($name:ident, $lo:expr, $hi:expr, $nt:expr, $nf:expr, $k:expr, $panics:expr, $twin:expr) => {
        #[kani::proof]
        #[kani::unwind(6)]
        #[kani::stub(emit_batcher::Capacity::next, capacity_next_stub)]
        pub fn $name() {
            exec_step($lo, $hi, $nt, $nf, $k, $panics, $twin);
        }
    };
}

// Measured (16-core box shared with other runs): one harness = 40 s symex + ~5 min SAT, 3.1 M variables, < 5 GB;
// the cost hardly depends on the branch taken (the state behind the Arc is a byte array for CBMC, so both
// branches of the swap are always explored), hence few, broad harnesses.
// quick 1: empty or non-empty hand-off (0..=2 items), one watcher of each kind, one retry allowed, every outcome
// sequence {Ok, Err no-retry, Err retry(any remainder <= 2 items)}
exec_harness!(c06c07c08_q_r_exec_iter, 0, 2, 1, 1, 1, false, 0);
// quick 2: panics anywhere (take callback, processor call, processor future, flush callback); no retry budget
exec_harness!(c06c07c08_q_r_exec_panics, 0, 2, 1, 1, 0, true, 0);
// thorough: budget 2; two watchers of each kind; 3 items; panics combined with a retry
exec_harness!(c06c07c08_t_r_exec_k2, 1, 2, 1, 1, 2, false, 0);
exec_harness!(c06c07c08_t_r_exec_w2, 0, 2, 2, 2, 1, false, 0);
exec_harness!(c06c07c08_t_r_exec_len3, 1, 3, 0, 1, 1, false, 0);
exec_harness!(c06c07c08_t_r_exec_panics_k1, 1, 2, 1, 1, 1, true, 0);
// mutant twins (must FAIL)
exec_harness!(c06_w_r_exec_retry_redelivers_original, 1, 2, 0, 0, 1, false, 1);
exec_harness!(c07c08_w_r_exec_flush_never_run, 0, 1, 0, 1, 0, false, 2);
