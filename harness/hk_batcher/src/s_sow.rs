//! S — `Sender::send_or_wait` (the loop behind blocking_send / tokio::send / web::send), one call from an ARBITRARY state.
//! Lives in its own module: it calls a PRIVATE function (made `pub` in the scratch tree by stubs/batcher.toml
//! `send-or-wait-pub`), so a change of that private signature must only take this family out (degraded build,
//! vlib/kanirun.py) and leave the public-API harnesses (`s_send`, `s_block`, ...) running.
use crate::util::*;
use core::time::Duration;

fn finish(tx: Sender<Q>, rx: Receiver<Q>) {
    core::mem::forget(tx);
    core::mem::forget(rx);
}

/// Post-condition of a successful enqueue: old content is a prefix, the item is the new tail.
fn appended(pre: &Q, post: &Q, x: u8) -> bool {
    pre.len < QN && post.len == pre.len + 1 && is_prefix(pre, post) && post.items[pre.len] == x
}

// ---------------------------------------------------------------------------------------------------------
// send_or_wait: the loop behind blocking_send / tokio::send / web::send. Environment of the harness:
//   elapsed()             -> arbitrary readings e0, e1, e2 (the third one >= timeout: at most 2 wait rounds)
//   wait_until_empty(..)  -> ready future; before returning, the shared state is replaced by ANOTHER arbitrary
//                            state satisfying I0 (any number of steps of other actors happened while waiting)

// odd non-zero initialisers on purpose (see util.rs); all are stored before use in `send_or_wait_step`
static mut ELAPSED: [u16; 3] = [0x5E01, 0x5E02, 0x5E03];
static mut ELAPSED_CALLS: usize = 0x5EED_0000_0000_0011;
static mut WAITS: usize = 0x5EED_0000_0000_0012;
static mut TIMEOUT_MS: u16 = 0x5E04;
static mut CAP: usize = 0x5EED_0000_0000_0013;
static mut CLOSED_SEEN: bool = true;
static mut LAST: Q = ArrQ { items: [0x5E; QN], len: 0x5EED_0000_0000_0014 };
static mut TRUNC: usize = 0x5EED_0000_0000_0015;

fn elapsed() -> Duration {
    unsafe {
        let i = ELAPSED_CALLS;
        ELAPSED_CALLS += 1;
        assert!(i < 3, "harness bound: the third clock reading is past the timeout");
        Duration::from_millis(ELAPSED[i] as u64)
    }
}

fn wait_until_empty<'a>(tx: &'a Sender<Q>, remaining: Duration) -> core::future::Ready<()> {
    unsafe {
        WAITS += 1;
        // C09 "hand it back when the timeout expires": never asks to wait beyond what is left of the timeout
        assert!(remaining <= Duration::from_millis(TIMEOUT_MS as u64), "waits at most the remaining time");
        assert!(remaining > Duration::ZERO, "does not wait once the timeout expired");
        let q = Q { items: kani::any(), len: kani::any() };
        kani::assume(q.len <= CAP);
        let open: bool = kani::any();
        if !open {
            CLOSED_SEEN = true;
        }
        LAST = q;
        TRUNC = kani::any();
        let old = v::set_state(
            tx,
            v::Init {
                max_capacity: CAP,
                pending: q,
                on_take: Vec::new(),
                on_flush: Vec::new(),
                is_open: open,
                is_in_batch: kani::any(),
                truncated: TRUNC,
            },
        );
        core::mem::forget(old);
    }
    core::future::ready(())
}

fn send_or_wait_step(max_cap: usize, max_w: usize, twin: u8) {
    reset_statics();
    let pre = any_pre(max_cap, max_w);
    let (tx, rx) = build(&pre);
    let x: u8 = kani::any();
    unsafe {
        ELAPSED = kani::any();
        ELAPSED_CALLS = 0;
        WAITS = 0;
        TIMEOUT_MS = kani::any();
        kani::assume(ELAPSED[2] >= TIMEOUT_MS);
        CAP = pre.cap;
        CLOSED_SEEN = !pre.open;
        LAST = pre.q;
        TRUNC = pre.truncated;
    }
    let timeout = Duration::from_millis(unsafe { TIMEOUT_MS } as u64);

    let r = shim::block_on(tx.send_or_wait(x, timeout, elapsed, wait_until_empty));

    let post = v::snapshot(&tx);
    let q = *v::pending(&tx);
    let (last, waits, closed_seen, trunc) = unsafe { (LAST, WAITS, CLOSED_SEEN, TRUNC) };
    assert!(post.pending_len <= pre.cap, "pending never exceeds the capacity");
    assert!(post.truncated == trunc, "send_or_wait never truncates");
    assert!(locks() <= 1 + waits, "at most one critical section per attempt");
    let ok = r.is_ok();
    match r {
        Ok(()) => {
            // enqueued exactly once, at the tail of whatever was pending at the successful attempt
            assert!(appended(&last, &q, x), "accepted item appended at the tail, prefix untouched");
        }
        Err(e) => {
            assert!(same_items(&last, &q), "rejected: queue unchanged");
            let back = e.into_retryable();
            if !closed_seen {
                if twin == 1 {
                    assert!(back.is_none(), "TWIN (false): timeout swallows the item");
                }
                assert!(back == Some(x), "timeout: the error carries THAT item");
            }
        }
    }
    // it blocks (counts as blocked) only if the first attempt was rejected
    assert!(post.blocked == if pre.open && !pre.full() { 0 } else { 1 });
    kani::cover!(ok && waits == 0, "accepted at once");
    kani::cover!(ok && waits == 1, "accepted after one wait");
    kani::cover!(ok && waits == 2, "accepted after two waits");
    kani::cover!(!ok && waits == 0 && !closed_seen, "timeout already expired, item handed back");
    kani::cover!(!ok && waits == 2 && !closed_seen, "still full after two waits, item handed back");
    kani::cover!(!ok && closed_seen, "closed while waiting");
    finish(tx, rx);
}

#[kani::proof]
#[kani::unwind(6)]
pub fn c06c09_q_s_send_or_wait() {
    send_or_wait_step(2, 0, 0);
}

#[kani::proof]
#[kani::unwind(6)]
pub fn c06c09_t_s_send_or_wait_cap3() {
    send_or_wait_step(3, 1, 0);
}

#[kani::proof]
#[kani::unwind(6)]
pub fn c09_w_s_send_or_wait_timeout_swallows() {
    send_or_wait_step(2, 0, 1);
}
