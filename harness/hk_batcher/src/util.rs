//! Shared helpers: the fixed-array queue, callback counters, symbolic pre-states.
pub use emit_batcher::verif as v;
pub use emit_batcher::verif_shim as shim;
pub use emit_batcher::{BatchError, Channel, Receiver, Sender};

/// Physical size of the array queue; logical capacities used by the harnesses are <= 3 < QN, so a push that
/// finds the array full is a capacity violation of the code under test (asserted in `push`).
pub const QN: usize = 4;

/// Fixed-array FIFO implementing the public `Channel` trait (instantiation named in the evidence).
#[derive(Clone, Copy, Debug, PartialEq, Eq)]
pub struct ArrQ<const N: usize> {
    pub items: [u8; N],
    pub len: usize,
}

impl<const N: usize> Channel for ArrQ<N> {
    type Item = u8;

    fn new() -> Self {
        ArrQ { items: [0; N], len: 0 }
    }

    fn push(&mut self, item: u8) {
        assert!(self.len < N, "ArrQ: push beyond the physical array (capacity bound violated)");
        self.items[self.len] = item;
        self.len += 1;
    }

    fn len(&self) -> usize {
        self.len
    }

    // `clear` keeps the stale bytes: content comparisons go through `len`
    fn clear(&mut self) {
        self.len = 0;
    }
}

pub type Q = ArrQ<QN>;

/// `a[..a.len] == b[..b.len]`
pub fn same_items(a: &Q, b: &Q) -> bool {
    if a.len != b.len {
        return false;
    }
    is_prefix(a, b)
}

/// `a[..a.len]` is a prefix of `b[..b.len]`
pub fn is_prefix(a: &Q, b: &Q) -> bool {
    if a.len > b.len || a.len > QN {
        return false;
    }
    let mut i = 0;
    while i < QN {
        if i < a.len && a.items[i] != b.items[i] {
            return false;
        }
        i += 1;
    }
    true
}

/// How often callback `i` ran. 0,1: take-watchers of the pre-state; 2,3: flush-watchers of the pre-state;
/// 4,5: callbacks handed to the operation under test.
/// (Initialisers of mutable statics are deliberately odd non-zero patterns: kani-compiler 0.68 aliases constant
/// allocations with statics of equal initial bytes, see stubs/batcher.toml. `reset_statics` stores the start values.)
pub static mut RAN: [u8; 6] = [0xA5, 0x5A, 0xA5, 0x5A, 0xA5, 0x17];

pub fn ran(i: usize) -> u8 {
    unsafe { RAN[i] }
}

/// `RAN == *a` without going through memcmp
pub fn ran_is(a: &[u8; 6]) -> bool {
    let mut i = 0;
    while i < 6 {
        if ran(i) != a[i] {
            return false;
        }
        i += 1;
    }
    true
}

/// Harness callbacks stand for USER code (flush / empty callbacks, processors, waits, samplers). The channel must
/// never run user code inside its critical section: an emitting thread would be made to wait for it (C09) and a
/// callback that re-enters the channel would deadlock (C08).
pub fn assert_unlocked() {
    assert!(shim::held() == 0, "user code is never run while the channel's state lock is held");
}

pub fn cb(i: usize) -> v::Callback {
    Box::new(move || {
        assert_unlocked();
        unsafe { RAN[i] += 1 }
    })
}

pub fn reset_statics() {
    unsafe {
        RAN = [0; 6];
    }
    shim::reset();
}

pub fn locks() -> usize {
    unsafe { shim::LOCKS }
}

/// take-watchers 0..n_take (counters 0,1), flush-watchers 0..n_flush (counters 2,3)
pub fn watchers(n_take: usize, n_flush: usize) -> (Vec<v::Callback>, Vec<v::Callback>) {
    let mut t = Vec::with_capacity(2);
    let mut f = Vec::with_capacity(2);
    if n_take >= 1 {
        t.push(cb(0));
    }
    if n_take >= 2 {
        t.push(cb(1));
    }
    if n_flush >= 1 {
        f.push(cb(2));
    }
    if n_flush >= 2 {
        f.push(cb(3));
    }
    (t, f)
}

/// An explicit channel state (the pre-state of a one-step harness).
#[derive(Clone, Copy)]
pub struct Pre {
    pub cap: usize,
    pub q: Q,
    pub open: bool,
    pub in_batch: bool,
    pub n_take: usize,
    pub n_flush: usize,
    pub truncated: usize,
}

impl Pre {
    pub fn full(&self) -> bool {
        self.q.len >= self.cap
    }
}

/// Arbitrary state satisfying I0: 1 <= cap <= max_cap (<= 3), pending <= cap, <= max_w watchers of each kind,
/// arbitrary flags, arbitrary truncation counter.
#[cfg(kani)]
pub fn any_pre(max_cap: usize, max_w: usize) -> Pre {
    let cap: usize = kani::any();
    kani::assume(cap >= 1 && cap <= max_cap && cap < QN);
    let q = Q { items: kani::any(), len: kani::any() };
    kani::assume(q.len <= cap);
    let n_take: usize = kani::any();
    let n_flush: usize = kani::any();
    kani::assume(n_take <= max_w && n_flush <= max_w && max_w <= 2);
    Pre { cap, q, open: kani::any(), in_batch: kani::any(), n_take, n_flush, truncated: kani::any() }
}

pub fn build(pre: &Pre) -> (Sender<Q>, Receiver<Q>) {
    let (on_take, on_flush) = watchers(pre.n_take, pre.n_flush);
    v::pair(v::Init {
        max_capacity: pre.cap,
        pending: pre.q,
        on_take,
        on_flush,
        is_open: pre.open,
        is_in_batch: pre.in_batch,
        truncated: pre.truncated,
    })
}

/// Everything a sender operation must leave alone unless its post-condition says otherwise.
pub fn frame_unchanged(pre: &Pre, post: &v::Snapshot) -> bool {
    post.is_open == pre.open
        && post.is_in_batch == pre.in_batch
        && post.processed == 0
        && post.failed == 0
        && post.panicked == 0
        && post.retried == 0
}

pub fn pre_watchers_untouched(pre: &Pre, post: &v::Snapshot) -> bool {
    post.on_take == pre.n_take && post.on_flush == pre.n_flush && ran(0) == 0 && ran(1) == 0 && ran(2) == 0 && ran(3) == 0
}

#[derive(Debug)]
pub struct HErr;
impl core::fmt::Display for HErr {
    fn fmt(&self, f: &mut core::fmt::Formatter) -> core::fmt::Result {
        f.write_str("harness error")
    }
}
impl std::error::Error for HErr {}
