//! S — the channel's own health metrics (`Sender::metric_source` / `Receiver::metric_source` -> `ChannelMetrics`,
//! which emit_file's and emit_otlp's `metric_source` delegate to), sampled from an ARBITRARY state.
//!
//! C09 ("the caller is never made to wait"): sampling hands every metric to a caller-supplied `Sampler`, i.e. to USER
//! code of unbounded duration that may itself emit into the same channel (self-reporting pipelines). The state lock
//! must therefore not be held while the sampler runs: a `send` on another thread would wait for the whole sampling
//! pass, and a sampler that emits into the channel would deadlock. Checked: the sampler is entered with the lock
//! free for every metric; the sampling pass acquires the lock at most once, reads and leaves the state unchanged;
//! `queue_length` is reported and equals the pending length.
use crate::util::*;
use emit::metric::{sampler::Sampler, Metric, Source};
use emit::Props;

static mut SAMPLED: u8 = 0xC3;
static mut QLEN_SEEN: u8 = 0xC5;
static mut QLEN_OK: u8 = 0xC7;
/// reading the sampled value back goes through value-bag's cast visitor (heavy): thorough tier only
static mut CHECK_VALUE: bool = false;
static mut CUT_AFTER: u8 = 0xC9;
static mut EXPECT_LEN: usize = 0x5EED_0000_0000_0011;

struct Rec;

impl Sampler for Rec {
    fn metric<P: Props>(&self, metric: Metric<P>) {
        assert_unlocked();
        unsafe {
            if CUT_AFTER != 0 && SAMPLED >= CUT_AFTER {
                // harness bound (quick tier): the sampling loop is explored for its first CUT_AFTER metrics only. Each
                // iteration moves a Metric out of an array iterator (byte-level copies of a large enum-ful struct):
                // all 7 iterations exhaust 20 GB in the SAT conversion (measured). The lock is taken and released
                // BEFORE the loop, so what the sampler observes does not depend on the iteration.
                kani::cover!(true, "sampler entered with the lock free for the first metrics");
                kani::assume(false);
            }
            SAMPLED += 1;
            // "queue_length" is the only one of the seven names with 12 bytes (no memcmp loop: the unwind bound
            // would otherwise be dictated by the name and inflate every other loop)
            let name = metric.name().get().as_bytes();
            if name.len() == 12 && name[6] == b'l' {
                QLEN_SEEN += 1;
                if CHECK_VALUE {
                    if metric.value().by_ref().cast::<usize>() == Some(EXPECT_LEN) {
                        QLEN_OK += 1;
                    }
                } else {
                    QLEN_OK += 1;
                }
            }
        }
    }
}

fn metrics_step(via_receiver: bool, check_value: bool, cut_after: u8) {
    reset_statics();
    unsafe {
        CHECK_VALUE = check_value;
        CUT_AFTER = cut_after;
        SAMPLED = 0;
        QLEN_SEEN = 0;
        QLEN_OK = 0;
    }
    // no parked watchers: the sampling pass never touches them (frame condition below) and their Vec<Box<dyn FnOnce>>
    // drop loops, unwound to the bound the 7-metric loop needs, exhaust memory
    let pre = any_pre(3, 0);
    unsafe {
        EXPECT_LEN = pre.q.len;
    }
    let (tx, rx) = build(&pre);

    if via_receiver {
        rx.metric_source().sample_metrics(Rec);
    } else {
        tx.metric_source().sample_metrics(Rec);
    }

    assert!(shim::held() == 0, "no guard outlives the sampling pass");
    assert!(locks() <= 1, "sampling takes the state lock at most once");
    let post = v::snapshot(&tx);
    let q = *v::pending(&tx);
    assert!(same_items(&pre.q, &q), "sampling leaves the queue alone");
    assert!(frame_unchanged(&pre, &post) && pre_watchers_untouched(&pre, &post) && post.truncated == pre.truncated);
    assert!(unsafe { SAMPLED } == 7, "six counters and the queue length are reported");
    assert!(unsafe { QLEN_SEEN } == 1 && unsafe { QLEN_OK } == 1, "queue_length is the pending length");
    kani::cover!(pre.q.len == 3 && pre.in_batch, "opt: whole pass explored (only without the cut): full queue, batch in flight");
    core::mem::forget(tx);
    core::mem::forget(rx);
}

#[kani::proof]
#[kani::unwind(6)]
pub fn c09_q_s_metrics_sampler_runs_unlocked() {
    metrics_step(false, false, 2);
}

#[kani::proof]
#[kani::unwind(6)]
pub fn c09_t_s_metrics_sampler_runs_unlocked_rx() {
    metrics_step(true, false, 2);
}

#[kani::proof]
#[kani::unwind(6)]
pub fn c09_x_s_metrics_queue_length_value() {
    metrics_step(false, true, 0);
}
