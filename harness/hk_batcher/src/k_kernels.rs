//! K — kernels of the receiver side that fit CBMC: `Watchers`, `Batch::new`, `Retry`, `Delay`, `Capacity`,
//! `CatchUnwind::poll`, `Sender::drop` / `Receiver::drop`.
use crate::util::*;
use core::future::Future;
use core::pin::Pin;
use core::task::{Context, Poll, Waker};
use core::time::Duration;

// ---- Watchers -------------------------------------------------------------------------------------------
// C08: every registered callback is invoked exactly once; a panicking callback does not stop the others.
// C07: flush callbacks are only run by notify_on_flush (never by notify_on_take) — they stay with their batch.
// Panic model (stubs/batcher.toml catch-unwind): bit i of the plan set = the i-th guarded call panics = its
// closure does not run to its counter bump.

fn bit(plan: u32, i: usize) -> bool {
    (plan >> i) & 1 == 1
}

/// Shape (watcher counts, which pushes happen) is CONCRETE per harness — a symbolic shape costs 35 M SAT variables
/// here (measured) — the panic plan is symbolic.
fn watchers_step(n_take: usize, n_flush: usize, push_take: bool, push_flush: bool, twin: u8) {
    reset_statics();
    let max_w = if n_take > n_flush { n_take } else { n_flush };
    let (t, f) = watchers(n_take, n_flush);
    let mut w = v::VWatchers::from_parts(t, f);
    // one more of each kind through the real push functions (counters 4 and 5)
    if push_take {
        w.push_on_take(cb(4));
        assert!(w.counts() == (n_take + 1, n_flush), "push_on_take adds one take watcher only");
    }
    if push_flush {
        w.push_on_flush(cb(5));
    }
    let nt = n_take + push_take as usize;
    let nf = n_flush + push_flush as usize;
    assert!(w.counts() == (nt, nf), "pushes register exactly once");
    assert!(ran_is(&[0; 6]), "registration runs nothing");

    let plan: u32 = kani::any();
    kani::assume(plan < 64);
    unsafe { shim::PANIC_PLAN = plan };

    w.notify_on_take();
    // invocation order = registration order: pre-state watchers 0,1 then the pushed one
    let take_ids = [0usize, 1, 4];
    let mut k = 0; // position in invocation order
    let mut i = 0;
    while i < 3 {
        let id = take_ids[i];
        let present = if id == 4 { push_take } else { id < n_take };
        if present {
            let expect = if bit(plan, k) { 0 } else { 1 };
            if twin == 1 && k >= 1 && bit(plan, 0) {
                assert!(ran(id) == 0, "TWIN (false): a panicking callback stops the ones after it");
            }
            assert!(ran(id) == expect, "take callback invoked exactly once (a panicking one does not stop the rest)");
            k += 1;
        } else {
            assert!(ran(id) == 0);
        }
        i += 1;
    }
    assert!(unsafe { shim::PANIC_CALLS } as usize == nt, "one guarded invocation per take watcher");
    if twin == 2 {
        assert!(ran(2) == 1, "TWIN (false): notify_on_take also reports the flush");
    }
    assert!(ran(2) == 0 && ran(3) == 0 && ran(5) == 0, "flush callbacks are not run by notify_on_take");
    assert!(w.counts() == (0, nf), "take watchers drained, flush watchers kept");

    w.notify_on_flush();
    let flush_ids = [2usize, 3, 5];
    let mut i = 0;
    while i < 3 {
        let id = flush_ids[i];
        let present = if id == 5 { push_flush } else { id - 2 < n_flush };
        if present {
            let expect = if bit(plan, k) { 0 } else { 1 };
            assert!(ran(id) == expect, "flush callback invoked exactly once (a panicking one does not stop the rest)");
            k += 1;
        } else {
            assert!(ran(id) == 0);
        }
        i += 1;
    }
    assert!(unsafe { shim::PANIC_CALLS } as usize == nt + nf, "one guarded invocation per watcher");
    assert!(w.counts() == (0, 0), "all drained");

    // notifying again invokes nothing a second time
    let before = unsafe { RAN };
    w.notify_on_take();
    w.notify_on_flush();
    assert!(ran_is(&before), "no callback is invoked twice");
    assert!(unsafe { shim::PANIC_CALLS } as usize == nt + nf);

    kani::cover!(nt < 2 || (bit(plan, 0) && !bit(plan, 1)), "first take callback panics, next one runs");
    kani::cover!(nf < 2 || (bit(plan, nt) && !bit(plan, nt + 1)), "first flush callback panics, next one runs");
    kani::cover!(nt + nf == 0 || plan & ((1 << (nt + nf)) - 1) == 0, "no panic");
    kani::cover!(nt + nf == 0 || plan & ((1 << (nt + nf)) - 1) == (1 << (nt + nf)) - 1, "every callback panics");
    core::mem::forget(w);
}

#[kani::proof]
#[kani::unwind(8)]
pub fn c07c08_q_k_watchers() {
    // one registered + one pushed of each kind
    watchers_step(1, 1, true, true, 0);
}

#[kani::proof]
#[kani::unwind(8)]
pub fn c07c08_t_k_watchers_w2() {
    // two registered + one pushed of each kind (the push re-allocates)
    watchers_step(2, 2, true, true, 0);
}

#[kani::proof]
#[kani::unwind(8)]
pub fn c07c08_t_k_watchers_none() {
    watchers_step(0, 0, false, false, 0);
}

#[kani::proof]
#[kani::unwind(8)]
pub fn c07c08_t_k_watchers_mixed() {
    watchers_step(2, 0, false, true, 0);
}

#[kani::proof]
#[kani::unwind(8)]
pub fn c08_w_k_watchers_panic_stops_rest() {
    watchers_step(1, 1, true, true, 1);
}

#[kani::proof]
#[kani::unwind(8)]
pub fn c07_w_k_watchers_take_reports_flush() {
    watchers_step(1, 1, false, false, 2);
}

// ---- Batch::new -----------------------------------------------------------------------------------------
// C06/C07: the replacement batch the receiver swaps in holds no items and no watchers.

#[kani::proof]
#[kani::unwind(6)]
pub fn c06c07_q_k_batch_new() {
    let (q, t, f) = v::batch_new::<Q>();
    assert!(q.len == 0 && Channel::is_empty(&q) && t == 0 && f == 0, "Batch::new is empty");
    let (q, t, f) = v::batch_default::<Q>();
    assert!(q.len == 0 && t == 0 && f == 0, "Batch::default (left behind by mem::take) is empty");
    let (tx, rx) = emit_batcher::bounded::<Q>(kani::any());
    let s = v::snapshot(&tx);
    assert!(s.pending_len == 0 && s.is_open && !s.is_in_batch && s.on_take == 0 && s.on_flush == 0);
    assert!(s.truncated == 0 && s.blocked == 0 && s.processed == 0 && s.failed == 0 && s.panicked == 0 && s.retried == 0);
    kani::cover!(true, "reached");
    core::mem::forget(tx);
    core::mem::forget(rx);
}

// ---- Retry ----------------------------------------------------------------------------------------------
// C08: after reset, `next` is true at most `max` times: a batch is attempted at most max+1 times.

fn retry_step(twin: u8) {
    let (cur, max): (u32, u32) = (kani::any(), kani::any());
    let mut r = v::VRetry::from_parts(cur, max);
    r.reset();
    assert!(r.parts() == (0, max));
    let mut trues = 0u32;
    let mut seen_false = false;
    let mut i = 0u32;
    while i < 5 {
        let b = r.next();
        if b {
            assert!(!seen_false, "once exhausted the budget stays exhausted");
            trues += 1;
        } else {
            seen_false = true;
        }
        i += 1;
    }
    if twin == 1 {
        assert!(trues == 5, "TWIN (false): retries are unlimited");
    }
    assert!(trues == if max < 5 { max } else { 5 }, "true exactly min(calls, max) times");
    // the budget `bounded` configures
    let r = v::VRetry::new(10);
    assert!(r.parts() == (0, 10));
    kani::cover!(max == 0, "no retry budget");
    kani::cover!(max == 2 && trues == 2, "budget 2 exhausted");
    kani::cover!(trues == 5, "budget not exhausted in 5 calls");
}

#[kani::proof]
#[kani::unwind(7)]
pub fn c08_q_k_retry() {
    retry_step(0);
}

#[kani::proof]
#[kani::unwind(7)]
pub fn c08_w_k_retry_unlimited() {
    retry_step(1);
}

// ---- Delay ----------------------------------------------------------------------------------------------
// C08: back-off is non-decreasing and bounded by `max`.
// Bound: whole-millisecond durations below 256 s — `bounded` uses 1 ms/500 ms and 700 ms/10 s. (Full-range
// `Duration` arithmetic is 64-bit multiply/divide by 10^9: CBMC did not finish u32 milliseconds in 12 min.)

fn ms(x: u32) -> Duration {
    Duration::from_millis(x as u64)
}

/// symbolic whole-millisecond duration < 256 s, built without division
fn any_ms_duration() -> Duration {
    let s: u8 = kani::any();
    let m: u16 = kani::any();
    kani::assume(m < 1000);
    Duration::new(s as u64, m as u32 * 1_000_000)
}

fn delay_step(twin: u8) {
    let (cur, step, max) = (any_ms_duration(), any_ms_duration(), any_ms_duration());
    // representation invariant of Delay between calls: current <= max
    kani::assume(cur <= max);
    let mut d = v::VDelay::from_parts(cur, step, max);
    let n = d.next();
    if twin == 1 {
        assert!(n > cur, "TWIN (false): back-off grows strictly for ever");
    }
    assert!(n >= cur, "back-off never decreases");
    assert!(n <= max, "back-off is bounded by max");
    assert!(d.parts() == (n, step, max), "the returned delay is the new current; step and max untouched");
    let exact = cur + cur + step;
    assert!(n == if exact < max { exact } else { max }, "min(2*current+step, max)");
    d.reset();
    assert!(d.parts() == (Duration::ZERO, step, max), "reset restarts the back-off");
    kani::cover!(n == max && cur < max, "reaches the cap");
    kani::cover!(n < max && cur > Duration::ZERO, "below the cap");
    kani::cover!(cur == max && max > Duration::ZERO, "stays at the cap");
}

#[kani::proof]
#[kani::unwind(4)]
pub fn c08_q_k_delay_step() {
    delay_step(0);
}

#[kani::proof]
#[kani::unwind(4)]
pub fn c08_w_k_delay_strict() {
    delay_step(1);
}

/// The two delays `bounded` configures, 14 steps each: non-decreasing, capped at 500 ms / 10 s.
#[kani::proof]
#[kani::unwind(16)]
pub fn c08_q_k_delay_configured() {
    let (tx, rx) = emit_batcher::bounded::<Q>(1);
    let (mut idle, mut retry) = v::receiver_delays(&rx);
    assert!(idle.parts() == (Duration::ZERO, ms(1), ms(500)));
    assert!(retry.parts() == (Duration::ZERO, ms(700), ms(10_000)));
    let (mut pi, mut pr) = (Duration::ZERO, Duration::ZERO);
    let mut total = Duration::ZERO;
    let mut i = 0;
    while i < 14 {
        let (a, b) = (idle.next(), retry.next());
        assert!(a >= pi && a <= ms(500), "idle delay non-decreasing, <= 500 ms");
        assert!(b >= pr && b <= ms(10_000), "retry delay non-decreasing, <= 10 s");
        if i < 10 {
            total += b;
        }
        pi = a;
        pr = b;
        i += 1;
    }
    assert!(pi == ms(500) && pr == ms(10_000), "both reach their cap");
    // ten retries (the configured budget) wait 77.7 s in total at most
    assert!(total == ms(700 + 2100 + 4900 + 10_000 * 7));
    kani::cover!(true, "reached");
    core::mem::forget(tx);
    core::mem::forget(rx);
}

// ---- Capacity -------------------------------------------------------------------------------------------
// C06 (buffer re-allocation step): the hint for the replacement buffer is computed without panicking for any
// history and is at least the length of the batch just taken (+1 unless saturated).

fn capacity_step(twin: u8) {
    let vals: [usize; v::CAPACITY_WINDOW] = kani::any();
    let idx: usize = kani::any();
    let mut c = v::VCapacity::from_parts(vals, idx);
    let last: usize = kani::any();
    let hint = c.next(last);
    if twin == 1 {
        assert!(last == usize::MAX || hint == last + 1, "TWIN (false): the hint only depends on the last batch");
    }
    assert!(hint >= last, "hint covers the last batch");
    assert!(hint > last || last == usize::MAX, "with head-room unless saturated");
    let (after, idx2) = c.parts();
    assert!(idx2 == idx.wrapping_add(1));
    assert!(after[idx % v::CAPACITY_WINDOW] == last, "the window records the last length");
    let mut c0 = v::VCapacity::new();
    assert!(c0.next(10) == 11 && c0.next(5) == 11 && c0.next(100) == 110);
    kani::cover!(idx == usize::MAX, "index wraps");
    kani::cover!(last == usize::MAX, "saturating");
    kani::cover!(last < 1000 && hint > last + 1, "an older, larger batch dominates");
}

#[kani::proof]
#[kani::unwind(34)]
pub fn c06_q_k_capacity() {
    capacity_step(0);
}

#[kani::proof]
#[kani::unwind(34)]
pub fn c06_w_k_capacity_last_only() {
    capacity_step(1);
}

// ---- CatchUnwind ----------------------------------------------------------------------------------------
// C08: a panic inside the processor's future is turned into Err by the adapter `exec` wraps it in.

struct Twice(u8);
impl Future for Twice {
    type Output = u8;
    fn poll(mut self: Pin<&mut Self>, _: &mut Context<'_>) -> Poll<u8> {
        if self.0 == 0 {
            self.0 = 1;
            Poll::Pending
        } else {
            Poll::Ready(7)
        }
    }
}

#[kani::proof]
#[kani::unwind(4)]
pub fn c08_q_k_catch_unwind_poll() {
    reset_statics();
    let plan: u32 = kani::any();
    kani::assume(plan < 4);
    unsafe { shim::PANIC_PLAN = plan };
    let mut cx = Context::from_waker(Waker::noop());
    let mut f = core::pin::pin!(v::catch_unwind_future(Twice(0)));
    let p1 = f.as_mut().poll(&mut cx);
    match p1 {
        Poll::Pending => {
            assert!(!bit(plan, 0), "pending only if the inner poll did not panic");
            match f.as_mut().poll(&mut cx) {
                Poll::Ready(Ok(x)) => assert!(!bit(plan, 1) && x == 7, "inner result passed through"),
                Poll::Ready(Err(e)) => {
                    assert!(bit(plan, 1), "Err only if the inner poll panicked");
                    core::mem::forget(e);
                }
                Poll::Pending => assert!(false, "second poll of the inner future is ready"),
            }
        }
        Poll::Ready(Ok(_)) => assert!(false, "first poll of the inner future is pending"),
        Poll::Ready(Err(e)) => {
            assert!(bit(plan, 0), "Err only if the inner poll panicked");
            core::mem::forget(e);
        }
    }
    kani::cover!(plan == 0, "no panic");
    kani::cover!(plan == 1, "panic at first poll");
    kani::cover!(plan == 2, "panic at second poll");
}

// ---- drop of the halves ---------------------------------------------------------------------------------
// C08: dropping either half closes the channel (one flag, one critical section), nothing else changes.

fn drop_step(drop_sender: bool, twin: u8) {
    reset_statics();
    let pre = any_pre(3, 1);
    let (tx, rx) = build(&pre);
    if drop_sender {
        drop(tx);
        let post = v::snapshot_rx(&rx);
        check_drop(&pre, &post, twin);
        core::mem::forget(rx);
    } else {
        drop(rx);
        let post = v::snapshot(&tx);
        check_drop(&pre, &post, twin);
        core::mem::forget(tx);
    }
    kani::cover!(pre.open && pre.q.len == 2, "closing with items pending");
    kani::cover!(!pre.open, "already closed");
}

fn check_drop(pre: &Pre, post: &v::Snapshot, twin: u8) {
    assert!(locks() == 1, "drop is one critical section");
    if twin == 1 {
        assert!(post.is_open == pre.open, "TWIN (false): dropping a half leaves the channel open");
    }
    assert!(!post.is_open, "dropping a half closes the channel");
    assert!(post.pending_len == pre.q.len && post.is_in_batch == pre.in_batch, "queue and in-batch flag untouched");
    assert!(pre_watchers_untouched(pre, post) && post.truncated == pre.truncated);
}

#[kani::proof]
#[kani::unwind(6)]
pub fn c08_q_k_drop_sender() {
    drop_step(true, 0);
}

#[kani::proof]
#[kani::unwind(6)]
pub fn c08_q_k_drop_receiver() {
    drop_step(false, 0);
}

#[kani::proof]
#[kani::unwind(6)]
pub fn c08_w_k_drop_keeps_open() {
    drop_step(true, 1);
}
