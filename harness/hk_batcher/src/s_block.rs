//! S — the blocking wrappers of batcher/src/sync.rs: `blocking_flush`, `blocking_send` and their `Trigger`, executed for
//! real on top of the stand-ins of stubs/batcher.toml `sync-*` (condition variable = environment hook, Instant =
//! harness clock). One call from an ARBITRARY state; while the caller is parked the environment lets time pass and may
//! complete the batch that carries the parked callbacks. Clock readings and timeouts are whole seconds (T_MS, ADV and
//! CLOCK_MS hold seconds: the names are historical).
//!
//! C07: `blocking_flush` returns true ONLY IF its flush callback has fired (at once when nothing is pending and no
//!      batch is in flight, otherwise when the batch it was parked on finished) and it does return true then.
//! C08: it returns false only on expiry (timeout zero, a timed-out wait, or the clock past the timeout); it never parks
//!      for longer than what is left of the timeout; it parks without holding the channel's state lock; at most one
//!      critical section on the channel. Same for `blocking_send`, which in addition (C09) never discards: the item is
//!      enqueued exactly once or handed back.
use crate::util::*;
use core::time::Duration;
use emit_batcher::sync::{blocking_flush, blocking_send};
use shim::sync_env as env;

const MAXW: usize = 2;

// odd non-zero initialisers on purpose (see util.rs); all stored before use
static mut TXP: *const Sender<Q> = 0x5EED_0000_0000_0031 as *const Sender<Q>;
static mut ADV: [u16; MAXW] = [0x5E11, 0x5E13];
static mut FIRE: [bool; MAXW] = [true, true];
static mut TO: [bool; MAXW] = [true, true];
static mut REFILL: [Q; MAXW] = [ArrQ { items: [0x5E; QN], len: 0x5EED_0000_0000_0033 }; MAXW];
static mut REOPEN: [bool; MAXW] = [true, true];
static mut CALLS: usize = 0x5EED_0000_0000_0035;
/// wake-ups explored in this harness (<= MAXW); the run is cut at the next one
static mut WAKES: usize = 0x5EED_0000_0000_003D;
static mut T_MS: u16 = 0x5E15;
static mut START: u64 = 0x5EED_0000_0000_0037;
static mut FIRED: bool = true;
static mut TIMED_OUT_SEEN: bool = true;
static mut CAP: usize = 0x5EED_0000_0000_0039;
static mut CLOSED_SEEN: bool = true;
static mut LAST: Q = ArrQ { items: [0x5E; QN], len: 0x5EED_0000_0000_003B };

/// The batch carrying the parked callbacks finishes: the receiver hands the pending batch off and later fires its
/// watchers (decided for the real receiver by the `_r_` harnesses); the state left behind is `refill`.
fn complete_pending_batch(refill: Q, open: bool) {
    unsafe {
        let tx = &*TXP;
        let snap = v::snapshot(tx);
        let (q, on_take, on_flush) = v::set_state(
            tx,
            v::Init {
                max_capacity: CAP,
                pending: refill,
                on_take: Vec::new(),
                on_flush: Vec::new(),
                is_open: open,
                is_in_batch: false,
                truncated: snap.truncated,
            },
        );
        // the receiver's notify loops (each callback exactly once, panics contained) are decided by `_k_watchers` and
        // `_r_`; here the (at most one) parked callback of each kind is simply run
        let (mut on_take, mut on_flush) = (on_take, on_flush);
        if let Some(cb) = on_take.pop() {
            cb();
        }
        if let Some(cb) = on_flush.pop() {
            cb();
        }
        assert!(on_take.is_empty() && on_flush.is_empty(), "harness bound: at most one parked callback of each kind");
        core::mem::forget(on_take);
        core::mem::forget(on_flush);
        FIRED = true;
        LAST = refill;
        if !open {
            CLOSED_SEEN = true;
        }
    }
}

/// Environment step while the caller is parked in `Condvar::wait_timeout(_, dur)`; returns "timed out".
fn cv_hook(dur: Duration) -> bool {
    unsafe {
        let i = CALLS;
        // C09, at every point where the caller parks: the pending queue is within the capacity
        assert!(v::snapshot(&*TXP).pending_len <= CAP, "pending never exceeds the capacity (checked whenever a sender parks)");
        if i >= WAKES {
            // bound of the harness: at most WAKES (<= MAXW) wake-ups (spurious ones included)
            kani::cover!(i == 1, "opt: woken, found the queue refilled by another sender, parks again");
            #[cfg(kani)]
            kani::assume(false);
            panic!("harness bound: more wake-ups than the harness explores");
        }
        CALLS = i + 1;
        assert_unlocked();
        let elapsed = env::CLOCK_MS - START;
        assert!(dur > Duration::ZERO, "does not park once the timeout expired");
        // (compared as Durations: `as_millis` is a 128-bit multiplication, which the SAT back end does not get through)
        assert!(
            dur <= Duration::from_secs((T_MS as u64).saturating_sub(elapsed)),
            "never parks for longer than what is left of the timeout"
        );
        env::CLOCK_MS += ADV[i] as u64;
        if FIRE[i] {
            complete_pending_batch(REFILL[i], REOPEN[i]);
        }
        if TO[i] {
            TIMED_OUT_SEEN = true;
        }
        TO[i]
    }
}

fn setup(pre: &Pre, tx: &Sender<Q>, refill_max: usize) {
    unsafe {
        TXP = tx as *const Sender<Q>;
        ADV = kani::any();
        FIRE = kani::any();
        TO = kani::any();
        let mut i = 0;
        while i < MAXW {
            let q = Q { items: kani::any(), len: kani::any() };
            kani::assume(q.len <= refill_max && q.len <= pre.cap);
            REFILL[i] = q;
            i += 1;
        }
        REOPEN = kani::any();
        CALLS = 0;
        WAKES = MAXW;
        T_MS = kani::any();
        START = kani::any::<u16>() as u64;
        FIRED = false;
        TIMED_OUT_SEEN = false;
        CAP = pre.cap;
        CLOSED_SEEN = !pre.open;
        LAST = pre.q;
        env::reset(START);
        env::CV_HOOK = Some(cv_hook);
    }
}

/// std's contract for `Condvar::wait_timeout`: a wait that reports "timed out" lasted at least the requested duration.
/// (Placed before the call: the hook only reads the arrays.)  dur_i = T - (ADV[0] + .. + ADV[i-1]) while positive.
fn assume_condvar_contract() {
    unsafe {
        let t = T_MS as u64;
        let a0 = ADV[0] as u64;
        let a1 = ADV[1] as u64;
        kani::assume(!TO[0] || a0 >= t);
        kani::assume(!TO[1] || a0 + a1 >= t);
    }
}

/// Pre-state SHAPES are concrete per harness (which branch `when_flushed` takes and the lengths of the watcher vectors
/// are then concrete for CBMC; with symbolic flags the merged `Vec<Box<dyn FnOnce>>` states exhaust memory), their
/// CONTENT is symbolic:  0 = idle and empty (nothing to flush);  1 = batch in flight (queue length, open flag arbitrary);
/// 2 = idle, open, one item pending;  3 = closed with an item pending (receiver gone).
/// `fire_at`: the wake-up (1 or 2) during which the batch carrying the callback finishes; 0 = it never does.
fn flush_pre(shape: u8) -> Pre {
    let cap: usize = kani::any();
    kani::assume(cap >= 1 && cap <= 2);
    let mut q = Q { items: kani::any(), len: 0 };
    let (open, in_batch) = match shape {
        0 => (true, false),
        1 => {
            q.len = kani::any();
            kani::assume(q.len <= cap);
            (kani::any(), true)
        }
        2 => {
            q.len = 1;
            (true, false)
        }
        _ => {
            q.len = 1;
            (false, false)
        }
    };
    Pre { cap, q, open, in_batch, n_take: 0, n_flush: 0, truncated: kani::any() }
}

fn blocking_flush_step(shape: u8, fire_at: usize, twin: u8) {
    reset_statics();
    let pre = flush_pre(shape);
    let (tx, rx) = build(&pre);
    setup(&pre, &tx, 0);
    unsafe {
        FIRE = [fire_at == 1, fire_at == 2];
    }
    assume_condvar_contract();
    let t = unsafe { T_MS };

    let r = blocking_flush(&tx, Duration::from_secs(t as u64));

    let (calls, fired, timed_out) = unsafe { (CALLS, FIRED, TIMED_OUT_SEEN) };
    let now = unsafe { env::CLOCK_MS - START };
    let immediate = !pre.in_batch && (pre.q.len == 0 || !pre.open);
    if twin == 1 {
        assert!(r, "TWIN (false): a blocking flush always reports success");
    }
    // C07
    assert!(!r || immediate || fired, "true only if the flush callback has fired");
    if immediate {
        assert!(r && calls == 0, "nothing to flush: true at once, without parking");
    }
    if fired {
        assert!(r, "the batch the callback was parked on finished before the call returned: true");
    }
    // C08
    if !r {
        assert!(t == 0 || timed_out || now >= t as u64, "false only on expiry");
    }
    assert!(locks() == 1, "one critical section on the channel (the registration)");
    assert!(shim::held() == 0);
    kani::cover!(shape != 0 && shape != 3 || (r && calls == 0), "nothing to flush");
    kani::cover!(fire_at != 1 || (r && calls == 1), "the batch finishes during the first wait");
    kani::cover!(fire_at != 2 || (r && calls == 2), "spurious wake-up, then the batch finishes");
    kani::cover!(immediate || fire_at != 0 || (!r && calls == 0), "zero timeout with work pending");
    kani::cover!(immediate || fire_at == 1 || (!r && calls == 1), "first wait times out");
    kani::cover!(immediate || fire_at != 0 || (!r && calls == 2 && unsafe { !TO[0] }), "woken early, then times out");
    core::mem::forget(tx);
    core::mem::forget(rx);
}

macro_rules! flush_harness {
    ($name:ident, $shape:expr, $fire:expr, $twin:expr) => {
        #[kani::proof]
        #[kani::unwind(4)]
        pub fn $name() {
            blocking_flush_step($shape, $fire, $twin);
        }
    };
}

flush_harness!(c07c08_q_s_blocking_flush_idle, 0, 0, 0);
flush_harness!(c07c08_q_s_blocking_flush_in_flight_done_1st_wait, 1, 1, 0);
flush_harness!(c07c08_q_s_blocking_flush_in_flight_never_done, 1, 0, 0);
flush_harness!(c07c08_t_s_blocking_flush_in_flight_done_2nd_wait, 1, 2, 0);
flush_harness!(c07c08_t_s_blocking_flush_pending_done_1st_wait, 2, 1, 0);
flush_harness!(c07c08_t_s_blocking_flush_pending_never_done, 2, 0, 0);
flush_harness!(c07c08_t_s_blocking_flush_closed, 3, 0, 0);
flush_harness!(c07_w_s_blocking_flush_always_true, 1, 0, 1);

/// Scenarios (shapes concrete, contents symbolic; capacity 1, so "full" = one item pending):
///  0: room at once;  1: full, the receiver takes the batch during the first wait (queue left empty);
///  2: full, the batch is never taken;  3: full, taken during the first wait but ANOTHER sender refilled the queue
///     before this one ran again (the run is cut where it parks for the second time).
fn blocking_send_step(scn: u8, twin: u8) {
    reset_statics();
    let full = scn != 0;
    let mut q = Q { items: kani::any(), len: 0 };
    if full {
        q.len = 1;
    }
    let pre = Pre { cap: 1, q, open: true, in_batch: kani::any(), n_take: 0, n_flush: 0, truncated: kani::any() };
    let (tx, rx) = build(&pre);
    setup(&pre, &tx, 0);
    unsafe {
        FIRE = [scn == 1 || scn == 3, false];
        REOPEN = [true, true];
        REFILL[0].len = if scn == 3 { 1 } else { 0 };
        REFILL[1].len = 0;
        if scn == 3 {
            // the second round (park again, be woken again) costs 700 k symex steps / > 12 GB: cut at the second park;
            // what matters - the retry after the wake-up respects a queue somebody else refilled - happens before
            WAKES = 1;
        }
    }
    assume_condvar_contract();
    let t = unsafe { T_MS };
    let x: u8 = kani::any();

    let r = blocking_send(&tx, x, Duration::from_secs(t as u64));

    let post = v::snapshot(&tx);
    let q = *v::pending(&tx);
    let (calls, last, closed_seen) = unsafe { (CALLS, LAST, CLOSED_SEEN) };
    let ok = r.is_ok();
    // C09
    assert!(post.pending_len <= pre.cap, "pending never exceeds the capacity");
    match r {
        Ok(()) => {
            // (capacity 1: written out instead of `is_prefix`, whose 4-iteration loop would dictate the unwind bound)
            assert!(
                last.len == 0 && q.len == 1 && q.items[0] == x,
                "accepted item appended at the tail of what was pending at the successful attempt"
            );
        }
        Err(e) => {
            assert!(last.len == q.len && (q.len == 0 || q.items[0] == last.items[0]), "rejected: queue unchanged");
            let back = e.into_retryable();
            if twin == 1 {
                assert!(back.is_none(), "TWIN (false): timeout swallows the item");
            }
            assert!(back == Some(x), "timeout: the error carries THAT item");
            // C08: gives up only on expiry
            let now = unsafe { env::CLOCK_MS - START };
            assert!(t == 0 || now >= t as u64 || unsafe { TIMED_OUT_SEEN }, "Err(item) only on expiry");
        }
    }
    assert!(shim::held() == 0);
    kani::cover!(scn != 0 || (ok && calls == 0), "accepted at once");
    kani::cover!(scn != 1 || (ok && calls == 1), "accepted after the queue was taken");
    kani::cover!(scn != 2 || (!ok && calls == 1), "handed back after a timed-out wait");
    kani::cover!(scn != 2 || (!ok && calls == 0), "zero timeout, full queue: handed back at once");
    kani::cover!(scn != 3 || (!ok && calls == 1), "queue refilled by another sender and the timeout expired: handed back");
    core::mem::forget(tx);
    core::mem::forget(rx);
}

macro_rules! send_harness {
    ($name:ident, $scn:expr, $twin:expr) => {
        #[kani::proof]
        #[kani::unwind(3)]
        pub fn $name() {
            blocking_send_step($scn, $twin);
        }
    };
}

// NOT REGISTERED (`_x_`): none of the blocking_send scenarios leaves CBMC's SAT conversion within 12-14 GB (measured: 270-700 k
// symex steps each, with and without --no-pointer-check / --max-field-sensitivity-array-size; the blocking_flush family,
// same environment, needs 1.7 M variables). What blocking_send adds to `send_or_wait` (decided in s_sow) is the Trigger
// (decided through blocking_flush) and an Instant subtraction.
send_harness!(c08c09_x_s_blocking_send_room, 0, 0);
send_harness!(c08c09_x_s_blocking_send_full_then_taken, 1, 0);
send_harness!(c08c09_x_s_blocking_send_full_never_taken, 2, 0);
send_harness!(c08c09_x_s_blocking_send_refilled_after_wake, 3, 0);
send_harness!(c09_x_s_blocking_send_timeout_swallows, 2, 1);
