//! S — one-step sender harnesses for the callback registrations `when_empty` / `when_flushed`.
//!
//! C07: `when_flushed` runs the callback immediately ONLY IF no batch is in flight and (nothing is pending or the
//!      channel is closed, i.e. the receiver is gone — the property speaks about a live receiver); otherwise the
//!      callback is registered on the PENDING batch exactly once and is not run now (it travels with that batch).
//! C08/C09: `when_empty` (the wake-up of a blocked send) runs the callback at once iff nothing is pending, otherwise
//!      registers it exactly once on the pending batch; a registered or run callback is never dropped.
use crate::util::*;

fn finish(tx: Sender<Q>, rx: Receiver<Q>) {
    core::mem::forget(tx);
    core::mem::forget(rx);
}

fn when_flushed_step(max_w: usize, twin: u8) {
    reset_statics();
    let pre = any_pre(3, max_w);
    let (tx, rx) = build(&pre);

    tx.when_flushed(|| {
        assert_unlocked();
        unsafe { RAN[4] += 1 }
    });

    let post = v::snapshot(&tx);
    let q = *v::pending(&tx);
    assert!(locks() == 1, "when_flushed is one critical section");
    let immediate = ran(4) == 1;
    if twin == 1 && pre.q.len == 0 {
        assert!(immediate, "TWIN (false): an empty pending queue is enough to report a flush");
    }
    if immediate {
        // the only situation in which completion may be reported without waiting for the receiver
        assert!(!pre.in_batch, "immediate only if no batch is in flight");
        assert!(pre.q.len == 0 || !pre.open, "immediate only if nothing is pending (or the receiver is gone)");
        assert!(post.on_flush == pre.n_flush, "an immediately run callback is not also registered");
    } else {
        assert!(ran(4) == 0, "callback runs at most once");
        assert!(post.on_flush == pre.n_flush + 1, "registered on the pending batch exactly once");
        assert!(pre.in_batch || (pre.q.len > 0 && pre.open));
    }
    // nothing else changes
    assert!(same_items(&pre.q, &q), "queue untouched");
    assert!(post.on_take == pre.n_take && post.truncated == pre.truncated && post.blocked == 0);
    assert!(frame_unchanged(&pre, &post));
    assert!(ran(0) == 0 && ran(1) == 0 && ran(2) == 0 && ran(3) == 0, "earlier watchers not run");
    kani::cover!(immediate && pre.open, "immediate: idle and empty");
    kani::cover!(immediate && !pre.open && pre.q.len > 0, "immediate: closed with items pending");
    kani::cover!(!immediate && pre.in_batch && pre.q.len == 0, "registered: batch in flight, nothing pending");
    kani::cover!(!immediate && !pre.in_batch && pre.q.len == 3, "registered: items pending");
    kani::cover!(!immediate && pre.n_flush == max_w, "registered behind earlier flush watchers");
    finish(tx, rx);
}

#[kani::proof]
#[kani::unwind(6)]
pub fn c07c08_q_s_when_flushed() {
    when_flushed_step(1, 0);
}

#[kani::proof]
#[kani::unwind(6)]
pub fn c07c08_t_s_when_flushed_w2() {
    when_flushed_step(2, 0);
}

#[kani::proof]
#[kani::unwind(6)]
pub fn c07_w_s_when_flushed_ignores_in_flight_batch() {
    when_flushed_step(0, 1);
}

fn when_empty_step(max_w: usize, twin: u8) {
    reset_statics();
    let pre = any_pre(3, max_w);
    let (tx, rx) = build(&pre);

    tx.when_empty(|| {
        assert_unlocked();
        unsafe { RAN[4] += 1 }
    });

    let post = v::snapshot(&tx);
    let q = *v::pending(&tx);
    assert!(locks() == 1, "when_empty is one critical section");
    let immediate = ran(4) == 1;
    if twin == 1 {
        assert!(immediate, "TWIN (false): when_empty always runs the callback at once");
    }
    if pre.q.len == 0 {
        assert!(immediate, "nothing pending: run at once");
        assert!(post.on_take == pre.n_take, "not also registered");
    } else {
        assert!(ran(4) == 0, "items pending: not run now");
        assert!(post.on_take == pre.n_take + 1, "registered on the pending batch exactly once");
    }
    assert!(ran(4) <= 1);
    assert!(same_items(&pre.q, &q), "queue untouched");
    assert!(post.on_flush == pre.n_flush && post.truncated == pre.truncated && post.blocked == 0);
    assert!(frame_unchanged(&pre, &post));
    assert!(ran(0) == 0 && ran(1) == 0 && ran(2) == 0 && ran(3) == 0, "earlier watchers not run");
    kani::cover!(immediate && pre.in_batch, "immediate while a batch is in flight");
    kani::cover!(!immediate && pre.q.len == 1 && pre.n_take == max_w, "registered behind earlier take watchers");
    finish(tx, rx);
}

#[kani::proof]
#[kani::unwind(6)]
pub fn c08c09_q_s_when_empty() {
    when_empty_step(1, 0);
}

#[kani::proof]
#[kani::unwind(6)]
pub fn c08c09_t_s_when_empty_w2() {
    when_empty_step(2, 0);
}

#[kani::proof]
#[kani::unwind(6)]
pub fn c08_w_s_when_empty_always_immediate() {
    when_empty_step(0, 1);
}
