//! S — one-step (inductive) sender harnesses: `send`, `try_send`, `send_or_wait` from an ARBITRARY state
//! satisfying I0 (1 <= capacity <= 3, pending <= capacity), arbitrary flags, watcher counts and counters.
//!
//! C09: pending <= capacity after every operation; a plain `send` that finds the (open) queue full leaves exactly
//!      [new item] and counts one truncation, changing nothing else; `try_send`/`send_or_wait` never discard:
//!      they enqueue the item or hand THAT item back (a closed channel returns an error instead).
//! C07: an overflowing `send` discards items only — watchers parked on the pending batch stay registered.
//! C06: an accepted item is appended at the tail and the prefix is untouched (acceptance order = queue order).
use crate::util::*;
use core::time::Duration;

fn finish(tx: Sender<Q>, rx: Receiver<Q>) {
    // Arc / Vec<Box<dyn FnOnce>> drop glue is not the subject and is expensive under CBMC
    core::mem::forget(tx);
    core::mem::forget(rx);
}

/// Post-condition of a successful enqueue: old content is a prefix, the item is the new tail.
fn appended(pre: &Q, post: &Q, x: u8) -> bool {
    pre.len < QN && post.len == pre.len + 1 && is_prefix(pre, post) && post.items[pre.len] == x
}

fn send_step(max_cap: usize, max_w: usize, twin: u8) {
    reset_statics();
    let pre = any_pre(max_cap, max_w);
    let (tx, rx) = build(&pre);
    let x: u8 = kani::any();

    tx.send(x);

    let post = v::snapshot(&tx);
    let q = *v::pending(&tx);
    assert!(locks() == 1, "send is one critical section");
    // C09 bound (I0 preserved)
    assert!(post.pending_len <= pre.cap, "pending never exceeds the capacity");
    assert!(q.len == post.pending_len);
    if pre.open {
        if pre.full() {
            // C09: the whole older queue is discarded, the new item kept, one truncation counted
            if twin == 1 {
                assert!(is_prefix(&pre.q, &q), "TWIN (false): overflow keeps the older items");
            }
            assert!(q.len == 1 && q.items[0] == x, "overflow: queue = [new item]");
            assert!(post.truncated == pre.truncated.wrapping_add(1), "overflow: truncation counted once");
            // C07/C08: only the ITEMS are discarded. Flush / empty callbacks parked on the pending batch stay
            // registered there (none dropped, none invoked): a dropped flush watcher would let a flush report
            // completion (hung-up oneshot) while an earlier batch is still in flight.
            assert!(
                post.on_flush == pre.n_flush && post.on_take == pre.n_take,
                "overflow discards items only: every watcher parked on the pending batch is still registered"
            );
            assert!(ran(0) == 0 && ran(1) == 0 && ran(2) == 0 && ran(3) == 0, "overflow invokes no watcher");
        } else {
            // C06: appended at the tail, prefix untouched; nothing discarded, nothing counted
            if twin == 2 {
                assert!(q.items[0] == x, "TWIN (false): accepted item goes to the head");
            }
            assert!(appended(&pre.q, &q, x), "accepted item appended at the tail, prefix untouched");
            assert!(post.truncated == pre.truncated, "no truncation counted without overflow");
        }
    } else {
        // closed (the receiver is gone): nothing is enqueued. What is still pending then is lost anyway
        // (C06 exception), so only "not enqueued" is claimed.
        assert!(q.len <= pre.q.len && is_prefix(&q, &pre.q), "closed: nothing enqueued");
    }
    // nothing else changes
    assert!(frame_unchanged(&pre, &post), "flags and batch counters untouched");
    assert!(pre_watchers_untouched(&pre, &post), "watchers neither run, dropped nor added");
    assert!(post.blocked == 0);

    kani::cover!(pre.open && pre.full() && pre.q.len == 3, "overflow at capacity 3");
    kani::cover!(pre.open && pre.full() && pre.cap == 1, "overflow at capacity 1");
    kani::cover!(pre.open && !pre.full() && pre.q.len == 2, "append behind two items");
    kani::cover!(pre.open && pre.q.len == 0, "append to empty queue");
    kani::cover!(!pre.open && pre.full(), "closed and full");
    kani::cover!(pre.in_batch && pre.n_flush == max_w && pre.n_take == max_w, "in batch with watchers");
    kani::cover!(pre.open && pre.full() && pre.n_flush == max_w && pre.n_take == max_w, "overflow with watchers parked");
    finish(tx, rx);
}

#[kani::proof]
#[kani::unwind(6)]
pub fn c06c07c08c09_q_s_send() {
    send_step(3, 1, 0);
}

#[kani::proof]
#[kani::unwind(6)]
pub fn c06c07c08c09_t_s_send_w2() {
    send_step(3, 2, 0);
}

#[kani::proof]
#[kani::unwind(6)]
pub fn c09_w_s_send_overflow_keeps_old() {
    send_step(3, 0, 1);
}

#[kani::proof]
#[kani::unwind(6)]
pub fn c06_w_s_send_to_head() {
    send_step(3, 0, 2);
}

fn try_send_step(max_cap: usize, max_w: usize, twin: u8) {
    reset_statics();
    let pre = any_pre(max_cap, max_w);
    let (tx, rx) = build(&pre);
    let x: u8 = kani::any();

    let r = tx.try_send(x);

    let post = v::snapshot(&tx);
    let q = *v::pending(&tx);
    assert!(locks() == 1, "try_send is one critical section");
    assert!(post.pending_len <= pre.cap, "pending never exceeds the capacity");
    assert!(post.truncated == pre.truncated, "try_send never truncates");
    let ok = r.is_ok();
    match r {
        Ok(()) => {
            assert!(pre.open && !pre.full(), "accepted only when open and not full");
            assert!(appended(&pre.q, &q, x), "accepted item appended at the tail, prefix untouched");
        }
        Err(e) => {
            assert!(!pre.open || pre.full(), "rejected only when closed or full");
            assert!(same_items(&pre.q, &q), "rejected: queue unchanged");
            let back = e.into_retryable();
            if pre.open {
                if twin == 1 {
                    assert!(back.is_none(), "TWIN (false): a full channel does not hand the item back");
                }
                assert!(back == Some(x), "full: the error carries THAT item");
            }
        }
    }
    assert!(frame_unchanged(&pre, &post));
    assert!(pre_watchers_untouched(&pre, &post));
    kani::cover!(ok && pre.q.len == 2, "accepted behind two items");
    kani::cover!(!ok && pre.open && pre.cap == 3, "full at capacity 3");
    kani::cover!(!ok && pre.open && pre.cap == 1, "full at capacity 1");
    kani::cover!(!ok && !pre.open && !pre.full(), "closed with room");
    finish(tx, rx);
}

#[kani::proof]
#[kani::unwind(6)]
pub fn c06c09_q_s_try_send() {
    try_send_step(3, 1, 0);
}

#[kani::proof]
#[kani::unwind(6)]
pub fn c09_w_s_try_send_full_drops_item() {
    try_send_step(3, 0, 1);
}
