#![allow(dead_code, unused_imports, unused_variables, unused_mut, static_mut_refs)]
//! Kani harnesses over `emit_batcher` (scratch tree + stubs/batcher.toml + inject/batcher.rs).
//! Naming: `cNN_q_*` quick+thorough, `cNN_t_*` thorough only, `cNN_w_*` mutant twin (must FAIL).
//! Families: `_s_` one-step sender harnesses, `_k_` kernels, `_r_` receiver iteration.
//!
//! Composition (WRITTEN argument, not a solver result; each premise is one of the harnesses):
//!
//! Steps. The shared state (pending batch = queue + its watchers, `is_open`, `is_in_batch`) is touched only under the
//! state lock (mutual exclusion of the std mutex is assumed). Every sender operation acquires it exactly once and
//! holds it for all its accesses (asserted in every `_s_` harness through the shim's acquisition counter); the
//! receiver acquires it exactly once per loop iteration and does everything else on local state (`_r_` harnesses:
//! all effects of the iteration are complete at the next acquisition, snapshots inside `on_batch` assert the lock
//! is free); `Sender::drop` / `Receiver::drop` set one flag (`_k_drop_*`). So every execution with any number of
//! senders is equivalent to a sequence of these atomic steps, and it suffices to check each step from an
//! ARBITRARY state satisfying the invariant I0 = (capacity >= 1 /\ pending <= capacity) and to show I0 preserved.
//!
//! C09. I0 is preserved by every step (`_s_`: `pending <= capacity` asserted after send / try_send / send_or_wait;
//! the receiver only empties the queue), hence holds always. The overflow rule, the hand-back rule and "closed =>
//! nothing enqueued" are the post-conditions of the single steps.
//! C06. Ghost sequence A = accepted items in acceptance order. Sender steps append the accepted item at the tail and
//! leave the prefix alone (`_s_`), or clear the queue and count it (send on full). A receiver step takes the WHOLE
//! queue in order and leaves an empty one (`_r_`: ARG[0] == pre-queue, pending == 0 after the swap), so consecutive
//! batches partition A minus the counted truncations; within the step the processor sees that batch first, then
//! exactly the remainders it returned (`_r_`), at most budget+1 times. Exactly-once and FIFO follow by induction on
//! the number of steps.
//! C07. A flush callback is run immediately only in a state with no batch in flight and nothing pending (`_s_`), else
//! it is pushed onto the PENDING batch (`_s_`, `_k_watchers`). Watchers are fields of the batch value: the receiver
//! step moves them out together with the queue (`_r_`: none left behind, none run before the final attempt, each
//! run exactly once after it, at once for an empty hand-off). Items whose send returned before the registration
//! are either in that pending batch, in the batch in flight (whose final attempt precedes the next swap because the
//! receiver is sequential), already finished, or were truncated. Induction as for C06.
//! C08. Every receiver step terminates for every outcome/panic plan with <= budget+1 attempts and the configured
//! non-decreasing, capped delays (`_r_`, `_k_retry`, `_k_delay_*`) and ends in a state from which the next step is
//! again covered (arbitrary pre-state); closed and empty => `exec` returns (`_r_`).

pub mod util;
#[cfg(kani)]
pub mod s_send;
#[cfg(kani)]
pub mod s_sow;
#[cfg(kani)]
pub mod s_watch;
#[cfg(kani)]
pub mod s_metrics;
#[cfg(kani)]
pub mod s_block;
#[cfg(kani)]
pub mod k_kernels;
#[cfg(kani)]
pub mod r_exec;
