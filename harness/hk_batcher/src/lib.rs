#![allow(dead_code, unused_imports, unused_variables, unused_mut, static_mut_refs)]
//! Kani harnesses over `emit_batcher` (scratch tree + stubs/batcher.toml + inject/batcher.rs).
//! Naming: `cNN_q_*` quick+thorough, `cNN_t_*` thorough only, `cNN_w_*` mutant twin (must FAIL).
//! Families: `_s_` one-step sender harnesses, `_k_` kernels, `_r_` receiver iteration.
//!
//! Composition (written argument, each premise is one of the harnesses):
//! the shared state is touched only under the state lock; every sender operation acquires it exactly once
//! (asserted in every `_s_` harness through the shim's acquisition counter) and so is one atomic step;
//! `Sender::drop`/`Receiver::drop` set one flag (`_k_drop_flags`). The `_s_` harnesses start from an ARBITRARY
//! state satisfying the representation invariant I0 = (capacity >= 1 /\ pending <= capacity) and show it is
//! preserved, so their post-conditions hold after any history of any length and any number of senders.

pub mod util;
#[cfg(kani)]
pub mod s_send;
#[cfg(kani)]
pub mod s_watch;
#[cfg(kani)]
pub mod k_kernels;
#[cfg(kani)]
pub mod r_exec;
