"""Generic obligation driver shared by the E2 units: validation, deciding, replaying, reporting."""
import os
import re
import threading
import time

from . import Unsupported, smt, engine

VERIF = os.path.dirname(os.path.dirname(os.path.abspath(__file__)))
_print_lock = threading.Lock()


def say(msg):
    with _print_lock:
        print(msg, flush=True)


class Obligation:
    def __init__(self, name, enc, functions, bounds, queries, replay=None, inputs_of=None, crate="core", features=(),
                 default_features=False, append=None):
        self.name = name
        self.enc = enc                    # Encoding used (None if it could not be built)
        self.functions = functions
        self.bounds = bounds
        self.queries = queries            # [Query]
        self.replay = replay              # fn(model values by input label) -> rust main source (panics iff violated)
        self.crate = crate                # crate dir relative to the repo root (native replay dependency)
        self.features = list(features)
        self.default_features = default_features
        self.append = append or []        # [(file relative to repo root, text)] appended to the scratch copy (add-only)
        self.fail = None                  # reason for failing closed before any query


def replay_file_text(prop, ob, main_rs, note):
    head = ["// replay for property %s (engine E2 = mir2smt, obligation %s)" % (prop, ob.name),
            "// kind: native", "// group: smt", "// crate: %s" % ob.crate,
            "// features: %s" % ",".join(ob.features),
            "// default-features: %s" % ("true" if ob.default_features else "false")]
    for f, text in ob.append:
        head.append("// append-to: %s" % f)
        for ln in text.rstrip("\n").split("\n"):
            head.append("//| " + ln)
        head.append("// end-append")
    head.append("// %s" % note.replace("\n", " ")[:400])
    head.append("// the program below panics iff the violation reproduces; re-run with: ./check replay replays/%s/%s.rs" % (prop, ob.name))
    return "\n".join(head) + "\n" + main_rs


def model_inputs(enc, model):
    out = {}
    for lab, term in enc.inputs:
        if isinstance(term, (int, bool)):
            out[lab] = term
        else:
            out[lab] = model.get(term, 0)
    return out


def report(ctx, ob, status, cross, secs, nq, witness_ok, model, reasons, extra=None):
    d = {"obligation": ob.name, "functions": ob.functions, "status": status,
         "solver": smt.solver_version("cvc5"), "cross_check": cross, "solver_s": secs, "queries": nq,
         "witness_ok": bool(witness_ok), "bounds": ob.bounds, "model": model}
    if reasons:
        d["reasons"] = reasons[:6]
    if extra:
        d.update(extra)
    ctx.smt.append(d)
    say("[%s]   smt:%-40s %-12s %6.1fs queries=%d %s %s" % (
        ctx.prop, ob.name, status.upper(), secs, nq, cross, ("; ".join(reasons))[:160]))
    if status == "inconclusive":
        ctx.inconclusive.append("smt:%s: %s" % (ob.name, "; ".join(reasons)[:600] or "no verdict"))


def known_match(ctx, ob, message):
    """known_findings.json entries apply to E2 obligations as harness 'smt:<obligation>'."""
    try:
        from vlib import runner
        known = runner.load_known()
    except Exception:
        return None
    for k in known.get("findings", []):
        if k.get("property") != ctx.prop:
            continue
        if re.search(k.get("harness", "$^"), "smt:" + ob.name) and re.search(k.get("check", "$^"), message):
            return k
    return None


def decide_all(ctx, obligations, validations, workdir, native_for, tier=None, jobs=None, budget_note=""):
    """validations: {encoding name: (ok, n, mismatches)}; an E2 unit is all-or-nothing with respect to
    translator validation: any disagreement makes every obligation of the unit inconclusive."""
    tier = tier or ctx.tier
    jobs = jobs or min(4, max(1, int(os.environ.get("VERIF_JOBS", "4"))))
    bad = [(n, v) for n, v in validations.items() if not v[0]]
    if bad:
        why = "; ".join("%s: %s" % (n, "; ".join(v[2][:3])) for n, v in bad)
        for ob in obligations:
            report(ctx, ob, "inconclusive", "not run", 0.0, 0, False, None,
                   ["translator validation failed (%s)" % why[:400]])
        return
    runnable = []
    for ob in obligations:
        if ob.fail or ob.enc is None or ob.enc.error:
            report(ctx, ob, "inconclusive", "not run", 0.0, 0, False, None,
                   [ob.fail or (ob.enc.error if ob.enc else "no encoding")])
        else:
            runnable.append(ob)
    allq = [q for ob in runnable for q in ob.queries]
    engine.run_queries(allq, os.path.join(workdir, "queries"), tier, jobs=jobs,
                       log=lambda m: say("[%s] %s" % (ctx.prop, m)))
    for ob in runnable:
        status, cross, secs, sat_q, reasons = engine.verdict(ob.queries)
        wit = validations.get(ob.enc.name, (False, 0, []))
        witness_ok = wit[0] and wit[1] > 0
        if not witness_ok:
            status = "inconclusive" if status == "holds" else status
            reasons.append("no reachability witness for the encoding %s" % ob.enc.name)
        model = None
        extra = {"validation_vectors": wit[1], "encoding": ob.enc.name,
                 "mir_bodies": list(ob.enc.ex.translated), "summaries": list(ob.enc.ex.used_summaries),
                 "div_lemmas": ob.enc.S.n_divlemmas, "logic": ob.enc.S.logic()}
        if status == "sat":
            a = sat_q.answers["cvc5"]
            model = model_inputs(ob.enc, a.model)
            extra["sat_query"] = sat_q.name
            status, why = replay_model(ctx, ob, model, native_for, workdir)
            reasons.append(why)
        report(ctx, ob, status, cross, secs, len(ob.queries), witness_ok, model, reasons, extra)


def replay_model(ctx, ob, model, native_for, workdir):
    """-> (status, text). A model is a violation only if the REAL function misbehaves natively."""
    if ob.replay is None:
        return "inconclusive", "counterexample candidate %s but this obligation has no native replay" % model
    main_rs = ob.replay(model)
    try:
        nat = native_for(ob)
        rc, out, err = nat.run(main_rs)
    except Exception as e:
        return "inconclusive", "native replay machinery failed: %s" % e
    if rc is None:
        return "inconclusive", "native replay did not build/run: %s" % err[-300:]
    if rc == 0:
        return "inconclusive", ("model %s does not reproduce natively (translator or summary suspect); "
                                "not reported as a violation" % model)
    m = re.search(r"panicked at ([^\n]*)\n([^\n]*)", err)
    msg = (m.group(1) + " " + m.group(2)).strip() if m else err.strip()[-200:]
    k = known_match(ctx, ob, msg)
    if k is not None:
        line = "KNOWN-FINDING: property=%s %s" % (ctx.prop, k["what"])
        if line not in ctx.known_hits:
            ctx.known_hits.append(line)
            say(line)
        return "violated", "reproduced natively (%s); listed in known_findings.json" % msg[:160]
    rdir = os.path.join(VERIF, "replays", ctx.prop)
    os.makedirs(rdir, exist_ok=True)
    path = os.path.join(rdir, ob.name + ".rs")
    with open(path, "w") as f:
        f.write(replay_file_text(ctx.prop, ob, main_rs, "model: %s ; native: %s" % (model, msg)))
    rel = os.path.relpath(path, VERIF)
    ctx.violations.append(("smt:" + ob.name, rel))
    say("VIOLATION property=%s replay=%s" % (ctx.prop, rel))
    return "violated", "reproduced natively: %s" % msg[:200]
