"""C15 obligations on emit_core::timestamp::{Timestamp::to_parts, Timestamp::from_parts}."""
import calendar

from . import Unsupported, smt, summaries
from .smt import b_and, b_or, b_not, i_eq, i_lt, i_le, in_range
from .symex import Executor, Agg, IntV, RefV, EnumV, duration
from .engine import Encoding, Query
from .driver import Obligation

MAX_SECS = 253402300799
MAX_NANOS = 999999999
PARTS = ["years", "months", "days", "hours", "minutes", "seconds", "nanos"]
PARTS_TY = ["u16", "u8", "u8", "u8", "u8", "u8", "u32"]
FN_TP = "emit_core::timestamp::Timestamp::to_parts"
FN_FP = "emit_core::timestamp::Timestamp::from_parts"


# ---------------------------------------------------------------- encodings

def _sym_ts(ex, suffix=""):
    S = ex.S
    secs = S.declare_int("secs" + suffix, *smt.ty_range("u64"))
    nanos = S.declare_int("nanos" + suffix, *smt.ty_range("u32"))
    return secs, nanos


def _run_to_parts(ex, P, secs, nanos, cell, tag, guard=True, store=None):
    tp = P.find_fn("Timestamp", "to_parts")
    store = dict(store or {})
    store[("ext", cell)] = Agg("struct", "Timestamp", [duration(secs, nanos)])
    ex.tag = tag
    rv, st, g = ex.exec_body(tp, [RefV(("ext", cell))], store, guard)
    if not (isinstance(rv, Agg) and len(rv.fields) == 7 and all(isinstance(f, IntV) for f in rv.fields)):
        raise Unsupported("to_parts did not return a 7-field Parts: %r" % (rv,))
    for f, ty in zip(rv.fields, PARTS_TY):
        if f.ty != ty:
            raise Unsupported("Parts field types changed: %r" % (rv,))
    return rv, st, g


def _run_from_parts(ex, P, parts, tag, guard=True, store=None):
    fp = P.find_fn("Timestamp", "from_parts")
    ex.tag = tag
    rv, st, g = ex.exec_body(fp, [parts], dict(store or {}), guard)
    if not (isinstance(rv, EnumV) and rv.name == "Option"):
        raise Unsupported("from_parts did not return an Option: %r" % (rv,))
    if 1 in rv.payload:
        d = rv.payload[1][0].fields[0]
        osecs, onanos = d.fields[0].t, d.fields[1].t
    else:
        osecs, onanos = 0, 0
    return rv.discr, osecs, onanos, st, g


def _enc(name, P, build):
    ex = Executor(P, summaries=summaries)
    e = Encoding(name, ex)
    try:
        build(e, ex)
    except Unsupported as u:
        e.error = "unsupported MIR in encoding %s: %s" % (name, u)
    return e


def build_encodings(P, want=("tp", "fp", "rt", "mono")):
    encs = {}

    def tp(e, ex):
        secs, nanos = _sym_ts(ex)
        rv, st, g = _run_to_parts(ex, P, secs, nanos, "ts", "to_parts")
        e.inputs = [("secs", secs), ("nanos", nanos)]
        e.outputs = [(n, f.t) for n, f in zip(PARTS, rv.fields)]
        e.ret_guard = g

    def fp(e, ex):
        S = ex.S
        terms = [S.declare_int(n, *smt.ty_range(ty)) for n, ty in zip(PARTS, PARTS_TY)]
        parts = Agg("struct", "Parts", [IntV(ty, t) for ty, t in zip(PARTS_TY, terms)])
        d, osecs, onanos, st, g = _run_from_parts(ex, P, parts, "from_parts")
        e.inputs = list(zip(PARTS, terms))
        e.outputs = [("some", d), ("secs", osecs), ("nanos", onanos)]
        e.ret_guard = g

    def rt(e, ex):
        secs, nanos = _sym_ts(ex)
        rv, st, g = _run_to_parts(ex, P, secs, nanos, "ts", "to_parts")
        d, osecs, onanos, st, g2 = _run_from_parts(ex, P, rv, "from_parts", guard=g, store=st)
        e.inputs = [("secs", secs), ("nanos", nanos)]
        e.outputs = [("some", d), ("secs", osecs), ("nanos", onanos)]
        e.ret_guard = g2
        e.mid_guard = g

    def mono(e, ex):
        s1, n1 = _sym_ts(ex, "1")
        s2, n2 = _sym_ts(ex, "2")
        r1, st, g1 = _run_to_parts(ex, P, s1, n1, "ts1", "to_parts#1")
        r2, st, g2 = _run_to_parts(ex, P, s2, n2, "ts2", "to_parts#2", store=st)
        e.inputs = [("secs1", s1), ("nanos1", n1), ("secs2", s2), ("nanos2", n2)]
        e.outputs = [(n + "1", f.t) for n, f in zip(PARTS, r1.fields)] + [(n + "2", f.t) for n, f in zip(PARTS, r2.fields)]
        e.ret_guard = b_and(g1, g2)
        e.k1 = [f.t for f in r1.fields]
        e.k2 = [f.t for f in r2.fields]

    for n, f in (("tp", tp), ("fp", fp), ("rt", rt), ("mono", mono)):
        if n in want:
            encs[n] = _enc(n, P, f)
    return encs


# ---------------------------------------------------------------- validation vectors

CIVIL = [
    ("min", (1970, 1, 1, 0, 0, 0), 0),
    ("max", (9999, 12, 31, 23, 59, 59), 999999999),
    ("roundtrip_test", None, 17532),                      # 1691961703 s, from the repo's `roundtrip` test
    ("leap_2000_02_29", (2000, 2, 29, 12, 0, 1), 1),
    ("leap_2000_03_01", (2000, 3, 1, 0, 0, 0), 0),
    ("leap_2000_02_28_end", (2000, 2, 28, 23, 59, 59), 999999999),
    ("noleap_2100_02_28", (2100, 2, 28, 23, 59, 59), 5),
    ("noleap_2100_03_01", (2100, 3, 1, 0, 0, 0), 0),
    ("leap_2024_02_29", (2024, 2, 29, 0, 0, 0), 0),
    ("leap_2400_02_29", (2400, 2, 29, 6, 7, 8), 9),
    ("y1970_end", (1970, 12, 31, 23, 59, 59), 999999999),
    ("y1971_start", (1971, 1, 1, 0, 0, 0), 0),
    ("y1999_end", (1999, 12, 31, 23, 59, 59), 0),
    ("y2000_start", (2000, 1, 1, 0, 0, 0), 0),
    ("y2038_i32max", (2038, 1, 19, 3, 14, 7), 0),
    ("y2038_i32max_plus1", (2038, 1, 19, 3, 14, 8), 0),
    ("y2038_end", (2038, 12, 31, 23, 59, 59), 1),
    ("y2039_start", (2039, 1, 1, 0, 0, 0), 0),
    ("y2100_start", (2100, 1, 1, 0, 0, 0), 0),
    ("y9999_start", (9999, 1, 1, 0, 0, 0), 0),
    ("jan31_2023", (2023, 1, 31, 23, 0, 0), 0),
    ("nov30_2023", (2023, 11, 30, 0, 59, 0), 0),
    ("dec31_2023", (2023, 12, 31, 0, 0, 59), 0),
    ("mar1_1972", (1972, 3, 1, 0, 0, 0), 0),
    ("feb29_1972", (1972, 2, 29, 23, 59, 59), 0),
]

PARTS_VECTORS = [
    ("parts_max", (9999, 12, 31, 23, 59, 59, 999999999)),
    ("parts_min", (1970, 1, 1, 0, 0, 0, 0)),
    ("parts_overflow_a", (2000, 13, 32, 25, 61, 61, 1000000000)),
    ("parts_overflow_b", (2000, 13, 32, 25, 61, 62, 0)),
    ("roundtrip_test", (2023, 8, 13, 21, 21, 43, 17532)),
    ("before_epoch", (1969, 12, 31, 23, 59, 59, 0)),
    ("year_0", (0, 1, 1, 0, 0, 0, 0)),
    ("year_1899", (1899, 6, 15, 1, 2, 3, 4)),
    ("year_1900", (1900, 3, 1, 0, 0, 0, 0)),
    ("fast_path_last", (2038, 12, 31, 23, 59, 59, 7)),
    ("slow_path_first", (2039, 1, 1, 0, 0, 0, 0)),
    ("leap_2000", (2000, 2, 29, 0, 0, 0, 0)),
    ("leap_2024", (2024, 2, 29, 0, 0, 0, 0)),
    ("leap_2400_mar", (2400, 3, 1, 0, 0, 0, 0)),
    ("noleap_2100_mar", (2100, 3, 1, 0, 0, 0, 0)),
    ("noleap_2100_feb29", (2100, 2, 29, 0, 0, 0, 0)),
    ("after_max", (9999, 12, 31, 23, 59, 60, 0)),
    ("all_99", (9999, 99, 99, 99, 99, 99, 999999999)),
    ("u8_max", (65535, 255, 255, 255, 255, 255, 4294967295)),
    ("month_13", (2023, 13, 1, 0, 0, 0, 0)),
    ("month_24", (2023, 24, 31, 0, 0, 0, 0)),
    ("month_0", (2023, 0, 10, 0, 0, 0, 0)),
    ("day_0", (2023, 5, 0, 0, 0, 0, 0)),
    ("month_0_day_0", (1970, 0, 0, 0, 0, 0, 0)),
]


def ts_vectors():
    out = []
    for lab, civ, ns in CIVIL:
        secs = 1691961703 if civ is None else calendar.timegm(civ + (0, 0, 0))
        out.append((lab, secs, ns))
    return out


MONO_PAIRS = [("min", "y1970_end"), ("leap_2000_02_28_end", "leap_2000_02_29"), ("noleap_2100_02_28", "noleap_2100_03_01"),
              ("y2038_i32max", "y2038_i32max_plus1"), ("y9999_start", "max"), ("roundtrip_test", "roundtrip_test")]


def native_main():
    """Rust program printing the real functions' outputs for every vector (panics are caught per vector)."""
    ts = ts_vectors()
    src = ["use emit_core::timestamp::{Parts, Timestamp};", "use std::time::Duration;", "",
           "fn show_parts(p: Parts) -> String { format!(\"{} {} {} {} {} {} {}\", p.years, p.months, p.days, p.hours, p.minutes, p.seconds, p.nanos) }",
           "fn show_opt(o: Option<Timestamp>) -> String { match o { None => \"NONE\".to_string(), Some(t) => format!(\"SOME {} {}\", t.to_unix().as_secs(), t.to_unix().subsec_nanos()) } }",
           "fn guard<F: FnOnce() -> String + std::panic::UnwindSafe>(f: F) -> String { match std::panic::catch_unwind(f) { Ok(s) => s, Err(_) => \"PANIC\".to_string() } }",
           "fn main() {", "    std::panic::set_hook(Box::new(|_| {}));"]
    for lab, secs, ns in ts:
        src.append("    println!(\"TP %s {}\", guard(|| show_parts(Timestamp::from_unix(Duration::new(%d, %d)).unwrap().to_parts())));" % (lab, secs, ns))
        src.append("    println!(\"RT %s {}\", guard(|| show_opt(Timestamp::from_parts(Timestamp::from_unix(Duration::new(%d, %d)).unwrap().to_parts()))));" % (lab, secs, ns))
    for lab, p in PARTS_VECTORS:
        src.append("    println!(\"FP %s {}\", guard(|| show_opt(Timestamp::from_parts(Parts { years: %d, months: %d, days: %d, hours: %d, minutes: %d, seconds: %d, nanos: %d }))));" % ((lab,) + p))
    src.append("}")
    return "\n".join(src) + "\n"


def parse_native(stdout):
    res = {"TP": {}, "RT": {}, "FP": {}}
    for ln in stdout.split("\n"):
        w = ln.split()
        if len(w) >= 3 and w[0] in res:
            res[w[0]][w[1]] = w[2:]
    return res


def _opt_expect(words):
    if words[0] == "PANIC":
        return {"panic": True, "out": {}}
    if words[0] == "NONE":
        return {"panic": False, "out": {"some": 0}}
    return {"panic": False, "out": {"some": 1, "secs": int(words[1]), "nanos": int(words[2])}}


def validation_vectors(native):
    """-> ({encoding name: [(label, inputs, expected)]}, problems, notes)"""
    ts = ts_vectors()
    v = {"tp": [], "rt": [], "fp": [], "mono": []}
    problems = []
    notes = []
    tpout = {}
    for (lab, secs, ns), (_, civ, _) in zip(ts, CIVIL):
        w = native["TP"].get(lab)
        if w is None:
            problems.append("native output for TP %s missing" % lab)
            continue
        if w[0] == "PANIC":
            v["tp"].append((lab, {"secs": secs, "nanos": ns}, {"panic": True, "out": {}}))
        else:
            vals = [int(x) for x in w]
            if civ is not None and tuple(vals[:6]) != civ:
                # not a translator problem: the code under test disagrees with the civil calendar. The obligations
                # (round trip, ranges, monotonicity) are what reports this; here it is only noted.
                notes.append("native to_parts(%s) = %s differs from the civil date %s the vector was built from" % (lab, vals, civ))
            tpout[lab] = vals
            v["tp"].append((lab, {"secs": secs, "nanos": ns}, {"panic": False, "out": dict(zip(PARTS, vals))}))
        w = native["RT"].get(lab)
        if w is None:
            problems.append("native output for RT %s missing" % lab)
            continue
        v["rt"].append((lab, {"secs": secs, "nanos": ns}, _opt_expect(w)))
    for lab, p in PARTS_VECTORS:
        w = native["FP"].get(lab)
        if w is None:
            problems.append("native output for FP %s missing" % lab)
            continue
        v["fp"].append((lab, dict(zip(PARTS, p)), _opt_expect(w)))
    byl = {lab: (secs, ns) for lab, secs, ns in ts}
    for a, b in MONO_PAIRS:
        if a in tpout and b in tpout:
            out = {n + "1": x for n, x in zip(PARTS, tpout[a])}
            out.update({n + "2": x for n, x in zip(PARTS, tpout[b])})
            v["mono"].append(("%s/%s" % (a, b), {"secs1": byl[a][0], "nanos1": byl[a][1], "secs2": byl[b][0], "nanos2": byl[b][1]},
                              {"panic": False, "out": out}))
    return v, problems, notes


# ---------------------------------------------------------------- properties

def _pre_ts(secs, nanos):
    return b_and(i_le(secs, MAX_SECS), i_le(nanos, MAX_NANOS))


def _lex_lt(a, b):
    """a <lex b for equal-length lists of int terms"""
    t = False
    for x, y in reversed(list(zip(a, b))):
        t = b_or(i_lt(x, y), b_and(i_eq(x, y), t))
    return t


def _any(ps):
    return b_or(*[p.guard for p in ps]) if ps else False


def _days_in_month_spec(S, y, m):
    """Gregorian days-in-month written from the calendar definition (independent of the code under test)."""
    _, r4 = S.floor_divmod(y, 4)
    _, r100 = S.floor_divmod(y, 100)
    _, r400 = S.floor_divmod(y, 400)
    leap = b_or(b_and(i_eq(r4, 0), b_not(i_eq(r100, 0))), i_eq(r400, 0))
    feb = smt.ite(leap, 29, 28)
    t = 31
    for mm, d in ((11, 30), (9, 30), (6, 30), (4, 30), (2, feb)):
        t = smt.ite(i_eq(m, mm), d, t)
    return t


RUST_HEAD = "use emit_core::timestamp::{Parts, Timestamp};\nuse std::time::Duration;\n\n"


def _rust_ts(name, secs, nanos):
    return ("    let %s = match Timestamp::from_unix(Duration::new(%d, %d)) { Some(t) => t, None => { println!(\"model input outside [MIN, MAX]: "
            "not a counterexample\"); return; } };\n" % (name, secs, nanos))


def obligations(encs, tier):
    obs = []
    bounds_ts = "every Timestamp in [MIN, MAX]: secs 0..=253402300799, nanos 0..=999999999 (no other bound)"

    # O1 / O2 on the to_parts encoding
    e = encs.get("tp")
    if e is not None:
        q1, q2 = [], []
        if not e.error:
            secs, nanos = e.inputs[0][1], e.inputs[1][1]
            pre = _pre_ts(secs, nanos)
            o = dict(e.outputs)
            q1 = [Query("O1_to_parts_panic_free", e, [pre, _any(e.panics())], fast_z3=True)]
            basic = b_and(in_range(o["years"], 1970, 9999), in_range(o["months"], 1, 12), in_range(o["days"], 1, 31),
                          i_le(o["hours"], 23), i_le(o["minutes"], 59), i_le(o["seconds"], 59), i_eq(o["nanos"], nanos),
                          i_le(0, o["hours"]), i_le(0, o["minutes"]), i_le(0, o["seconds"]))
            q2 = [Query("O2_field_ranges", e, [pre, e.ret_guard, b_not(basic)], fast_z3=True)]
            dim = _days_in_month_spec(e.S, o["years"], o["months"])
            q2.append(Query("O2_day_le_days_in_month", e, [pre, e.ret_guard, b_not(i_le(o["days"], dim))], fast_z3=False))

        def r1(m):
            return (RUST_HEAD + "fn main() {\n" + _rust_ts("ts", m["secs"], m["nanos"]) +
                    "    let p = ts.to_parts(); // panics here iff the violation reproduces\n    println!(\"{:?}\", p);\n}\n")

        def r2(m):
            return (RUST_HEAD + "fn main() {\n" + _rust_ts("ts", m["secs"], m["nanos"]) +
                    "    let p = ts.to_parts();\n"
                    "    let leap = (p.years % 4 == 0 && p.years % 100 != 0) || p.years % 400 == 0;\n"
                    "    let dim = match p.months { 4 | 6 | 9 | 11 => 30, 2 => if leap { 29 } else { 28 }, _ => 31 };\n"
                    "    assert!((1970..=9999).contains(&p.years) && (1..=12).contains(&p.months) && p.days >= 1 && p.days <= dim\n"
                    "        && p.hours <= 23 && p.minutes <= 59 && p.seconds <= 59 && p.nanos == ts.to_unix().subsec_nanos(),\n"
                    "        \"to_parts({:?}) out of calendar range: {:?}\", ts.to_unix(), p);\n}\n")

        obs.append(Obligation("O1_to_parts_panic_free", e, [FN_TP], bounds_ts + "; loop over DAYS_IN_MONTH unrolled 13x with unwinding obligation", q1, r1))
        obs.append(Obligation("O2_to_parts_field_ranges", e, [FN_TP], bounds_ts, q2, r2))

    # O3 round trip
    e = encs.get("rt")
    if e is not None:
        q = []
        if not e.error:
            secs, nanos = e.inputs[0][1], e.inputs[1][1]
            pre = _pre_ts(secs, nanos)
            o = dict(e.outputs)
            # thorough tier: z3 cannot do the whole range (> 900 s) but does a century in about a minute (README.md)
            century = 3155760000
            chunks = []
            lo = 0
            while lo <= MAX_SECS:
                hi = min(lo + century - 1, MAX_SECS)
                chunks.append(("secs %d..=%d" % (lo, hi), b_and(i_le(lo, secs), i_le(secs, hi))))
                lo = hi + 1
            q = [Query("O3_from_parts_panic_free_on_to_parts", e, [pre, _any(e.panics("from_parts"))], fast_z3=False),
                 Query("O3_round_trip", e, [pre, e.mid_guard,
                                            b_not(b_and(e.ret_guard, i_eq(o["some"], 1), i_eq(o["secs"], secs), i_eq(o["nanos"], nanos)))],
                       fast_z3=False, z3_chunks=chunks)]

        def r3(m):
            return (RUST_HEAD + "fn main() {\n" + _rust_ts("ts", m["secs"], m["nanos"]) +
                    "    let back = Timestamp::from_parts(ts.to_parts());\n"
                    "    assert_eq!(back, Some(ts), \"from_parts(to_parts(t)) != Some(t) for {:?}\", ts.to_unix());\n}\n")

        obs.append(Obligation("O3_round_trip", e, [FN_TP, FN_FP, "emit_core::timestamp::Timestamp::from_unix"], bounds_ts, q, r3))

    # O4 monotonicity
    e = encs.get("mono")
    if e is not None:
        q = []
        if not e.error:
            i = dict(e.inputs)
            pre = b_and(_pre_ts(i["secs1"], i["nanos1"]), _pre_ts(i["secs2"], i["nanos2"]))
            # split by (secs equal / secs differ); in the second case the six calendar fields alone must already be
            # strictly increasing (stronger than needed, and what makes text order = instant order)
            q = [Query("O4_mono_same_second", e, [pre, i_eq(i["secs1"], i["secs2"]), i_lt(i["nanos1"], i["nanos2"]), e.ret_guard,
                                                   b_not(_lex_lt(e.k1, e.k2))], fast_z3=False),
                 Query("O4_mono_secs_differ", e, [pre, i_lt(i["secs1"], i["secs2"]), e.ret_guard,
                                                  b_not(_lex_lt(e.k1[:6], e.k2[:6]))], fast_z3=False)]

        def r4(m):
            return (RUST_HEAD + "fn main() {\n" + _rust_ts("t1", m["secs1"], m["nanos1"]) + _rust_ts("t2", m["secs2"], m["nanos2"]) +
                    "    if !(t1 < t2) { println!(\"model does not satisfy t1 < t2: not a counterexample\"); return; }\n"
                    "    // Parts derives Ord: lexicographic (years, months, days, hours, minutes, seconds, nanos)\n"
                    "    assert!(t1.to_parts() < t2.to_parts(), \"to_parts not monotone: {:?} -> {:?}, {:?} -> {:?}\", t1.to_unix(), t1.to_parts(), t2.to_unix(), t2.to_parts());\n}\n")

        obs.append(Obligation("O4_to_parts_monotone", e, [FN_TP], bounds_ts + " (all pairs t1 < t2; two copies of the encoding)", q, r4))

    # O5 from_parts total on everything the parser can produce
    e = encs.get("fp")
    if e is not None:
        q = []
        if not e.error:
            i = dict(e.inputs)
            pre = b_and(i_le(i["years"], 9999), i_le(i["months"], 99), i_le(i["days"], 99), i_le(i["hours"], 99),
                        i_le(i["minutes"], 99), i_le(i["seconds"], 99), i_le(i["nanos"], MAX_NANOS))
            q = [Query("O5_from_parts_panic_free", e, [pre, _any(e.panics())], fast_z3=True)]

        def r5(m):
            return (RUST_HEAD + "fn main() {\n    let parts = Parts { years: %d, months: %d, days: %d, hours: %d, minutes: %d, seconds: %d, nanos: %d };\n"
                    "    let r = Timestamp::from_parts(parts); // panics here iff the violation reproduces\n"
                    "    println!(\"{:?}\", r.map(|t| t.to_unix()));\n}\n" % tuple(m[n] for n in PARTS))

        obs.append(Obligation("O5_from_parts_total_on_parser_range", e, [FN_FP, "emit_core::timestamp::Timestamp::from_unix"],
                              "every Parts the RFC 3339 parser can produce: years 0..=9999, months/days/hours/minutes/seconds 0..=99, nanos 0..=999999999",
                              q, r5))
    return obs
