"""C11 K4 arithmetic obligation on emit_file::rolling_millis (private fn of emitter/file/src/lib.rs).

Call contract (from the only call site, Worker::on_batch): `parts == ts.to_parts()`. The encoding therefore composes the
MIR of Timestamp::to_parts (emit_core) with the MIR of rolling_millis (emit_file), which inlines Parts::default,
Timestamp::from_parts, Timestamp::from_unix and Timestamp::duration_since (emit_core)."""
from . import Unsupported, smt, summaries
from .smt import b_and, b_or, b_not, i_eq, i_lt, i_le, in_range
from .symex import Executor, Agg, IntV, RefV, EnumV, duration
from .engine import Encoding, Query
from .driver import Obligation
from . import calendar_ob as cal

FILE = "emitter/file/src/lib.rs"
ROLL = ["Day", "Hour", "Minute"]          # declaration order of `enum RollBy` = discriminants 0, 1, 2
DAY_MS = 86_400_000

WRAPPER = '''
#[doc(hidden)]
#[allow(dead_code, missing_docs)]
pub mod __m2s_verif {
    // appended by /verif/mir2smt (add-only): calls the private fn with `parts == ts.to_parts()` as its only call site does
    pub fn rolling_millis(roll_by: &str, secs: u64, nanos: u32) -> u32 {
        let ts = emit::Timestamp::from_unix(std::time::Duration::new(secs, nanos)).expect("outside [MIN, MAX]");
        let roll_by = match roll_by {
            "Day" => super::RollBy::Day,
            "Hour" => super::RollBy::Hour,
            "Minute" => super::RollBy::Minute,
            _ => panic!("unknown RollBy"),
        };
        super::rolling_millis(roll_by, ts, ts.to_parts())
    }

    pub fn to_parts(secs: u64, nanos: u32) -> [u32; 5] {
        let p = emit::Timestamp::from_unix(std::time::Duration::new(secs, nanos)).expect("outside [MIN, MAX]").to_parts();
        [p.years as u32, p.months as u32, p.days as u32, p.hours as u32, p.minutes as u32]
    }
}
'''


def check_rollby(P):
    """The encoding fixes discriminants by declaration order; make sure the enum still is {Day, Hour, Minute}."""
    import os
    import re
    src = open(os.path.join(P.tree, FILE), encoding="utf-8").read()
    m = re.search(r"enum RollBy\s*\{([^}]*)\}", src)
    if not m:
        raise Unsupported("enum RollBy not found in %s" % FILE)
    names = [re.sub(r"//.*", "", x).strip() for x in m.group(1).split(",")]
    names = [re.sub(r"#\[[^\]]*\]", "", n).strip() for n in names if n.strip()]
    if names != ROLL:
        raise Unsupported("enum RollBy changed: %s" % names)


def build_encodings(P):
    encs = {}
    check_rollby(P)

    def mk(k, two=False):
        def build(e, ex):
            rm = P.find_free_fn("rolling_millis")
            outs = []
            ins = []
            g = True
            st = {}
            for c in (("1", "2") if two else ("",)):
                secs, nanos = cal._sym_ts(ex, c)
                parts, st, g = cal._run_to_parts(ex, P, secs, nanos, "ts" + c, "to_parts" + c, guard=g, store=st)
                ex.tag = "rolling_millis" + c
                ts = Agg("struct", "Timestamp", [duration(secs, nanos)])
                rv, st, g = ex.exec_body(rm, [EnumV("RollBy", k, {}), ts, parts], st, g)
                if not (isinstance(rv, IntV) and rv.ty == "u32"):
                    raise Unsupported("rolling_millis did not return u32")
                ins += [("secs" + c, secs), ("nanos" + c, nanos)]
                outs.append(("millis" + c, rv.t))
                e.__dict__["parts" + c] = [f.t for f in parts.fields]
            e.inputs, e.outputs, e.ret_guard = ins, outs, g
        return build

    for k, name in enumerate(ROLL):
        ex = Executor(P, summaries=summaries)
        e = Encoding("roll_" + name.lower(), ex)
        try:
            mk(k)(e, ex)
        except Unsupported as u:
            e.error = "unsupported MIR in encoding %s: %s" % (e.name, u)
        encs[e.name] = e
        ex = Executor(P, summaries=summaries)
        e = Encoding("roll2_" + name.lower(), ex)
        try:
            mk(k, two=True)(e, ex)
        except Unsupported as u:
            e.error = "unsupported MIR in encoding %s: %s" % (e.name, u)
        encs[e.name] = e
    return encs


def native_main():
    src = ["use emit_file::__m2s_verif as v;",
           "fn guard<F: FnOnce() -> String + std::panic::UnwindSafe>(f: F) -> String { match std::panic::catch_unwind(f) { Ok(s) => s, Err(_) => \"PANIC\".to_string() } }",
           "fn main() {", "    std::panic::set_hook(Box::new(|_| {}));"]
    for name in ROLL:
        for lab, secs, ns in cal.ts_vectors():
            src.append("    println!(\"RM %s %s %d %d {}\", guard(|| v::rolling_millis(\"%s\", %d, %d).to_string()));" % (name, lab, secs, ns, name, secs, ns))
    src.append("}")
    return "\n".join(src) + "\n"


def validation_vectors(stdout):
    v = {}
    rows = {}
    for ln in stdout.split("\n"):
        w = ln.split()
        if len(w) == 6 and w[0] == "RM":
            panic = w[5] == "PANIC"
            rows.setdefault(w[1], []).append((w[2], int(w[3]), int(w[4]), panic, None if panic else int(w[5])))
    problems = []
    for name in ROLL:
        r = rows.get(name, [])
        if len(r) < 9:
            problems.append("native validation program printed only %d vectors for RollBy::%s" % (len(r), name))
        v["roll_" + name.lower()] = [(lab, {"secs": s, "nanos": n}, {"panic": p, "out": {} if p else {"millis": m}}) for lab, s, n, p, m in r]
        pairs = []
        for a, b in zip(r, r[1:] + r[:1]):
            if a[3] or b[3]:
                continue
            pairs.append(("%s/%s" % (a[0], b[0]), {"secs1": a[1], "nanos1": a[2], "secs2": b[1], "nanos2": b[2]},
                          {"panic": False, "out": {"millis1": a[4], "millis2": b[4]}}))
        v["roll2_" + name.lower()] = pairs[:8]
    return v, problems


RUST_HEAD = "use emit_file::__m2s_verif as v;\n\n"


def obligations(encs):
    obs = []
    app = [(FILE, WRAPPER)]
    fns = ["emit_file::rolling_millis", cal.FN_TP, cal.FN_FP, "emit_core::timestamp::Timestamp::duration_since",
           "emit_core::timestamp::Parts::default"]
    for k, name in enumerate(ROLL):
        e = encs["roll_" + name.lower()]
        q = []
        if not e.error:
            i, o = dict(e.inputs), dict(e.outputs)
            pre = cal._pre_ts(i["secs"], i["nanos"])
            pan = e.panics("rolling_millis")
            q = [Query("O7_rolling_millis_%s_panic_free" % name, e, [pre, b_or(*[p.guard for p in pan]) if pan else False]),
                 Query("O7_rolling_millis_%s_lt_one_day" % name, e, [pre, e.ret_guard, b_not(in_range(o["millis"], 0, DAY_MS - 1))])]

        def r1(m, name=name):
            return (RUST_HEAD + "fn main() {\n    let ms = v::rolling_millis(\"%s\", %d, %d); // a panic (unwrap / overflow) here also reproduces\n"
                    "    assert!(ms < 86_400_000, \"rolling_millis = {} does not fit the 8-digit counter of a day\", ms);\n}\n" % (name, m["secs"], m["nanos"]))

        obs.append(Obligation("O7_rolling_millis_%s" % name.lower(), e, fns,
                              "RollBy::%s, every clock reading in [MIN, MAX] (secs 0..=253402300799, nanos 0..=999999999) with parts = ts.to_parts(): "
                              "no panic (both unwraps, casts, overflow checks), result < 86 400 000 (fits the 8-digit field of file_id)" % name,
                              q, r1, crate="emitter/file", default_features=True, append=app))
        e2 = encs["roll2_" + name.lower()]
        q = []
        if not e2.error:
            i, o = dict(e2.inputs), dict(e2.outputs)
            pre = b_and(cal._pre_ts(i["secs1"], i["nanos1"]), cal._pre_ts(i["secs2"], i["nanos2"]))
            nper = 3 + k     # fields that name the period: (Y, M, D) / + hours / + minutes
            same = b_and(*[i_eq(a, b) for a, b in zip(e2.parts1[:nper], e2.parts2[:nper])])
            le = b_or(i_lt(i["secs1"], i["secs2"]), b_and(i_eq(i["secs1"], i["secs2"]), i_le(i["nanos1"], i["nanos2"])))
            q = [Query("O7_rolling_millis_%s_monotone_in_period" % name, e2, [pre, e2.ret_guard, le, same, b_not(i_le(o["millis1"], o["millis2"]))])]

        def r2(m, name=name):
            n = 3 + ROLL.index(name)
            return (RUST_HEAD + "fn main() {\n    let (t1, t2) = ((%du64, %du32), (%du64, %du32));\n"
                    "    if !(t1 <= t2) || v::to_parts(t1.0, t1.1)[..%d] != v::to_parts(t2.0, t2.1)[..%d] { println!(\"not two ordered instants of one period: not a counterexample\"); return; }\n"
                    "    let (a, b) = (v::rolling_millis(\"%s\", t1.0, t1.1), v::rolling_millis(\"%s\", t2.0, t2.1));\n"
                    "    assert!(a <= b, \"rolling_millis decreases within one period: {} then {}\", a, b);\n}\n"
                    % (m["secs1"], m["nanos1"], m["secs2"], m["nanos2"], n, n, name, name))

        obs.append(Obligation("O7_rolling_millis_%s_monotone" % name.lower(), e2, fns,
                              "RollBy::%s, all pairs t1 <= t2 in [MIN, MAX] whose period fields of to_parts agree: rolling_millis(t1) <= rolling_millis(t2) "
                              "(two copies of the encoding)" % name, q, r2, crate="emitter/file", default_features=True, append=app))
    return obs
