"""C14 (dispatch part): `<OtlpInner as Emitter>::emit` sends an event through exactly one signal — the first CONFIGURED and
ACCEPTING one in the order metrics, traces, logs — and counts a discard iff there is none.

Free booleans of the abstraction: presence of the three optional signals (discriminants of the `Option` fields read through
`&self`) and the three encoders' answers (`encode_event` returned Some/None). Which events each encoder accepts is the
Kani side of C14 (hk_otlp), not this unit."""
import os
import re

from . import Unsupported, smt
from .smt import b_and, b_or, b_not, i_eq, ite
from . import cfgabs
from .cfg_driver import CfgObligation

ORDER = ["otlp_metrics", "otlp_traces", "otlp_logs"]
FN = "emit_otlp::client::<OtlpInner as Emitter>::emit"


FILE = "emitter/otlp/src/client.rs"

# appended to a second copy of the scratch tree for NATIVE replays only (add-only; reaches the private OtlpInner)
WRAPPER = r'''
#[doc(hidden)]
#[allow(dead_code, missing_docs)]
pub mod __m2s_dispatch {
    use super::*;
    use std::cell::Cell;

    struct QueueLen(Cell<usize>);
    impl emit::metric::sampler::Sampler for QueueLen {
        fn metric<P: emit::Props>(&self, metric: emit::metric::Metric<P>) {
            if metric.name() == "queue_length" {
                self.0.set(metric.value().by_ref().cast::<usize>().expect("queue_length is a number"));
            }
        }
    }

    fn pending(src: &emit_batcher::ChannelMetrics<Channel>) -> usize {
        use emit::metric::Source as _;
        let q = QueueLen(Cell::new(usize::MAX));
        src.sample_metrics(&q);
        q.0.get()
    }

    /// The real `OtlpInner` with the signals of `cfg` configured (1 metrics, 2 traces, 4 logs; every receiver kept alive, no
    /// worker), one event of `kind` emitted through it:
    /// 0 plain, 1 metric kind + numeric value, 2 metric kind + text value, 3 span kind + range extent, 4 span kind + point extent,
    /// 5 metric kind without a value. Returns [items pending for metrics, traces, logs, discard counter].
    pub fn run(cfg: u8, kind: u8) -> [usize; 4] {
        use emit::Emitter as _;
        let (ms, _mr) = emit_batcher::bounded::<Channel>(16);
        let (ts, _tr) = emit_batcher::bounded::<Channel>(16);
        let (ls, _lr) = emit_batcher::bounded::<Channel>(16);
        let (msrc, tsrc, lsrc) = (ms.metric_source(), ts.metric_source(), ls.metric_source());
        let metrics = Arc::new(InternalMetrics::default());
        let inner = OtlpInner {
            otlp_logs: if cfg & 4 != 0 { Some((ClientEventEncoder::new(Encoding::Json, LogsEventEncoder::default()), ls)) } else { None },
            otlp_traces: if cfg & 2 != 0 { Some((ClientEventEncoder::new(Encoding::Json, TracesEventEncoder::default()), ts)) } else { None },
            otlp_metrics: if cfg & 1 != 0 { Some((ClientEventEncoder::new(Encoding::Json, MetricsEventEncoder::default()), ms)) } else { None },
            metrics: metrics.clone(),
            _handle: thread::spawn(|| {}),
        };
        let t0 = emit::Timestamp::from_unix(Duration::from_secs(1)).unwrap();
        let t1 = emit::Timestamp::from_unix(Duration::from_secs(2)).unwrap();
        let (k_metric, k_span) = (emit::Kind::Metric, emit::Kind::Span);
        let mdl = emit::Path::new_raw("m");
        let tpl = emit::Template::literal("t");
        match kind {
            0 => inner.emit(emit::Event::new(mdl, tpl, emit::Extent::point(t1), [("a", emit::Value::from(1))])),
            1 => inner.emit(emit::Event::new(mdl, tpl, emit::Extent::point(t1), [
                ("evt_kind", emit::Value::capture_display(&k_metric)), ("metric_name", emit::Value::from("n")),
                ("metric_agg", emit::Value::from("count")), ("metric_value", emit::Value::from(3))])),
            2 => inner.emit(emit::Event::new(mdl, tpl, emit::Extent::point(t1), [
                ("evt_kind", emit::Value::capture_display(&k_metric)), ("metric_name", emit::Value::from("n")),
                ("metric_agg", emit::Value::from("count")), ("metric_value", emit::Value::from("three"))])),
            3 => inner.emit(emit::Event::new(mdl, tpl, emit::Extent::range(t0..t1), [
                ("evt_kind", emit::Value::capture_display(&k_span)), ("span_name", emit::Value::from("s"))])),
            4 => inner.emit(emit::Event::new(mdl, tpl, emit::Extent::point(t1), [
                ("evt_kind", emit::Value::capture_display(&k_span)), ("span_name", emit::Value::from("s"))])),
            _ => inner.emit(emit::Event::new(mdl, tpl, emit::Extent::point(t1), [
                ("evt_kind", emit::Value::capture_display(&k_metric)), ("metric_name", emit::Value::from("n")),
                ("metric_agg", emit::Value::from("count")), ("a", emit::Value::from(1))])),
        }
        let out = [pending(&msrc), pending(&tsrc), pending(&lsrc), metrics.event_discarded.sample()];
        std::mem::forget(inner);
        out
    }
}
'''

DISPATCH_TABLE = r'''use emit_otlp::__m2s_dispatch as v;

fn main() {
    // C14: an event is exported through exactly one signal - metric samples (metric kind with a numeric value) through metrics, spans (span
    // kind with a range extent) through traces, everything else (incl. metric / span kinds that do not qualify or whose signal is not
    // configured) through logs; if no configured signal can take it, it is dropped and the discard counter increases by one.
    let names = ["plain", "metric sample", "metric kind, text value", "span", "span kind, point extent", "metric kind, no value"];
    let mut bad = Vec::new();
    for cfg in 0u8..8 {
        for kind in 0u8..6 {
            let got = v::run(cfg, kind);
            let (m, t, l) = (cfg & 1 != 0, cfg & 2 != 0, cfg & 4 != 0);
            let want = if kind == 1 && m { [1, 0, 0, 0] } else if kind == 3 && t { [0, 1, 0, 0] } else if l { [0, 0, 1, 0] } else { [0, 0, 0, 1] };
            if got != want {
                bad.push(format!("{} with metrics={} traces={} logs={}: [metrics, traces, logs, discarded] = {:?}, expected {:?}", names[kind as usize], m, t, l, got, want));
            }
        }
    }
    println!("48 (configuration, event) combinations through the real OtlpInner::emit: {} wrong", bad.len());
    assert!(bad.is_empty(), "{} combination(s) not exported through exactly the right signal; first: {}", bad.len(), bad[0]);
}
'''


def _or(xs):
    return b_or(*xs) if xs else False


def discard_field_index(P):
    """The discard counter is field 0 of InternalMetrics only if `event_discarded` is the first metric of the macro call."""
    p = os.path.join(P.tree, "emitter/otlp/src/internal_metrics.rs")
    src = re.sub(r"/\*.*?\*/", "", open(p, encoding="utf-8").read(), flags=re.S)
    m = re.search(r"metrics:\s*InternalMetrics\s*\{(.*?)\}", src, re.S)
    if not m:
        raise Unsupported("metrics!(.. InternalMetrics {..}) not found in emitter/otlp/src/internal_metrics.rs")
    names = re.findall(r"([a-z_0-9]+)\s*:\s*\w+\s*->", m.group(1))
    if "event_discarded" not in names:
        raise Unsupported("no event_discarded metric")
    return names.index("event_discarded")


def build(P):
    body = P.find_fn("OtlpInner", "emit", "Emitter")
    return cfgabs.Abstraction(P, body, name="OtlpInner_emit")


def obligations(P, A, native_for=None):
    checks = []
    didx = discard_field_index(P)
    cfg, enc, send = {}, {}, {}
    for s in ORDER:
        c = [e for e in A.effects if e.kind == "discr" and re.search(r"\(OtlpInner\)\.%s$" % s, e.dest or "") and e.stable]
        en = A.calls(r"^ClientEventEncoder::encode_event$", 0, r"\(OtlpInner\)\.%s as Some\.0\.0$" % s)
        se = A.calls(r"^Sender::send$", 0, r"\(OtlpInner\)\.%s as Some\.0\.1$" % s)
        checks.append(("anchor: exactly one presence test, one encode_event and one send for self.%s (%d, %d, %d)" % (s, len(c), len(en), len(se)),
                       len(c) == 1 and len(en) == 1 and len(se) == 1))
        if len(c) == 1 and len(en) == 1 and len(se) == 1:
            cfg[s], enc[s], send[s] = c[0], en[0], se[0]
            checks.append(("the item sent through self.%s is built from the value self.%s's encoder returned" % (s, s),
                           len(se[0].argv) == 2 and se[0].argv[1][1] == en[0].id))
    all_send = A.calls(r"(^|::)send$") + A.calls(r"try_send|send_or_wait|blocking_send")
    checks.append(("no other send-like call in emit (%s)" % [e.name for e in all_send if e not in send.values()][:3],
                   all(e in send.values() for e in all_send)))
    inc = A.calls(r"^Counter::increment(_by)?$")
    disc = [e for e in inc if re.search(r"^_\d+\.%d$" % didx, e.args[0] or "")]
    # the counter's container must be the deref of self.metrics
    ok_container = False
    if len(disc) == 1:
        m = re.match(r"^_(\d+)\.", disc[0].args[0])
        d = A._defs.get(int(m.group(1)), [])
        if len(d) == 1 and d[0][0] == "call":
            t = A.body.blocks[d[0][1]].term
            ok_container = "Deref" in t[2] and re.search(r"\(OtlpInner\)\.metrics$", A.opath(t[3][0]) or "") is not None
    checks.append(("anchor: exactly one Counter::increment in emit, on field %d (= event_discarded, first metric of the macro call) of "
                   "*self.metrics (%s)" % (didx, [e.args for e in inc]), len(inc) == 1 and len(disc) == 1 and ok_container))
    checks.append(("no indirect call in emit", not [e for e in A.effects if e.kind == "call" and e.method == "<indirect>"]))
    rets = A.returns
    checks.append(("emit has a return", len(rets) > 0))
    fb = None
    if native_for is not None:
        # `emit` no longer has the shape the extractor anchors on (one presence test + encode_event + send per signal): the departure
        # is a CANDIDATE; replayed as a table of all 8 configurations x 6 event kinds through the real OtlpInner
        def fb(ctx, problems):
            from .cfg_driver import native_verdict
            return native_verdict(ctx, "E2_dispatch_exactly_one_first_configured_accepting", native_for(), DISPATCH_TABLE, "emitter/otlp",
                                  [(FILE, WRAPPER)], default_features=True,
                                  note="the MIR of <OtlpInner as Emitter>::emit is not the recognised dispatch chain (%s); candidate: some event is "
                                       "not exported through exactly the right signal; replayed natively: 8 configurations x 6 event kinds "
                                       "through the real OtlpInner (senders from emit_batcher::bounded, receivers kept alive, no worker)"
                                       % "; ".join(problems)[:240])
    if not all(ok for _, ok in checks):
        return [CfgObligation("E2_dispatch_exactly_one_first_configured_accepting", [A], [FN], "", [], [], [], static_checks=checks,
                              fallback=fb)]
    d = disc[0]
    conf = lambda s: i_eq(cfg[s].val[0], 1)
    took = lambda s: b_and(enc[s].guard, i_eq(enc[s].out, 1))          # consulted and accepted
    declined = lambda s: b_or(b_not(conf(s)), b_and(enc[s].guard, i_eq(enc[s].out, 0)))   # not configured, or consulted and declined
    exits = [send[s] for s in ORDER] + [d]
    n_exits = "(+ 0 0 %s)" % " ".join(smt.lit(ite(e.guard, 1, 0)) for e in exits)
    must = [("exactly_one_of_send_or_discard_on_every_returning_path", A, [_or([b_and(r.guard, "(not (= %s 1))" % n_exits) for r in rets])])]
    for i, s in enumerate(ORDER):
        must.append(("send_%s_only_if_configured_accepting_and_earlier_signals_declined" % s.split("_")[1], A,
                     [b_and(send[s].guard, b_not(b_and(conf(s), took(s), *[declined(p) for p in ORDER[:i]])))]))
        must.append(("encoder_%s_consulted_only_if_configured" % s.split("_")[1], A, [b_and(enc[s].guard, b_not(conf(s)))]))
    must.append(("discard_iff_no_configured_signal_accepts", A, [b_and(d.guard, b_not(b_and(*[declined(p) for p in ORDER])))]))
    wit = [("path_send_%s" % s.split("_")[1], A, [_or([b_and(r.guard, send[s].guard) for r in rets])]) for s in ORDER]
    wit.append(("path_discard", A, [_or([b_and(r.guard, d.guard) for r in rets])]))
    wit.append(("path_metrics_configured_declines_logs_takes", A,
                [_or([b_and(r.guard, conf("otlp_metrics"), enc["otlp_metrics"].guard, i_eq(enc["otlp_metrics"].out, 0), send["otlp_logs"].guard) for r in rets])]))
    false = [("FALSE_never_discards", A, [d.guard]),
             ("FALSE_logs_only_when_traces_unconfigured", A, [b_and(send["otlp_logs"].guard, conf("otlp_traces"))])]
    bounds = ("all abstract paths of the MIR of <OtlpInner as Emitter>::emit (loop-free, 24 blocks): the presence of the three optional signals and the "
              "three encoders' answers are free booleans (all 8 configurations x all answers); panicking callees end a path")
    return [CfgObligation("E2_dispatch_exactly_one_first_configured_accepting", [A], [FN], bounds, must, wit, false, static_checks=checks)]
