"""C14 (dispatch part): `<OtlpInner as Emitter>::emit` sends an event through exactly one signal — the first CONFIGURED and
ACCEPTING one in the order metrics, traces, logs — and counts a discard iff there is none.

Free booleans of the abstraction: presence of the three optional signals (discriminants of the `Option` fields read through
`&self`) and the three encoders' answers (`encode_event` returned Some/None). Which events each encoder accepts is the
Kani side of C14 (hk_otlp), not this unit."""
import os
import re

from . import Unsupported, smt
from .smt import b_and, b_or, b_not, i_eq, ite
from . import cfgabs
from .cfg_driver import CfgObligation

ORDER = ["otlp_metrics", "otlp_traces", "otlp_logs"]
FN = "emit_otlp::client::<OtlpInner as Emitter>::emit"


def _or(xs):
    return b_or(*xs) if xs else False


def discard_field_index(P):
    """The discard counter is field 0 of InternalMetrics only if `event_discarded` is the first metric of the macro call."""
    p = os.path.join(P.tree, "emitter/otlp/src/internal_metrics.rs")
    src = re.sub(r"/\*.*?\*/", "", open(p, encoding="utf-8").read(), flags=re.S)
    m = re.search(r"metrics:\s*InternalMetrics\s*\{(.*?)\}", src, re.S)
    if not m:
        raise Unsupported("metrics!(.. InternalMetrics {..}) not found in emitter/otlp/src/internal_metrics.rs")
    names = re.findall(r"([a-z_0-9]+)\s*:\s*\w+\s*->", m.group(1))
    if "event_discarded" not in names:
        raise Unsupported("no event_discarded metric")
    return names.index("event_discarded")


def build(P):
    body = P.find_fn("OtlpInner", "emit", "Emitter")
    return cfgabs.Abstraction(P, body, name="OtlpInner_emit")


def obligations(P, A):
    checks = []
    didx = discard_field_index(P)
    cfg, enc, send = {}, {}, {}
    for s in ORDER:
        c = [e for e in A.effects if e.kind == "discr" and re.search(r"\(OtlpInner\)\.%s$" % s, e.dest or "") and e.stable]
        en = A.calls(r"^ClientEventEncoder::encode_event$", 0, r"\(OtlpInner\)\.%s as Some\.0\.0$" % s)
        se = A.calls(r"^Sender::send$", 0, r"\(OtlpInner\)\.%s as Some\.0\.1$" % s)
        checks.append(("anchor: exactly one presence test, one encode_event and one send for self.%s (%d, %d, %d)" % (s, len(c), len(en), len(se)),
                       len(c) == 1 and len(en) == 1 and len(se) == 1))
        if len(c) == 1 and len(en) == 1 and len(se) == 1:
            cfg[s], enc[s], send[s] = c[0], en[0], se[0]
            checks.append(("the item sent through self.%s is built from the value self.%s's encoder returned" % (s, s),
                           len(se[0].argv) == 2 and se[0].argv[1][1] == en[0].id))
    all_send = A.calls(r"(^|::)send$") + A.calls(r"try_send|send_or_wait|blocking_send")
    checks.append(("no other send-like call in emit (%s)" % [e.name for e in all_send if e not in send.values()][:3],
                   all(e in send.values() for e in all_send)))
    inc = A.calls(r"^Counter::increment(_by)?$")
    disc = [e for e in inc if re.search(r"^_\d+\.%d$" % didx, e.args[0] or "")]
    # the counter's container must be the deref of self.metrics
    ok_container = False
    if len(disc) == 1:
        m = re.match(r"^_(\d+)\.", disc[0].args[0])
        d = A._defs.get(int(m.group(1)), [])
        if len(d) == 1 and d[0][0] == "call":
            t = A.body.blocks[d[0][1]].term
            ok_container = "Deref" in t[2] and re.search(r"\(OtlpInner\)\.metrics$", A.opath(t[3][0]) or "") is not None
    checks.append(("anchor: exactly one Counter::increment in emit, on field %d (= event_discarded, first metric of the macro call) of "
                   "*self.metrics (%s)" % (didx, [e.args for e in inc]), len(inc) == 1 and len(disc) == 1 and ok_container))
    checks.append(("no indirect call in emit", not [e for e in A.effects if e.kind == "call" and e.method == "<indirect>"]))
    rets = A.returns
    checks.append(("emit has a return", len(rets) > 0))
    if not all(ok for _, ok in checks):
        return [CfgObligation("E2_dispatch_exactly_one_first_configured_accepting", [A], [FN], "", [], [], [], static_checks=checks)]
    d = disc[0]
    conf = lambda s: i_eq(cfg[s].val[0], 1)
    took = lambda s: b_and(enc[s].guard, i_eq(enc[s].out, 1))          # consulted and accepted
    declined = lambda s: b_or(b_not(conf(s)), b_and(enc[s].guard, i_eq(enc[s].out, 0)))   # not configured, or consulted and declined
    exits = [send[s] for s in ORDER] + [d]
    n_exits = "(+ 0 0 %s)" % " ".join(smt.lit(ite(e.guard, 1, 0)) for e in exits)
    must = [("exactly_one_of_send_or_discard_on_every_returning_path", A, [_or([b_and(r.guard, "(not (= %s 1))" % n_exits) for r in rets])])]
    for i, s in enumerate(ORDER):
        must.append(("send_%s_only_if_configured_accepting_and_earlier_signals_declined" % s.split("_")[1], A,
                     [b_and(send[s].guard, b_not(b_and(conf(s), took(s), *[declined(p) for p in ORDER[:i]])))]))
        must.append(("encoder_%s_consulted_only_if_configured" % s.split("_")[1], A, [b_and(enc[s].guard, b_not(conf(s)))]))
    must.append(("discard_iff_no_configured_signal_accepts", A, [b_and(d.guard, b_not(b_and(*[declined(p) for p in ORDER])))]))
    wit = [("path_send_%s" % s.split("_")[1], A, [_or([b_and(r.guard, send[s].guard) for r in rets])]) for s in ORDER]
    wit.append(("path_discard", A, [_or([b_and(r.guard, d.guard) for r in rets])]))
    wit.append(("path_metrics_configured_declines_logs_takes", A,
                [_or([b_and(r.guard, conf("otlp_metrics"), enc["otlp_metrics"].guard, i_eq(enc["otlp_metrics"].out, 0), send["otlp_logs"].guard) for r in rets])]))
    false = [("FALSE_never_discards", A, [d.guard]),
             ("FALSE_logs_only_when_traces_unconfigured", A, [b_and(send["otlp_logs"].guard, conf("otlp_traces"))])]
    bounds = ("all abstract paths of the MIR of <OtlpInner as Emitter>::emit (loop-free, 24 blocks): the presence of the three optional signals and the "
              "three encoders' answers are free booleans (all 8 configurations x all answers); panicking callees end a path")
    return [CfgObligation("E2_dispatch_exactly_one_first_configured_accepting", [A], [FN], bounds, must, wit, false, static_checks=checks)]
