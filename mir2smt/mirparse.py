"""Parser for the text printed by `rustc -Zunpretty=mir`.

Only the constructs listed in README.md are given structure; everything else is kept as an
('unsupported', text) node so that the symbolic executor can fail closed exactly when such a
node is on an executed path."""
import re

BINOPS = {
    "Add", "Sub", "Mul", "Div", "Rem", "BitXor", "BitAnd", "BitOr", "Shl", "Shr",
    "Eq", "Lt", "Le", "Ne", "Ge", "Gt", "Cmp", "Offset",
    "AddWithOverflow", "SubWithOverflow", "MulWithOverflow",
    "AddUnchecked", "SubUnchecked", "MulUnchecked", "ShlUnchecked", "ShrUnchecked",
}
UNOPS = {"Not", "Neg", "PtrMetadata"}
IGNORED_STMT = re.compile(
    r"^(StorageLive|StorageDead|FakeRead|PlaceMention|AscribeUserType|Retag|Coverage|BackwardIncompatibleDropHint)\(|^(nop|ConstEvalCounter)$")


class ParseError(Exception):
    pass


class Block:
    __slots__ = ("idx", "cleanup", "stmts", "term")

    def __init__(self, idx, cleanup):
        self.idx, self.cleanup, self.stmts, self.term = idx, cleanup, [], None


class Body:
    def __init__(self, kind, name, crate):
        self.kind = kind          # fn | const | static
        self.name = name          # raw printed name
        self.crate = crate
        self.params = []          # [(local, type)]
        self.ret_ty = None
        self.locals = {}          # local -> type string
        self.blocks = {}          # idx -> Block
        self.const_operand = None  # one-line consts: `const X: usize = const 12_usize;`
        self.debug = {}           # debug name -> place text (`debug file => _2;`)
        self.line = 0
        self.n_lines = 0
        # filled by Program.index()
        self.self_ty = None
        self.trait = None
        self.norm = None          # normalised path (impl blocks replaced by the self type)

    def __repr__(self):
        return "<%s %s>" % (self.kind, self.name)


# ---------------------------------------------------------------- low level scanning

def split_top(s, sep=","):
    """Split at `sep` outside of () [] {} <> and string literals."""
    out, depth, i, start, n = [], 0, 0, 0, len(s)
    while i < n:
        c = s[i]
        if c == '"':
            i += 1
            while i < n and s[i] != '"':
                if s[i] == "\\":
                    i += 1
                i += 1
        elif c in "([{":
            depth += 1
        elif c in ")]}":
            depth -= 1
        elif c == "<":
            depth += 1
        elif c == ">":
            if i > 0 and s[i - 1] in "-=":
                pass
            else:
                depth -= 1
        elif c == sep and depth == 0:
            out.append(s[start:i].strip())
            start = i + 1
        i += 1
    tail = s[start:].strip()
    if tail:
        out.append(tail)
    return out


def match_close(s, i):
    """s[i] is an opening ( [ {; return index of the matching closer (only () [] {} and strings are tracked)."""
    depth, n = 0, len(s)
    while i < n:
        c = s[i]
        if c == '"':
            i += 1
            while i < n and s[i] != '"':
                if s[i] == "\\":
                    i += 1
                i += 1
        elif c in "([{":
            depth += 1
        elif c in ")]}":
            depth -= 1
            if depth == 0:
                return i
        i += 1
    raise ParseError("unbalanced: %r" % s[:80])


# ---------------------------------------------------------------- places / operands / rvalues

def parse_place_at(s, i):
    n = len(s)
    if i < n and s[i] == "_":
        m = re.compile(r"_(\d+)").match(s, i)
        if not m:
            raise ParseError("place: %r" % s[i:i + 40])
        p = ("local", int(m.group(1)))
        i = m.end()
    elif i < n and s[i] == "(":
        if s.startswith("(*", i):
            inner, j = parse_place_at(s, i + 2)
            if j >= n or s[j] != ")":
                raise ParseError("deref place: %r" % s[i:i + 60])
            p = ("deref", inner)
            i = j + 1
        else:
            inner, j = parse_place_at(s, i + 1)
            if s.startswith(" as ", j):
                k = s.index(")", j)
                p = ("downcast", inner, s[j + 4:k].strip())
                i = k + 1
            elif j < n and s[j] == ".":
                m = re.compile(r"\.(\d+): ").match(s, j)
                if not m:
                    raise ParseError("field place: %r" % s[i:i + 60])
                close = match_close(s, i)
                p = ("field", inner, int(m.group(1)), s[m.end():close].strip())
                i = close + 1
            else:
                raise ParseError("place: %r" % s[i:i + 60])
    else:
        raise ParseError("place: %r" % s[i:i + 60])
    # suffixes
    while i < n and s[i] == "[":
        close = match_close(s, i)
        inner = s[i + 1:close].strip()
        m = re.fullmatch(r"_(\d+)", inner)
        if m:
            p = ("index", p, int(m.group(1)))
        else:
            m = re.fullmatch(r"(-?)(\d+) of (\d+)", inner)
            if not m:
                raise ParseError("index projection: %r" % inner)
            p = ("cindex", p, int(m.group(2)), m.group(1) == "-")
        i = close + 1
    return p, i


def parse_place(s):
    s = s.strip()
    p, i = parse_place_at(s, 0)
    if i != len(s):
        raise ParseError("trailing text after place: %r" % s)
    return p


def parse_operand(s):
    s = s.strip()
    if s.startswith("copy "):
        return ("copy", parse_place(s[5:]))
    if s.startswith("move "):
        return ("move", parse_place(s[5:]))
    if s.startswith("const "):
        return ("const", s[6:].strip())
    raise ParseError("operand: %r" % s[:80])


def _try_operand(s):
    try:
        return parse_operand(s)
    except ParseError:
        return None


def parse_rvalue(s):
    s = s.strip()
    try:
        return _parse_rvalue(s)
    except ParseError as e:
        return ("unsupported", "%s  [%s]" % (s, e))


def _parse_rvalue(s):
    if s.startswith("no_retag "):
        # `no_retag copy <place>`: a copy of a reference without a retag; same value as the plain copy
        s = s[9:]
    # cast:  <operand> as <type> (<Kind>)
    if s.startswith(("copy ", "move ", "const ")):
        m = re.match(r"^(.*) as (.+) \(([A-Za-z]+(?:\(.*\))?)\)$", s)
        if m and _try_operand(m.group(1)) is not None:
            return ("cast", parse_operand(m.group(1)), m.group(2).strip(), m.group(3))
        return ("use", parse_operand(s))
    if s.startswith("&"):
        rest = s[1:]
        mutbl = False
        for pre, mu in (("raw const ", False), ("raw mut ", True), ("mut ", True), ("fake shallow ", False), ("fake ", False)):
            if rest.startswith(pre):
                rest, mutbl = rest[len(pre):], mu
                break
        # lifetimes are not printed in this dump
        return ("ref", mutbl, parse_place(rest))
    if s == "()":
        return ("tuple", [])
    if s.startswith("["):
        close = match_close(s, 0)
        if close != len(s) - 1:
            raise ParseError("array rvalue")
        inner = s[1:close]
        parts = split_top(inner, ";")
        if len(parts) == 2:
            return ("repeat", parse_operand(parts[0]), parts[1].strip())
        return ("array", [parse_operand(x) for x in split_top(inner)])
    if s.startswith("("):
        close = match_close(s, 0)
        if close == len(s) - 1:
            return ("tuple", [parse_operand(x) for x in split_top(s[1:close])])
        raise ParseError("tuple rvalue")
    m = re.match(r"^([A-Za-z]+)\((.*)\)$", s)
    if m and m.group(1) in BINOPS:
        a = split_top(m.group(2))
        if len(a) != 2:
            raise ParseError("binop arity")
        return ("binop", m.group(1), parse_operand(a[0]), parse_operand(a[1]))
    if m and m.group(1) in UNOPS:
        return ("unop", m.group(1), parse_operand(m.group(2)))
    if m and m.group(1) == "discriminant":
        return ("discr", parse_place(m.group(2)))
    if m and m.group(1) == "Len":
        return ("len", parse_place(m.group(2)))
    # aggregates:  Path { f: op, .. }  |  Path(op, ..)  |  Path   (unit variant / unit struct)
    if s.endswith("}") and " {" in s:
        i = s.index(" {")
        close = match_close(s, i + 1)
        if close == len(s) - 1:
            fields = []
            for f in split_top(s[i + 2:close]):
                k = f.index(": ")
                fields.append((f[:k].strip(), parse_operand(f[k + 2:])))
            return ("adt", s[:i].strip(), fields)
    if s.endswith(")"):
        # last top-level paren group
        depth, i = 0, len(s) - 1
        while i >= 0:
            if s[i] == ")":
                depth += 1
            elif s[i] == "(":
                depth -= 1
                if depth == 0:
                    break
            i -= 1
        name = s[:i].strip()
        if re.match(r"^[A-Za-z_<]", name) and "(" not in name.split("<")[0]:
            return ("adt", name, [(None, parse_operand(x)) for x in split_top(s[i + 1:-1])])
    if re.match(r"^[A-Za-z_<][\w:<>, &'\[\];]*$", s):
        return ("adt", s, [])
    raise ParseError("rvalue")


# ---------------------------------------------------------------- statements / terminators

def _bb(s):
    m = re.fullmatch(r"bb(\d+)", s.strip())
    if not m:
        raise ParseError("block ref %r" % s)
    return int(m.group(1))


def _targets(s):
    """`[return: bb1, unwind continue]` -> dict"""
    s = s.strip()
    out = {}
    if s.startswith("["):
        for part in split_top(s[1:-1]):
            if ": " in part:
                k, v = part.split(": ", 1)
                out[k.strip()] = v.strip()
            else:
                k = part.split(" ", 1)
                out[k[0]] = k[1] if len(k) > 1 else ""
    else:
        # `-> bb3` or `-> unwind continue`
        if s.startswith("bb"):
            out["return"] = s
        else:
            k = s.split(" ", 1)
            out[k[0]] = k[1] if len(k) > 1 else ""
    return out


def split_assign(s):
    """Index of the top-level ' = ' of an assignment, or -1."""
    depth, i, n = 0, 0, len(s)
    while i < n:
        c = s[i]
        if c == '"':
            return -1
        if c in "([{":
            depth += 1
        elif c in ")]}":
            depth -= 1
        elif depth == 0 and s.startswith(" = ", i):
            return i
        i += 1
    return -1


def find_arrow(s):
    """Index of the top-level ' -> ' of a terminator (outside parens and strings), or -1 (last one)."""
    depth, i, n, found = 0, 0, len(s), -1
    while i < n:
        c = s[i]
        if c == '"':
            i += 1
            while i < n and s[i] != '"':
                if s[i] == "\\":
                    i += 1
                i += 1
        elif c in "([{":
            depth += 1
        elif c in ")]}":
            depth -= 1
        elif depth == 0 and s.startswith(" -> ", i):
            found = i
        i += 1
    return found


def parse_statement(s):
    """Returns ('stmt', node) or ('term', node)."""
    try:
        return _parse_statement(s)
    except ParseError as e:
        return ("stmt", ("unsupported", "%s  [%s]" % (s, e)))


def _parse_statement(s):
    if IGNORED_STMT.match(s):
        return ("stmt", ("nop",))
    if s == "return":
        return ("term", ("return",))
    if s == "unreachable":
        return ("term", ("unreachable",))
    if s in ("resume", "abort") or s.startswith("terminate("):
        return ("term", ("diverge", s))
    if s.startswith("goto -> "):
        return ("term", ("goto", _bb(s[8:])))
    if s.startswith("switchInt("):
        close = match_close(s, 9)
        op = parse_operand(s[10:close])
        rest = s[close + 1:].strip()
        if not rest.startswith("-> ["):
            raise ParseError("switchInt targets")
        arms, otherwise = [], None
        for part in split_top(rest[4:-1]):
            k, v = part.split(": ", 1)
            if k.strip() == "otherwise":
                otherwise = _bb(v)
            else:
                arms.append((int(k.strip()), _bb(v)))
        return ("term", ("switch", op, arms, otherwise))
    if s.startswith("assert("):
        close = match_close(s, 6)
        args = split_top(s[7:close])
        cond = args[0]
        neg = cond.startswith("!")
        if neg:
            cond = cond[1:]
        msg = args[1] if len(args) > 1 else ""
        t = _targets(s[close + 1:].strip()[3:])
        if "success" not in t:
            raise ParseError("assert without success target")
        return ("term", ("assert", parse_operand(cond), neg, msg.strip('"'), _bb(t["success"])))
    if s.startswith("drop("):
        close = match_close(s, 4)
        t = _targets(s[close + 1:].strip()[3:])
        return ("term", ("drop", parse_place(s[5:close]), _bb(t["return"]) if "return" in t else None))
    if s.startswith(("yield(", "falseEdge", "falseUnwind", "asm!", "tailcall ", "become ")):
        return ("term", ("unsupported", s))
    arrow = find_arrow(s)
    eq = split_assign(s)
    if arrow >= 0 and s.rstrip().endswith((")", "]", "continue", "unreachable", "terminate(abi)", "terminate(cleanup)")) \
            and re.search(r"\)\s*$", s[:arrow]):
        # call:  [place = ] callee(args) -> targets
        head = s[:arrow]
        dest = None
        if eq >= 0 and eq < arrow:
            dest = parse_place(head[:eq])
            head = head[eq + 3:]
        head = head.strip()
        # last top-level paren group
        depth, i = 0, len(head) - 1
        while i >= 0:
            if head[i] == ")":
                depth += 1
            elif head[i] == "(":
                depth -= 1
                if depth == 0:
                    break
            i -= 1
        if i <= 0:
            raise ParseError("call head")
        callee = head[:i].strip()
        args = [parse_operand(a) for a in split_top(head[i + 1:-1])]
        t = _targets(s[arrow + 4:])
        ret = _bb(t["return"]) if t.get("return", "").startswith("bb") else None
        return ("term", ("call", dest, callee, args, ret))
    if eq >= 0:
        return ("stmt", ("assign", parse_place(s[:eq]), parse_rvalue(s[eq + 3:])))
    if s.startswith(("Deinit(", "discriminant(", "Assume(", "assume(", "copy_nonoverlapping(")):
        return ("stmt", ("unsupported", s))
    raise ParseError("statement")


# ---------------------------------------------------------------- whole dump

HEAD_FN = re.compile(r"^fn (.*)$")
HEAD_CONST = re.compile(r"^(const|static(?: mut)?) (.*)$")


def _parse_fn_header(line, body):
    # fn NAME(PARAMS) -> RET {
    rest = line[3:]
    depth = 0
    i = 0
    while i < len(rest):
        c = rest[i]
        if c == "<":
            depth += 1
        elif c == ">" and not (i > 0 and rest[i - 1] == "-"):
            depth -= 1
        elif c == "(" and depth == 0:
            break
        i += 1
    if i >= len(rest):
        raise ParseError("fn header: %r" % line[:120])
    body.name = rest[:i].strip()
    close = match_close(rest, i)
    for p in split_top(rest[i + 1:close]):
        m = re.match(r"^_(\d+): (.*)$", p)
        if m:
            body.params.append((int(m.group(1)), m.group(2).strip()))
    tail = rest[close + 1:].strip()
    m = re.match(r"^-> (.*) \{$", tail)
    body.ret_ty = m.group(1).strip() if m else "()"


def parse_dump(text, crate):
    """Parse one `-Zunpretty=mir` dump. Returns list of Body."""
    lines = text.split("\n")
    bodies = []
    i, n = 0, len(lines)
    while i < n:
        line = lines[i]
        if not line or line.startswith("//") or line[0] == " ":
            i += 1
            continue
        mfn = HEAD_FN.match(line)
        mco = HEAD_CONST.match(line)
        if not (mfn or mco):
            # alloc sections and anything else at top level: skip to the closing brace if it opens one
            if line.rstrip().endswith("{"):
                while i < n and lines[i] != "}":
                    i += 1
            i += 1
            continue
        if mfn:
            body = Body("fn", None, crate)
            body.line = i + 1
            try:
                _parse_fn_header(line, body)
            except ParseError:
                body = None
        else:
            body = Body("const" if mco.group(1) == "const" else "static", None, crate)
            body.line = i + 1
            rest = mco.group(2)
            # NAME: TYPE = {      |   NAME: TYPE = const 12_usize;
            k = rest.rfind(" = ")
            head, init = rest[:k], rest[k + 3:]
            # name ends at the first ": " outside <> [] ()
            depth, j = 0, 0
            while j < len(head):
                c = head[j]
                if c in "<([":
                    depth += 1
                elif c in ")]" or (c == ">" and head[j - 1] != "-"):
                    depth -= 1
                elif depth == 0 and head.startswith(": ", j) and not head.startswith(":: ", j - 1):
                    break
                j += 1
            body.name = head[:j].strip()
            body.ret_ty = head[j + 2:].strip()
            if init.strip() != "{":
                body.const_operand = init.strip().rstrip(";").strip()
                bodies.append(body)
                i += 1
                continue
        # body lines up to the closing "}" in column 0
        start = i
        i += 1
        cur = None
        while i < n and lines[i] != "}":
            raw = lines[i]
            s = raw.strip()
            i += 1
            if body is None or not s or s.startswith("//"):
                continue
            if cur is None:
                m = re.match(r"^debug (\S+) => (.*);$", s)
                if m:
                    body.debug[m.group(1)] = m.group(2).strip()
                    continue
                m = re.match(r"^let (?:mut )?_(\d+): (.*);$", s)
                if m:
                    body.locals[int(m.group(1))] = m.group(2).strip()
                    continue
                m = re.match(r"^bb(\d+)( \(cleanup\))?: \{$", s)
                if m:
                    cur = Block(int(m.group(1)), bool(m.group(2)))
                    body.blocks[cur.idx] = cur
                continue
            if s == "}":
                if cur.term is None:
                    cur.term = ("unsupported", "block without terminator")
                cur = None
                continue
            # strip trailing ';' and trailing comment
            k = s.find("; //")
            if k >= 0:
                s = s[:k + 1]
            if s.endswith(";"):
                s = s[:-1]
            kind, node = parse_statement(s)
            if kind == "stmt":
                if cur.term is not None:
                    cur.term = ("unsupported", "statement after terminator")
                cur.stmts.append(node)
            else:
                cur.term = node
        if body is not None:
            body.n_lines = i - start
            for l, t in body.params:
                body.locals.setdefault(l, t)
            bodies.append(body)
        i += 1
    return bodies
