"""C12 (connection replacement): `emit_otlp::client::http::HttpConnection::send` puts the cached hyper sender back
(`unpoison`) ONLY after the request on it succeeded, so a connection on which a request failed - or whose request was
cancelled by the timeout while suspended - is dropped and the next request connects afresh ("a broken connection is
replaced by a fresh one").

hyper / tokio cannot be executed by any engine here. What is decided is the control-flow obligation, with E2-cfg
(cfgabs.py) over the *pre-coroutine* MIR of the `async` block inside `send` (`-Zdump-mir=... StateTransform.before`:
one body, await points visible as `Future::poll` + `yield`), calls uninterpreted:

  p1  on every abstract path, `HttpConnection::unpoison` is executed only after the `Try::branch` (`?`) on the value
      produced by polling the future `send_request(..)` returned - and that value was `Ok`;
  p2  `HttpConnection::poison` (take) is the first call and precedes every use of the sender; `connect` is executed only
      if `poison` returned `None`, and every path that reaches `send_request` after `poison` returned `None` went through
      `connect` and its `Ok` result; the sender handed to `send_request` / `unpoison` is the taken or the connected one;
  p3  at most one `unpoison` per path; none on a path that ends in cancellation (future dropped at an await point)
      or in an `Err` return produced before the response was obtained.

Await points: `_x = yield(..) -> [resume: bbR, drop: bbD]` is rewritten (text level, before parsing) into a call of the
pseudo function `VerifAwait::cancelled_while_suspended()` whose free boolean result selects bbR (resumed) or bbD (the
future is dropped while suspended - what `tokio::time::timeout` does when the deadline passes); `coroutine_drop`
becomes a call of `VerifAwait::coroutine_dropped()` followed by `return`. Hence every abstract path either returns a
value or ends cancelled at one of the await points; both kinds are covered by the obligations.

The bodies of `poison` / `unpoison` themselves (one line each: `lock().unwrap().take()`, `*lock().unwrap() = Some(..)`)
and every other user of the `sender` field are checked structurally on the crate's ordinary MIR dump.
A counter-path is a CANDIDATE only (no native concretisation through hyper exists): reported inconclusive (exit 2)."""
import os
import re
import subprocess
import time

from . import Unsupported, smt, engine
from .smt import b_and, b_or, b_not, i_eq, ite
from . import cfgabs
from .mirparse import parse_dump
from .cfg_driver import CfgObligation

FN = "emit_otlp::client::http::HttpConnection::send::{async fn body}::{async block}"
NAME = "E2cfg_http_connection_replaced_after_failure"
CRATE_DIR = "emitter/otlp"
FILTER = "send & StateTransform"


# ---------------------------------------------------------------- MIR acquisition

def dump_mir_with_coroutines(tree, target, dump_dir, timeout=900, log=None):
    """One rustc invocation: the ordinary `-Zunpretty=mir` text on stdout (as engine.dump_mir) plus the per-pass dumps of
    the bodies whose path contains `send` around the coroutine state transform (files in dump_dir)."""
    cmd = ["cargo", "+nightly", "rustc", "--offline", "--lib", "--",
           "-Zunpretty=mir", "-Zdump-mir=" + FILTER, "-Zdump-mir-dir=" + dump_dir,
           "-C", "debug-assertions=off", "-C", "overflow-checks=on"]
    env = engine._env(target)
    env["CARGO_INCREMENTAL"] = "0"      # a cached optimized_mir would skip the passes and with them the dump
    t0 = time.time()
    try:
        r = subprocess.run(cmd, cwd=os.path.join(tree, CRATE_DIR), env=env, capture_output=True, text=True, timeout=timeout)
    except subprocess.TimeoutExpired:
        raise engine.EngineError("MIR dump of %s timed out" % CRATE_DIR)
    if log:
        with open(log, "w") as f:
            f.write(r.stderr[-20000:])
    if r.returncode != 0 or "bb0: {" not in r.stdout:
        raise engine.EngineError("MIR dump of %s failed (rc=%d): %s" % (CRATE_DIR, r.returncode, r.stderr[-600:]))
    return r.stdout, time.time() - t0


def coroutine_dumps(dump_dir):
    """{MIR item path: text} of every `*.StateTransform.before.mir` file."""
    out = {}
    if not os.path.isdir(dump_dir):
        return out
    for f in sorted(os.listdir(dump_dir)):
        if not f.endswith(".StateTransform.before.mir"):
            continue
        txt = open(os.path.join(dump_dir, f), encoding="utf-8", errors="replace").read()
        m = re.search(r"^// MIR for `(.*)` before StateTransform", txt, re.M)
        if m:
            out.setdefault(m.group(1), txt)
    return out


def preprocess_coroutine_mir(text):
    """Text-level rewriting of a pre-StateTransform dump into the dialect mirparse reads (see module doc)."""
    text = re.sub(r"^(fn [^\n]*)\nyields [^\n]*\n \{$", r"\1 {", text, flags=re.M)
    text = text.replace(" no_retag copy ", " copy ").replace(" no_retag move ", " move ")
    blocks = [int(x) for x in re.findall(r"^    bb(\d+)(?: \(cleanup\))?: \{$", text, re.M)]
    locs = [int(x) for x in re.findall(r"^    let (?:mut )?_(\d+):", text, re.M)] + [int(x) for x in re.findall(r"\b_(\d+): ", text[:text.find("\n")])]
    nb, nl = max(blocks) + 1, max(locs + [0]) + 1
    new_blocks, new_locals = [], []

    def on_yield(m):
        nonlocal nb, nl
        c, s = nl, nb
        nl, nb = nl + 1, nb + 1
        new_locals.append("    let mut _%d: bool;" % c)
        new_blocks.append("    bb%d: {\n        switchInt(move _%d) -> [0: %s, otherwise: %s];\n    }\n" % (s, c, m.group(3), m.group(4)))
        return "%s_%d = VerifAwait::cancelled_while_suspended() -> [return: bb%d, unwind continue];" % (m.group(1), c, s)

    text = re.sub(r"^(\s*)_\d+ = yield\((.*)\) -> \[resume: (bb\d+), drop: (bb\d+)\];$", on_yield, text, flags=re.M)

    def on_drop(m):
        nonlocal nb, nl
        c, s = nl, nb
        nl, nb = nl + 1, nb + 1
        new_locals.append("    let mut _%d: ();" % c)
        new_blocks.append("    bb%d: {\n        return;\n    }\n" % s)
        return "%s_%d = VerifAwait::coroutine_dropped() -> [return: bb%d, unwind continue];" % (m.group(1), c, s)

    text = re.sub(r"^(\s*)coroutine_drop;$", on_drop, text, flags=re.M)
    if new_locals:
        text = re.sub(r"^    bb0: \{$", "\n".join(new_locals) + "\n    bb0: {", text, count=1, flags=re.M)
    if new_blocks:
        k = text.rfind("\n}")
        text = text[:k] + "\n\n" + "\n".join(new_blocks) + text[k:]
    return text


def load_async_block(P, dumps):
    """The body of the async block in HttpConnection::send that takes / puts back the sender: found by content (the
    pre-coroutine body under `..::send::{closure#0}::..` of an impl of HttpConnection that calls HttpConnection::poison)."""
    cands = []
    for path, txt in dumps.items():
        if "::send::{closure#0}" not in path:
            continue
        if re.search(r"\bHttpConnection::(poison|unpoison)\(", txt):
            cands.append((path, txt))
    if len(cands) != 1:
        raise Unsupported("expected exactly one pre-coroutine body under ..::send::{closure#0} calling HttpConnection::poison/unpoison, "
                          "found %d (%s)" % (len(cands), [p for p, _ in cands][:4]))
    path, txt = cands[0]
    bs = [b for b in parse_dump(preprocess_coroutine_mir(txt), "emit_otlp") if b.kind == "fn"]
    if len(bs) != 1:
        raise Unsupported("pre-coroutine dump of %s does not parse to one body (%d)" % (path, len(bs)))
    b = bs[0]
    P._normalise(b)
    return path, b


# ---------------------------------------------------------------- abstraction + obligations

def build(P, dumps):
    path, body = load_async_block(P, dumps)
    A = cfgabs.Abstraction(P, body, name="HttpConnection_send")
    A.mir_path = path
    return A


def _or(xs):
    xs = list(xs)
    return b_or(*xs) if xs else False


def _org_in(org, effects):
    """term: provenance `org` is one of the given effects"""
    if isinstance(org, int):
        return any(org == e.id for e in effects)
    return _or(i_eq(org, e.id) for e in effects)


def _fn_chunks(text):
    """[(header line, chunk text)] of an -Zunpretty=mir dump"""
    out = []
    for m in re.finditer(r"^fn ([^\n]*)\n(.*?)^\}$", text, re.M | re.S):
        out.append((m.group(1), m.group(2)))
    return out


def sender_field_index(P):
    """Index of the field `sender` in `struct HttpConnection` (read from the scratch tree; cfgabs names fields from the source
    too, but its splitter miscounts after a field whose type contains `->`)."""
    src = open(os.path.join(P.tree, CRATE_DIR, "src/client/http.rs"), encoding="utf-8").read()
    src = re.sub(r"/\*.*?\*/", "", src, flags=re.S)
    src = re.sub(r"//[^\n]*", "", src)
    m = re.search(r"\bstruct HttpConnection\s*\{", src)
    if not m:
        raise Unsupported("struct HttpConnection not found in client/http.rs")
    depth, i = 1, m.end()
    while i < len(src) and depth:
        depth += {"{": 1, "}": -1}.get(src[i], 0)
        i += 1
    body = src[m.end():i - 1].replace("->", "  ")
    names, d, cur = [], 0, ""
    for ch in body:
        if ch in "<([{":
            d += 1
        elif ch in ">)]}":
            d -= 1
        if ch == "," and d == 0:
            names.append(cur)
            cur = ""
        else:
            cur += ch
    names.append(cur)
    fields = []
    for n in names:
        mm = re.search(r"([A-Za-z_][A-Za-z0-9_]*)\s*:", re.sub(r"#\[[^\]]*\]", "", n))
        if mm:
            fields.append(mm.group(1))
    if fields.count("sender") != 1:
        raise Unsupported("struct HttpConnection has no unique field `sender` (%s)" % fields)
    return fields.index("sender")


def helper_checks(P, crate_mir):
    """Structural facts about the two helpers and the `sender` field, on the ordinary MIR of the crate."""
    checks = []
    try:
        sidx = sender_field_index(P)
    except Unsupported as e:
        return [(str(e), False)]
    slot = r"deref_mut\(unwrap\(lock\(_1(\(HttpConnection\))?\.(sender|%d)\)\)\)" % sidx
    # -- poison: returns Option::take(&mut *self.sender.lock().unwrap())
    try:
        pb = P.find_fn("HttpConnection", "poison")
        Pa = cfgabs.Abstraction(P, pb, name="HttpConnection_poison")
        take = Pa.calls(r"^Option::take$")
        d = Pa.derive(take[0].ops[0]) if len(take) == 1 else "?"
        ok = (len(take) == 1 and not Pa.problems and re.fullmatch(slot, d) is not None
              and len(Pa.returns) == 1 and take[0].dest == "_0")
        checks.append(("HttpConnection::poison returns Option::take of the locked `sender` slot (%s)" % d, ok))
    except Exception as e:
        checks.append(("HttpConnection::poison found and analysable (%s)" % e, False))
    # -- unpoison: exactly one store, `*self.sender.lock().unwrap() = Some(sender)`
    try:
        ub = P.find_fn("HttpConnection", "unpoison")
        Ua = cfgabs.Abstraction(P, ub, watch_assign=[r".*"], name="HttpConnection_unpoison")
        st = [e for e in Ua.effects if e.kind == "assign"]
        d = "?"
        ok = False
        if len(st) == 1 and not Ua.problems:
            blk = ub.blocks[st[0].blk]
            asg = [s for s in blk.stmts if s[0] == "assign" and s[1][0] != "local"]
            if len(asg) == 1 and asg[0][1][0] == "deref":
                d = Ua.derive(("copy", asg[0][1][1]))
            some = [s for b in ub.blocks.values() if not b.cleanup for s in b.stmts
                    if s[0] == "assign" and s[2][0] == "adt" and re.search(r"Option::<.*>::Some$|Option::Some$", re.sub(r"\s", "", s[2][1]))
                    and len(s[2][2]) == 1 and s[2][2][0][1][0] in ("copy", "move") and s[2][2][0][1][1] == ("local", 2)]
            ok = (re.fullmatch(slot, d) is not None and st[0].val[0] == 1 and len(some) == 1)
        checks.append(("HttpConnection::unpoison has exactly one store: `*sender.lock().unwrap() = Some(<its argument>)` (%s, %d stores)" % (d, len(st)), ok))
    except Exception as e:
        checks.append(("HttpConnection::unpoison found and analysable (%s)" % e, False))
    # -- who else touches the slot / calls the helpers (whole crate, final MIR)
    chunks = _fn_chunks(crate_mir)
    users = sorted(set(h.split("(")[0] for h, c in chunks
                       if re.search(r"\.%d: std::sync::Mutex<std::option::Option<client::http::HttpSender>>\)" % sidx, c)
                       or re.search(r"\.\d+: std::sync::Mutex<std::option::Option<client::http::HttpSender>>\)", c)))
    checks.append(("the `sender` slot (Mutex<Option<HttpSender>>) is projected only inside poison / unpoison (%s)" % [u[-40:] for u in users],
                   len(users) == 2 and all(re.search(r"::(poison|unpoison)$", u) for u in users)))
    for helper in ("poison", "unpoison"):
        callers = [h.split("(")[0] for h, c in chunks for _ in re.finditer(r"\bHttpConnection::%s\(" % helper, c)]
        checks.append(("HttpConnection::%s has exactly one call site in the crate, inside send's async block (%s)" % (helper, [c[-60:] for c in callers]),
                       len(callers) == 1 and re.search(r"::send::\{closure#0\}::\{closure#0\}$", callers[0]) is not None))
    return checks


def obligations(P, A, crate_mir, native_for=None):
    checks = list(helper_checks(P, crate_mir))
    calls = [e for e in A.effects if e.kind == "call"]
    poison = A.calls(r"^HttpConnection::poison$")
    unpoison = A.calls(r"^HttpConnection::unpoison$")
    connect = A.calls(r"^connect$")
    sendreq = A.calls(r"^send_request$")
    checks.append(("anchor: exactly one poison, unpoison, connect and send_request call in the async block (%d, %d, %d, %d)"
                   % (len(poison), len(unpoison), len(connect), len(sendreq)),
                   len(poison) == 1 and len(unpoison) == 1 and len(connect) == 1 and len(sendreq) == 1))
    checks.append(("no indirect call through a local (only the boxed request/response callbacks, which are `<Box as Fn>::call`)",
                   not [e for e in calls if e.method == "<indirect>"]))
    inner = cfgabs.nested_closures(P, A.body)
    checks.append(("the async block has a return and at least one cancellation exit", len(A.returns) >= 2))
    if not all(ok for _, ok in checks):
        return [CfgObligation(NAME, [A], [FN], "", [], [], [], static_checks=checks)]
    poison, unpoison, connect, sendreq = poison[0], unpoison[0], connect[0], sendreq[0]

    # await points: poll calls by the static provenance of the future they poll
    def polls_of(what):
        out = []
        for e in A.calls(r"^<.* as Future>::poll$"):
            d = A.derive(e.ops[0])
            if re.match(r"^new_unchecked\(into_future\(%s\(" % what, d):
                out.append(e)
        return out

    connect_polls, send_polls = polls_of("connect"), polls_of("send_request")
    all_polls = A.calls(r"^<.* as Future>::poll$")
    checks.append(("anchor: the polls of the futures returned by connect(..) and send_request(..) are identified (%d, %d of %d polls)"
                   % (len(connect_polls), len(send_polls), len(all_polls)), len(connect_polls) >= 1 and len(send_polls) >= 1))
    branches = A.calls(r"^<Result as Try>::branch$")
    suspends = A.calls(r"^VerifAwait::cancelled_while_suspended$")
    dropped = A.calls(r"^VerifAwait::coroutine_dropped$")
    checks.append(("anchor: await points rewritten (%d suspension effects, %d coroutine_drop exits)" % (len(suspends), len(dropped)),
                   len(suspends) >= 3 and len(dropped) == 1))
    # p2 (static part): poison is the first call of the body
    checks.append(("p2: HttpConnection::poison is executed before every other call of the body",
                   all(A.before(poison, e) for e in calls if e is not poison)))
    # the sender local: what poison's payload / connect's value are moved into, and who receives it
    sender_path = unpoison.args[1] if len(unpoison.args) == 2 else None
    recv = [e for e in calls if sender_path and sender_path in e.args and not getattr(e, "transparent", False)]
    checks.append(("the sender local %s is handed only to send_request (by &mut) and to unpoison (by move) (%s)" % (sender_path, [e.name for e in recv]),
                   sender_path is not None and set(id(e) for e in recv) == set([id(sendreq), id(unpoison)])
                   and len(sendreq.args) >= 2 and sendreq.args[1] == sender_path))
    for c in inner:
        txt = " ".join(str(b.term) for b in c.blocks.values() if b.term)
        checks.append(("closure %s nested in the async block does not touch the sender slot" % c.name[-30:],
                       "poison" not in txt and "HttpSender" not in txt))
    if not all(ok for _, ok in checks):
        return [CfgObligation(NAME, [A], [FN], "", [], [], [], static_checks=checks)]

    ok_from = lambda polls: (lambda b: b_and(i_eq(b.out, 0), _org_in(b.org, polls)))
    rets = [r for r in A.returns]
    cancelled = dropped[0].guard
    sender_org_u = unpoison.argv[1][1]
    sender_org_s = sendreq.argv[1][1]
    legit = lambda org: b_or(b_and(i_eq(org, poison.id) if not isinstance(org, int) else org == poison.id, i_eq(poison.out, 1)),
                             b_and(_org_in(org, branches), i_eq(poison.out, 0)))
    # provenance of the connected sender: payload of the Continue value of the `?` on connect's result
    conn_branches = [b for b in branches if A.before(b, sendreq) and b.id < sendreq.id]
    must = [
        # p1
        ("p1_unpoison_only_after_send_request_returned_ok", A,
         [b_and(unpoison.guard, b_not(A.some_before(unpoison, branches, ok_from(send_polls))))]),
        ("p1_no_unpoison_when_send_request_failed", A,
         [b_and(unpoison.guard, _or(b_and(b.guard, i_eq(b.out, 1), _org_in(b.org, send_polls)) for b in branches))]),
        # p2
        ("p2_connect_only_if_poison_returned_none", A, [b_and(connect.guard, b_not(i_eq(poison.out, 0)))]),
        ("p2_send_request_after_none_only_through_connect_ok", A,
         [b_and(sendreq.guard, i_eq(poison.out, 0),
                b_not(b_and(connect.guard, A.some_before(sendreq, branches, ok_from(connect_polls)))))]),
        ("p2_no_connect_when_a_sender_was_cached", A, [b_and(sendreq.guard, i_eq(poison.out, 1), connect.guard)]),
        ("p2_sender_sent_on_is_the_taken_or_the_connected_one", A,
         [b_and(sendreq.guard, b_not(b_or(b_and(i_eq(sender_org_s, poison.id), i_eq(poison.out, 1)),
                                          b_and(_org_in(sender_org_s, connect_polls), i_eq(poison.out, 0)))))]),
        ("p2_sender_put_back_is_the_one_sent_on", A,
         [b_and(unpoison.guard, b_not(b_or(b_and(i_eq(sender_org_u, poison.id), i_eq(poison.out, 1)),
                                           b_and(_org_in(sender_org_u, connect_polls), i_eq(poison.out, 0)))))]),
        # p3
        ("p3_at_most_one_unpoison_per_path", A,
         ["(> (+ 0 0 %s) 1)" % " ".join(smt.lit(ite(e.guard, 1, 0)) for e in A.calls(r"unpoison"))]),
        ("p3_no_unpoison_on_a_path_cancelled_before_the_response", A,
         [b_and(unpoison.guard, _or(b_and(s.guard, i_eq(s.out, 1)) for s in suspends if A.before(s, unpoison)))]),
        ("p3_err_before_the_response_returns_without_unpoison", A,
         [_or(b_and(r.guard, unpoison.guard, b_not(A.some_before(unpoison, branches, ok_from(send_polls)))) for r in rets)]),
    ]
    some_ret = lambda *c: [_or(b_and(r.guard, b_not(cancelled), *c) for r in rets)]
    # witnesses: paths of each kind exist in the abstraction (non-vacuity). They deliberately do NOT contain the obligations
    # themselves (order of unpoison and `?`, sender dropped), so that they also hold on a tree that violates p1..p3 and the
    # counter-path can then be concretised.
    send_ok = _or(b_and(b.guard, i_eq(b.out, 0), _org_in(b.org, send_polls)) for b in branches)
    send_err = _or(b_and(b.guard, i_eq(b.out, 1), _org_in(b.org, send_polls)) for b in branches)
    wit = [
        ("path_cached_sender_request_ok_put_back", A, some_ret(i_eq(poison.out, 1), b_not(connect.guard), unpoison.guard, send_ok)),
        ("path_no_sender_connect_ok_request_ok_put_back", A, some_ret(i_eq(poison.out, 0), connect.guard, unpoison.guard, send_ok)),
        ("path_request_failed_returns", A, some_ret(sendreq.guard, send_err)),
        ("path_connect_failed_nothing_sent", A, some_ret(connect.guard, b_not(sendreq.guard))),
        ("path_cancelled_while_request_in_flight", A, [b_and(cancelled, sendreq.guard)]),
    ]
    false = [
        ("FALSE_unpoison_never_executed", A, [unpoison.guard]),
        ("FALSE_always_connects", A, [b_and(sendreq.guard, b_not(connect.guard))]),
        ("FALSE_unpoison_on_every_returning_path", A, some_ret(b_not(unpoison.guard))),
    ]
    bounds = ("all abstract paths of the pre-coroutine MIR of the async block in HttpConnection::send (%s): at most %d Pending results per "
              "await point (connect, send_request, response), a free choice 'resumed / future dropped while suspended' at every "
              "suspension, the results of connect / send_request / the request and response callbacks / gzip free; panicking callees "
              "end a path; what hyper does with a sender is not modelled" % (A.stats(), A.K))
    return [CfgObligation(NAME, [A], [FN, "emit_otlp::client::http::HttpConnection::poison", "emit_otlp::client::http::HttpConnection::unpoison"],
                          bounds, must, wit, false, concretise=make_concretise(native_for), static_checks=checks)]


# ---------------------------------------------------------------- native concretisation of a counter-path

# add-only wrappers appended to a copy of the scratch tree: ONE real `HttpConnection` (HTTP/1, no compression, the same
# request / response callbacks `OtlpTransportBuilder::build` installs for Protocol::Http) driven on a current-thread tokio
# runtime, as the emit_otlp worker does. No logic of the code under test.
WRAPPER_HTTP = r'''
#[doc(hidden)]
#[allow(dead_code, missing_docs)]
pub(crate) mod __m2s_conn {
    use super::*;

    /// `n` requests, one after the other, through ONE HttpConnection to `url`; `pause_ms` between them. true = Ok.
    pub(crate) fn send_n(url: &str, n: usize, pause_ms: u64) -> Vec<bool> {
        use crate::data::RawEncoder as _;
        let metrics = Arc::new(InternalMetrics::default());
        let conn = HttpConnection::http1(
            metrics,
            url,
            false,
            Vec::new(),
            |req| Ok(req),
            |res| async move {
                let status = res.http_status();
                if status >= 200 && status < 300 {
                    Ok(vec![])
                } else {
                    Err(Error::msg(format_args!("OTLP HTTP server responded {status}")))
                }
            },
        )
        .expect("valid url");
        let rt = tokio::runtime::Builder::new_current_thread().enable_all().build().unwrap();
        rt.block_on(async {
            let mut out = Vec::new();
            for _ in 0..n {
                let body = crate::data::Json::encode("request");
                out.push(conn.send(body, Duration::from_secs(3)).await.is_ok());
                tokio::time::sleep(Duration::from_millis(pause_ms)).await;
            }
            out
        })
    }
}
'''
WRAPPER_CLIENT = r'''
#[doc(hidden)]
#[allow(unused_imports)]
pub(crate) use self::http::__m2s_conn;
'''
WRAPPER_LIB = r'''
#[doc(hidden)]
#[allow(missing_docs)]
pub mod __m2s_http {
    pub fn send_n(url: &str, n: usize, pause_ms: u64) -> Vec<bool> {
        crate::client::__m2s_conn::send_n(url, n, pause_ms)
    }
}
'''
APPEND = [("emitter/otlp/src/client/http.rs", WRAPPER_HTTP), ("emitter/otlp/src/client.rs", WRAPPER_CLIENT),
          ("emitter/otlp/src/lib.rs", WRAPPER_LIB)]

# A scripted local collector (std only): acknowledges ONE request on the first connection with 200 and then closes that
# connection; every later connection is served normally. Then 4 requests through one real HttpConnection.
# Oracle = the property's clause "a broken connection is replaced by a fresh one": once the established connection is
# broken a request may fail, but the request AFTER a failed one must go out on a fresh connection and be acknowledged.
NATIVE_MAIN = r'''use std::io::{Read, Write};
use std::net::{TcpListener, TcpStream};
use std::sync::atomic::{AtomicUsize, Ordering};
use std::sync::Arc;

fn read_request(stream: &mut TcpStream) -> Option<usize> {
    let mut buf = Vec::new();
    let mut byte = [0u8; 1];
    while !buf.ends_with(b"\r\n\r\n") {
        match stream.read(&mut byte) {
            Ok(1) => buf.push(byte[0]),
            _ => return None,
        }
    }
    let head = String::from_utf8_lossy(&buf).to_ascii_lowercase();
    let len: usize = head.lines().find_map(|l| l.strip_prefix("content-length:")).map(|v| v.trim().parse().unwrap()).unwrap_or(0);
    let mut body = vec![0u8; len];
    stream.read_exact(&mut body).ok()?;
    Some(len)
}

fn main() {
    let listener = TcpListener::bind("127.0.0.1:0").unwrap();
    let addr = listener.local_addr().unwrap();
    let connections = Arc::new(AtomicUsize::new(0));
    let acked = Arc::new(AtomicUsize::new(0));
    {
        let (connections, acked) = (connections.clone(), acked.clone());
        std::thread::spawn(move || {
            for stream in listener.incoming() {
                let Ok(mut stream) = stream else { continue };
                let idx = connections.fetch_add(1, Ordering::SeqCst);
                let acked = acked.clone();
                std::thread::spawn(move || {
                    while read_request(&mut stream).is_some() {
                        if stream.write_all(b"HTTP/1.1 200 OK\r\ncontent-length: 0\r\n\r\n").is_err() {
                            return;
                        }
                        let _ = stream.flush();
                        acked.fetch_add(1, Ordering::SeqCst);
                        if idx == 0 {
                            // the collector drops the established connection after one acknowledged request
                            let _ = stream.shutdown(std::net::Shutdown::Both);
                            return;
                        }
                    }
                });
            }
        });
    }
    let results = emit_otlp::__m2s_http::send_n(&format!("http://{addr}/v1/logs"), 4, 300);
    let conns = connections.load(Ordering::SeqCst);
    println!("requests ok = {:?}, connections opened = {}, acknowledged = {}", results, conns, acked.load(Ordering::SeqCst));
    assert!(results[0], "the first request (healthy collector) failed");
    for i in 1..results.len() {
        assert!(results[i - 1] || results[i],
                "C12: request {} failed on the broken connection and request {} failed again: the broken connection was not replaced by a fresh one (connections opened = {})",
                i - 1, i, conns);
    }
    if results.iter().any(|ok| !ok) {
        assert!(conns >= 2, "C12: a request failed but no fresh connection was ever opened");
    }
}
'''


def make_concretise(native_for):
    """Concretisation for the class of counter-paths on which `unpoison` runs although the request on that sender did not
    (yet) succeed: the scripted collector breaks the established connection, so the sender that is put back is dead."""
    from .cfg_driver import native_verdict

    def concretise(ctx, qname, cand):
        labels = [c["effect"] for c in cand]
        has_unpoison = any("HttpConnection::unpoison" in l for l in labels)
        if not has_unpoison or not re.search(r"\.(p1_|p3_err_before|p3_no_unpoison_on_a_path_cancelled)", qname):
            return "inconclusive", "abstract counter-path for %s (%d effects); candidate only, no concretisation for this class" % (qname, len(cand))
        if native_for is None:
            return "inconclusive", "abstract counter-path for %s; no native crate available" % qname
        note = ("abstract counter-path (%s): HttpConnection::unpoison executed without an earlier Ok from `?` on send_request's result; "
                "concretised as: scripted collector acknowledges one request, closes the connection, serves later connections normally; "
                "4 requests through one real HttpConnection" % qname.split(".")[-1])
        return native_verdict(ctx, NAME, native_for(), NATIVE_MAIN, CRATE_DIR, APPEND, features=(), default_features=False, note=note)

    return concretise
