"""C20: emit_core::runtime::AmbientSlot::{init, get, is_enabled} (core, feature std).

(1) structural obligations on the MIR (cfgabs): the only operations on the shared `OnceLock` are one `set` then - on its Ok
    branch only - one `get` in `init`, and one `get` in `get` / `is_enabled`; `init` returns Some only where `set` returned Ok;
    the value handed to `set` is completely built before the call.
(2) a small interleaving model in SMT with `OnceLock` as an atomic write-once cell (its documented contract: TRUSTED BASE):
    <= 3 initialiser threads running `set; [get]` and <= 3 observer threads running `get`, every interleaving of these atomic
    operations."""
import re

from . import Unsupported, smt
from .smt import b_and, b_or, b_not, i_eq, i_ne, i_lt, i_le, ite
from . import cfgabs
from .cfg_driver import CfgObligation

LOCK = r"\(AmbientSlot\)\.0$"
FNS = ["emit_core::runtime::AmbientSlot::init", "emit_core::runtime::AmbientSlot::get", "emit_core::runtime::AmbientSlot::is_enabled"]


def _or(xs):
    return b_or(*xs) if xs else False


def build(P):
    out = {}
    for m in ("init", "get", "is_enabled"):
        out[m] = cfgabs.Abstraction(P, P.find_fn("AmbientSlot", m), name="AmbientSlot_" + m)
    return out


def structural(P, abs_):
    obs = []
    A = abs_["init"]
    checks = []
    lock_ops = [e for e in A.effects if e.kind == "call" and any(re.search(LOCK, a or "") for a in e.args)]
    sets = A.calls(r"^OnceLock::set$", 0, LOCK)
    gets = A.calls(r"^OnceLock::get$", 0, LOCK)
    checks.append(("init: the OnceLock field is passed to exactly one `set` and one `get` call site and to nothing else (%s)" %
                   [e.name for e in lock_ops], len(sets) == 1 and len(gets) == 1 and len(lock_ops) == 2))
    checks.append(("init: no indirect call", not [e for e in A.effects if e.kind == "call" and e.method == "<indirect>"]))
    checks.append(("init has a return", len(A.returns) > 0))
    must, wit, false = [], [], []
    if all(ok for _, ok in checks):
        s, g = sets[0], gets[0]
        # the value handed to set: a local with exactly one definition, an `AmbientSync { value, runtime }` aggregate in set's block
        vloc = None
        t = A.body.blocks[s.blk].term
        if t[3][1][0] in ("move", "copy") and t[3][1][1][0] == "local":
            vloc = t[3][1][1][1]
        d = A._defs.get(vloc, [])
        agg_ok = len(d) == 1 and d[0][0] == "rv" and d[0][1][0] == "adt" and d[0][1][1].endswith("AmbientSync") and \
            any(st[0] == "assign" and st[1] == ("local", vloc) for st in A.body.blocks[s.blk].stmts)
        checks.append(("init: the value passed to `set` is a single `AmbientSync {..}` aggregate assembled in the block of the call", agg_ok))
        builders = [A.calls(r"^Runtime::map_%s$" % c) for c in ("emitter", "filter", "ctxt", "clock", "rng")] + [A.calls(r"^Runtime::build$")]
        checks.append(("init: the five Runtime::map_* calls and Runtime::build are present (%s)" % [len(b) for b in builders],
                       all(len(b) >= 1 for b in builders)))
        srcs = set()
        if agg_ok:
            for _, fop in d[0][1][2]:
                if fop[0] in ("move", "copy") and fop[1][0] == "local":
                    srcs.add("_%d" % fop[1][1])
                    srcs.add(A.opath(fop))
        later = [e for e in A.effects if e.kind == "call" and A.before(s, e) and any(a in srcs or a == "_%s" % vloc for a in e.args)]
        checks.append(("init: no call after `set` touches the value or its two parts (%s)" % [e.name for e in later][:3], not later))
        must = [("set_executed_before_get", A, [b_and(g.guard, b_not(A.some_before(g, [s], lambda y: i_eq(y.out, 0))))]),
                ("returns_Some_only_if_set_returned_Ok", A,
                 [_or([b_and(r.guard, i_eq(r.val[0], 1), b_not(b_and(s.guard, i_eq(s.out, 0)))) for r in A.returns])]),
                ("every_return_passed_set_exactly_once", A, [_or([b_and(r.guard, b_not(s.guard)) for r in A.returns])]),
                ("components_built_before_set", A,
                 [b_and(s.guard, b_not(b_and(*[A.some_before(s, b) for b in builders])))]),
                ("set_failed_returns_None_without_get", A,
                 [b_and(s.guard, i_eq(s.out, 1), b_or(g.guard, _or([b_and(r.guard, i_ne(r.val[0], 0)) for r in A.returns])))])]
        wit = [("path_set_ok_returns_Some", A, [_or([b_and(r.guard, i_eq(r.val[0], 1), i_eq(s.out, 0)) for r in A.returns])]),
               ("path_set_err_returns_None", A, [_or([b_and(r.guard, i_eq(r.val[0], 0), i_eq(s.out, 1)) for r in A.returns])])]
        false = [("FALSE_get_reached_on_every_path", A, [_or([b_and(r.guard, b_not(g.guard)) for r in A.returns])])]
    obs.append(CfgObligation("E2cfg_init_one_set_then_get", [A], [FNS[0]],
                             "all abstract paths of the MIR of AmbientSlot::init (generic body, loop-free); panicking callees end a path",
                             must, wit, false, static_checks=checks))
    for m in ("get", "is_enabled"):
        B = abs_[m]
        ch = []
        ops = [e for e in B.effects if e.kind == "call" and any(re.search(LOCK, a or "") for a in e.args)]
        gs = B.calls(r"^OnceLock::get$", 0, LOCK)
        ch.append(("%s: the OnceLock field is passed to exactly one `get` call site and to nothing else (%s)" % (m, [e.name for e in ops]),
                   len(gs) == 1 and len(ops) == 1))
        ch.append(("%s has a return" % m, len(B.returns) > 0))
        must, wit, false = [], [], []
        if all(ok for _, ok in ch):
            g = gs[0]
            must = [("every_return_passed_the_single_get", B, [_or([b_and(r.guard, b_not(g.guard)) for r in B.returns])])]
            if m == "is_enabled":
                must.append(("returns_true_iff_get_returned_Some", B, [_or([b_and(r.guard, i_ne(r.val[0], g.out)) for r in B.returns])]))
            wit = [("path_get_returns_Some", B, [_or([b_and(r.guard, i_eq(g.out, 1)) for r in B.returns])]),
                   ("path_get_returns_None", B, [_or([b_and(r.guard, i_eq(g.out, 0)) for r in B.returns])])]
            false = [("FALSE_get_always_returns_Some", B, [_or([b_and(r.guard, i_eq(g.out, 0)) for r in B.returns])])]
        obs.append(CfgObligation("E2cfg_%s_one_get" % m, [B], [FNS[1] if m == "get" else FNS[2]],
                                 "all abstract paths of the MIR of AmbientSlot::%s (loop-free)" % m, must, wit, false, static_checks=ch))
    return obs


# ---------------------------------------------------------------- interleaving model

class Interleaving:
    """n_init initialiser threads (ops: set_i, then get_i iff set_i returned Ok) and n_obs observer threads (one get each);
    each thread may be absent. One atomic operation per step; `OnceLock` = write-once cell (0 = empty, i = value of
    initialiser i): set succeeds iff the cell is empty; get returns the cell."""

    def __init__(self, n_init=3, n_obs=3):
        self.name = "oncelock_interleavings_%di_%do" % (n_init, n_obs)
        S = self.S = smt.Script()
        self.problems, self.cuts = [], []
        self.n_init, self.n_obs = n_init, n_obs
        ops = []
        for i in range(1, n_init + 1):
            ops.append(("set", i))
            ops.append(("iget", i))
        for j in range(1, n_obs + 1):
            ops.append(("oget", j))
        self.ops = ops
        n = len(ops)
        self.active = {}
        for i in range(1, n_init + 1):
            self.active[("i", i)] = S.declare_bool("act_init")
        for j in range(1, n_obs + 1):
            self.active[("o", j)] = S.declare_bool("act_obs")
        # slot[k] = index of the operation scheduled at step k (a permutation of 0..n-1 = the interleaving)
        slot = [S.declare_int("slot", 0, n - 1) for _ in range(n)]
        S.lemma("(distinct %s)" % " ".join(slot))
        self.slot = slot
        pos = {}
        for o in range(n):
            t = n - 1
            for k in reversed(range(n - 1)):
                t = ite(i_eq(slot[k], o), k, t)
            pos[o] = S.define_int("pos", t)
        self.pos = pos
        # program order inside an initialiser thread
        for i in range(n_init):
            S.lemma(i_lt(pos[2 * i], pos[2 * i + 1]))
        cell = 0
        res = {o: None for o in range(n)}          # set: 1 = Ok / 0 = Err ; get: value read ; -1 = not executed
        resv = {o: -1 for o in range(n)}
        for k in range(n):
            newcell = cell
            for o, (kind, idx) in enumerate(ops):
                here = i_eq(slot[k], o)
                if kind == "set":
                    runs = b_and(here, self.active[("i", idx)])
                    okk = b_and(runs, i_eq(cell, 0))
                    resv[o] = ite(runs, ite(i_eq(cell, 0), 1, 0), resv[o])
                    newcell = ite(okk, idx, newcell)
                elif kind == "iget":
                    # executed only if this thread's set returned Ok (structural obligation on init)
                    runs = b_and(here, self.active[("i", idx)], i_eq(resv[2 * (idx - 1)], 1))
                    resv[o] = ite(runs, cell, resv[o])
                else:
                    runs = b_and(here, self.active[("o", idx)])
                    resv[o] = ite(runs, cell, resv[o])
            cell = S.define_int("cell", newcell)
            for o in range(n):
                resv[o] = S.define_int("res", resv[o])
        self.res = resv
        self.final = cell

    def stats(self):
        return "%d initialisers x (set; get on Ok) + %d observers x get, each thread optional: %d atomic steps, every permutation respecting program order" % (
            self.n_init, self.n_obs, len(self.ops))

    def path_from_model(self, model):
        out = []
        for k, s in enumerate(self.slot):
            o = model.get(s)
            if o is None:
                continue
            kind, idx = self.ops[o]
            out.append({"effect": "step %d: %s of %s %d" % (k, "set" if kind == "set" else "get", "observer" if kind == "oget" else "initialiser", idx)})
        return out


def interleaving_obligation(n_init=3, n_obs=3):
    M = Interleaving(n_init, n_obs)
    n = len(M.ops)
    sets = [o for o, (k, _) in enumerate(M.ops) if k == "set"]
    igets = [o for o, (k, _) in enumerate(M.ops) if k == "iget"]
    ogets = [o for o, (k, _) in enumerate(M.ops) if k == "oget"]
    act_i = [M.active[("i", i)] for i in range(1, n_init + 1)]
    n_ok = "(+ 0 0 %s)" % " ".join(smt.lit(ite(i_eq(M.res[o], 1), 1, 0)) for o in sets)
    some_init = _or(act_i)
    winner = M.final           # value of the cell at the end = the winner (0 if nobody initialised)
    must = [
        ("exactly_one_set_succeeds_when_anyone_initialises", M, [b_and(some_init, "(not (= %s 1))" % n_ok)]),
        ("no_set_succeeds_when_nobody_initialises", M, [b_and(b_not(some_init), "(not (= %s 0))" % n_ok)]),
        ("losers_report_failure_and_never_read", M,
         [_or([b_and(act_i[i], i_ne(winner, i + 1), b_or(i_ne(M.res[sets[i]], 0), i_ne(M.res[igets[i]], -1))) for i in range(n_init)])]),
        ("winner_reads_back_its_own_value", M,
         [_or([b_and(i_eq(M.res[sets[i]], 1), b_or(i_ne(winner, i + 1), i_ne(M.res[igets[i]], i + 1))) for i in range(n_init)])]),
        ("every_observer_sees_empty_or_the_winner", M,
         [_or([b_and(i_ne(M.res[o], -1), i_ne(M.res[o], 0), i_ne(M.res[o], winner)) for o in ogets + igets])]),
        ("once_enabled_always_enabled_with_the_same_value", M,
         [_or([b_and(i_lt(M.pos[a], M.pos[b]), i_ne(M.res[a], -1), i_ne(M.res[a], 0), i_ne(M.res[b], -1), i_ne(M.res[b], M.res[a]))
               for a in ogets + igets for b in ogets + igets if a != b])]),
    ]
    wit = [("an_observer_sees_empty_and_a_later_one_the_winner", M,
            [_or([b_and(i_eq(M.res[a], 0), i_ne(M.res[b], -1), i_ne(M.res[b], 0)) for a in ogets for b in ogets if a != b])]),
           ("three_initialisers_race_and_number_2_wins", M, [b_and(*act_i), i_eq(winner, min(2, n_init))])]
    false = [("FALSE_initialiser_1_always_wins", M, [b_and(*act_i), i_ne(winner, 1)]),
             ("FALSE_observers_never_see_empty_once_someone_initialises", M, [b_and(some_init, _or([i_eq(M.res[o], 0) for o in ogets]))])]
    return CfgObligation(
        "E2cfg_oncelock_interleavings", [M], FNS,
        "interleaving model: <= %d racing initialisers and <= %d observers, every interleaving of their atomic OnceLock operations "
        "(operation sequences per thread are the ones established by the structural obligations); OnceLock = atomic write-once cell (trusted contract)" % (n_init, n_obs),
        must, wit, false)
