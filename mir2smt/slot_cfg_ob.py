"""C20: emit_core::runtime::AmbientSlot::{init, get, is_enabled} (core, feature std).

(1) structural obligations on the MIR (cfgabs): the only operations on the shared `OnceLock` are one `set` then - on its Ok
    branch only - one `get` in `init`, and one `get` in `get` / `is_enabled`; `init` returns Some only where `set` returned Ok;
    the value handed to `set` is completely built before the call.
(2) a small interleaving model in SMT with `OnceLock` as an atomic write-once cell (its documented contract: TRUSTED BASE):
    <= 3 initialiser threads running `set; [get]` and <= 3 observer threads running `get`, every interleaving of these atomic
    operations."""
import re

from . import Unsupported, smt
from .smt import b_and, b_or, b_not, i_eq, i_ne, i_lt, i_le, ite
from . import cfgabs
from .cfg_driver import CfgObligation

LOCK = r"\(AmbientSlot\)\.0$"
FNS = ["emit_core::runtime::AmbientSlot::init", "emit_core::runtime::AmbientSlot::get", "emit_core::runtime::AmbientSlot::is_enabled"]


def _or(xs):
    return b_or(*xs) if xs else False


def build(P):
    out = {}
    for m in ("init", "get", "is_enabled"):
        out[m] = cfgabs.Abstraction(P, P.find_fn("AmbientSlot", m), name="AmbientSlot_" + m)
    return out


VISIBILITY_STRESS = r'''use emit_core::{clock::Clock, emitter::Emitter, event::ToEvent, runtime::{AmbientSlot, Runtime}, timestamp::Timestamp};
use std::sync::{atomic::{AtomicUsize, Ordering}, Arc};
use std::time::{Duration, Instant};

struct Tag(Vec<u8>);
impl Emitter for Tag {
    fn emit<E: ToEvent>(&self, _: E) {}
    fn blocking_flush(&self, _: Duration) -> bool { true }
}
struct Clk;
impl Clock for Clk {
    fn now(&self) -> Option<Timestamp> { Timestamp::from_unix(Duration::from_secs(1)) }
}

const OBSERVERS: usize = 3;
const ROUNDS: usize = 20000;

fn main() {
    let slots: Arc<Vec<AmbientSlot>> = Arc::new((0..ROUNDS).map(|_| AmbientSlot::new()).collect());
    let bad = Arc::new(AtomicUsize::new(0));
    let seen = Arc::new(AtomicUsize::new(0));
    let barrier = Arc::new(AtomicUsize::new(0));
    let stop = Arc::new(AtomicUsize::new(ROUNDS));
    let start = Instant::now();
    let threads = OBSERVERS + 1;
    let handles: Vec<_> = (0..threads).map(|id| {
        let (slots, bad, seen, barrier, stop) = (slots.clone(), bad.clone(), seen.clone(), barrier.clone(), stop.clone());
        std::thread::spawn(move || {
            for round in 0..ROUNDS {
                if id == 0 && (bad.load(Ordering::SeqCst) > 0 || start.elapsed() > Duration::from_secs(40)) { stop.store(round, Ordering::SeqCst); }
                barrier.fetch_add(1, Ordering::SeqCst);
                let mut spins = 0u32;
                while barrier.load(Ordering::SeqCst) < (round + 1) * threads {
                    std::hint::spin_loop();
                    spins += 1;
                    if spins % 2000 == 0 { std::thread::yield_now(); }
                }
                if round >= stop.load(Ordering::SeqCst) { break; }
                let slot = &slots[round];
                if id == 0 {
                    // the (only) initialiser; components whose construction takes a moment, as real ones do
                    let _ = slot.init(Runtime::new().with_emitter(Tag(vec![7u8; 4096])).with_clock(Clk));
                } else {
                    for _ in 0..200_000 {
                        if slot.is_enabled() {
                            seen.fetch_add(1, Ordering::SeqCst);
                            // C20: from the moment ANY thread observes the slot as enabled, every thread sees the winning components
                            if slot.get().clock().now().is_none() { bad.fetch_add(1, Ordering::SeqCst); }
                            break;
                        }
                        std::hint::spin_loop();
                    }
                }
            }
        })
    }).collect();
    for h in handles { h.join().unwrap(); }
    let (b, s) = (bad.load(Ordering::SeqCst), seen.load(Ordering::SeqCst));
    println!("{} rounds, {} observations of an enabled slot in {:?}: {} saw the empty runtime", stop.load(Ordering::SeqCst), s, start.elapsed(), b);
    assert!(s > 0, "stress run made no observation");
    assert!(b == 0, "{} observer(s) saw AmbientSlot::is_enabled() == true while AmbientSlot::get() still returned the empty runtime (the winner's clock was not visible)", b);
}
'''


def structural(P, abs_, native_for=None):
    obs = []
    A = abs_["init"]
    checks = []
    lock_ops = [e for e in A.effects if e.kind == "call" and any(re.search(LOCK, a or "") for a in e.args)]
    sets = A.calls(r"^OnceLock::set$", 0, LOCK)
    gets = A.calls(r"^OnceLock::get$", 0, LOCK)
    checks.append(("init: the OnceLock field is passed to exactly one `set` and one `get` call site and to nothing else (%s)" %
                   [e.name for e in lock_ops], len(sets) == 1 and len(gets) == 1 and len(lock_ops) == 2))
    checks.append(("init: no indirect call", not [e for e in A.effects if e.kind == "call" and e.method == "<indirect>"]))
    checks.append(("init has a return", len(A.returns) > 0))
    must, wit, false = [], [], []
    if all(ok for _, ok in checks):
        s, g = sets[0], gets[0]
        # the value handed to set: a local with exactly one definition, an `AmbientSync { value, runtime }` aggregate in set's block
        vloc = None
        t = A.body.blocks[s.blk].term
        if t[3][1][0] in ("move", "copy") and t[3][1][1][0] == "local":
            vloc = t[3][1][1][1]
        d = A._defs.get(vloc, [])
        agg_ok = len(d) == 1 and d[0][0] == "rv" and d[0][1][0] == "adt" and d[0][1][1].endswith("AmbientSync") and \
            any(st[0] == "assign" and st[1] == ("local", vloc) for st in A.body.blocks[s.blk].stmts)
        checks.append(("init: the value passed to `set` is a single `AmbientSync {..}` aggregate assembled in the block of the call", agg_ok))
        builders = [A.calls(r"^Runtime::map_%s$" % c) for c in ("emitter", "filter", "ctxt", "clock", "rng")] + [A.calls(r"^Runtime::build$")]
        checks.append(("init: the five Runtime::map_* calls and Runtime::build are present (%s)" % [len(b) for b in builders],
                       all(len(b) >= 1 for b in builders)))
        srcs = set()
        if agg_ok:
            for _, fop in d[0][1][2]:
                if fop[0] in ("move", "copy") and fop[1][0] == "local":
                    srcs.add("_%d" % fop[1][1])
                    srcs.add(A.opath(fop))
        later = [e for e in A.effects if e.kind == "call" and A.before(s, e) and any(a in srcs or a == "_%s" % vloc for a in e.args)]
        checks.append(("init: no call after `set` touches the value or its two parts (%s)" % [e.name for e in later][:3], not later))
        must = [("set_executed_before_get", A, [b_and(g.guard, b_not(A.some_before(g, [s], lambda y: i_eq(y.out, 0))))]),
                ("returns_Some_only_if_set_returned_Ok", A,
                 [_or([b_and(r.guard, i_eq(r.val[0], 1), b_not(b_and(s.guard, i_eq(s.out, 0)))) for r in A.returns])]),
                ("every_return_passed_set_exactly_once", A, [_or([b_and(r.guard, b_not(s.guard)) for r in A.returns])]),
                ("components_built_before_set", A,
                 [b_and(s.guard, b_not(b_and(*[A.some_before(s, b) for b in builders])))]),
                ("set_failed_returns_None_without_get", A,
                 [b_and(s.guard, i_eq(s.out, 1), b_or(g.guard, _or([b_and(r.guard, i_ne(r.val[0], 0)) for r in A.returns])))])]
        wit = [("path_set_ok_returns_Some", A, [_or([b_and(r.guard, i_eq(r.val[0], 1), i_eq(s.out, 0)) for r in A.returns])]),
               ("path_set_err_returns_None", A, [_or([b_and(r.guard, i_eq(r.val[0], 0), i_eq(s.out, 1)) for r in A.returns])])]
        false = [("FALSE_get_reached_on_every_path", A, [_or([b_and(r.guard, b_not(g.guard)) for r in A.returns])])]
    obs.append(CfgObligation("E2cfg_init_one_set_then_get", [A], [FNS[0]],
                             "all abstract paths of the MIR of AmbientSlot::init (generic body, loop-free); panicking callees end a path",
                             must, wit, false, static_checks=checks))
    for m in ("get", "is_enabled"):
        B = abs_[m]
        ch = []
        ops = [e for e in B.effects if e.kind == "call" and any(re.search(LOCK, a or "") for a in e.args)]
        gs = B.calls(r"^OnceLock::get$", 0, LOCK)
        ch.append(("%s: the OnceLock field is passed to exactly one `get` call site and to nothing else (%s)" % (m, [e.name for e in ops]),
                   len(gs) == 1 and len(ops) == 1))
        ch.append(("%s has a return" % m, len(B.returns) > 0))
        must, wit, false = [], [], []
        if all(ok for _, ok in ch):
            g = gs[0]
            must = [("every_return_passed_the_single_get", B, [_or([b_and(r.guard, b_not(g.guard)) for r in B.returns])])]
            if m == "is_enabled":
                must.append(("returns_true_iff_get_returned_Some", B, [_or([b_and(r.guard, i_ne(r.val[0], g.out)) for r in B.returns])]))
            wit = [("path_get_returns_Some", B, [_or([b_and(r.guard, i_eq(g.out, 1)) for r in B.returns])]),
                   ("path_get_returns_None", B, [_or([b_and(r.guard, i_eq(g.out, 0)) for r in B.returns])])]
            false = [("FALSE_get_always_returns_Some", B, [_or([b_and(r.guard, i_eq(g.out, 0)) for r in B.returns])])]
        fb = None
        if native_for is not None:
            # `get` / `is_enabled` no longer answer from one read of the OnceLock: candidate "a thread can observe the slot as
            # enabled while `get()` does not show the winner's components yet" - replayed as a stress run of the real code
            def fb(ctx, problems, m=m):
                from .cfg_driver import native_verdict
                return native_verdict(ctx, "E2cfg_%s_one_get" % m, native_for(), VISIBILITY_STRESS, "core", [], features=["std"],
                                      default_features=False,
                                      note="AmbientSlot::%s does not read the OnceLock exactly once (%s); candidate: enabled observed before the "
                                           "components are visible; replayed as a stress run: 1 initialiser + 3 observers x 20000 fresh slots, each "
                                           "observer spins on is_enabled() and then reads get().clock()" % (m, "; ".join(problems)[:200]))
        obs.append(CfgObligation("E2cfg_%s_one_get" % m, [B], [FNS[1] if m == "get" else FNS[2]],
                                 "all abstract paths of the MIR of AmbientSlot::%s (loop-free)" % m, must, wit, false, static_checks=ch, fallback=fb))
    return obs


# ---------------------------------------------------------------- emit::Setup: all five components reach the slot

SETUP_FNS = ["try_init_slot", "try_init_internal", "try_init"]
COMPONENTS = ("emitter", "filter", "ctxt", "clock", "rng")


SETUP_REPLAY = r'''use emit::{Clock, Ctxt, Emitter, Filter, Props, Rng};
use std::sync::atomic::{AtomicUsize, Ordering};
use std::time::Duration;

static EMITTED: AtomicUsize = AtomicUsize::new(0);
static FILTERED: AtomicUsize = AtomicUsize::new(0);

struct E;
impl Emitter for E {
    fn emit<T: emit::event::ToEvent>(&self, _: T) { EMITTED.fetch_add(1, Ordering::SeqCst); }
    fn blocking_flush(&self, _: Duration) -> bool { true }
}
struct F;
impl Filter for F {
    fn matches<T: emit::event::ToEvent>(&self, _: T) -> bool { FILTERED.fetch_add(1, Ordering::SeqCst); true }
}
struct C;
impl Ctxt for C {
    type Current = (&'static str, i32);
    type Frame = ();
    fn open_root<P: Props>(&self, _: P) -> Self::Frame {}
    fn enter(&self, _: &mut Self::Frame) {}
    fn with_current<R, G: FnOnce(&Self::Current) -> R>(&self, with: G) -> R { with(&("marker", 7)) }
    fn exit(&self, _: &mut Self::Frame) {}
    fn close(&self, _: Self::Frame) {}
}
struct K;
impl Clock for K {
    fn now(&self) -> Option<emit::Timestamp> { emit::Timestamp::from_unix(Duration::from_secs(77)) }
}
struct R;
impl Rng for R {
    fn fill<A: AsMut<[u8]>>(&self, mut arr: A) -> Option<A> { for b in arr.as_mut() { *b = 0xAB; } Some(arr) }
}

static SLOT: emit::runtime::AmbientSlot = emit::runtime::AmbientSlot::new();

fn main() {
    // C20: from the moment the slot is enabled, every thread sees ALL FIVE components of the winning configuration together
    let setup = emit::setup().emit_to(%(w)sE%(e)s).emit_when(%(w)sF%(e)s).with_ctxt(%(w)sC%(e)s).with_clock(%(w)sK%(e)s).with_rng(%(w)sR%(e)s);
    let init = %(init)s;
    assert!(init.is_some(), "the first initialisation succeeds");
    let rt = %(rt)s;
    let mut missing = Vec::new();
    emit::emit!(rt, "x");
    if FILTERED.load(Ordering::SeqCst) != 1 { missing.push("filter"); }
    if EMITTED.load(Ordering::SeqCst) != 1 { missing.push("emitter"); }
    if rt.ctxt().with_current(|p| p.pull::<i32, _>("marker")) != Some(7) { missing.push("ctxt"); }
    if rt.clock().now() != emit::Timestamp::from_unix(Duration::from_secs(77)) { missing.push("clock"); }
    if rt.rng().gen_u64() != Some(0xABAB_ABAB_ABAB_ABAB) { missing.push("rng"); }
    println!("components of the winning configuration not visible through the slot: {:?}", missing);
    assert!(missing.is_empty(), "the slot is enabled but the winning configuration's {:?} is not what the slot shows", missing);
}
'''

# (the internal runtime only takes components marked as internal: emit::runtime::AssertInternal)
SETUP_ENTRY = {"try_init_slot": {"init": "setup.try_init_slot(&SLOT)", "rt": "SLOT.get()", "w": "", "e": ""},
               "try_init_internal": {"init": "setup.try_init_internal()", "rt": "emit::runtime::internal()", "w": "emit::runtime::AssertInternal(", "e": ")"},
               "try_init": {"init": "setup.try_init()", "rt": "emit::runtime::shared()", "w": "", "e": ""}}


def setup_obligations(P, native_for=None):
    """`emit::Setup::{try_init_slot, try_init_internal, try_init}` (the `init_*` forms call these): on every abstract path the runtime handed to
    `AmbientSlot::init` was built by `Runtime::with_emitter/.with_filter/.with_ctxt/.with_clock/.with_rng`, each exactly once, all five
    before the call ("every thread sees all five components of the winning configuration together")."""
    obs = []
    for m in SETUP_FNS:
        try:
            body = P.find_fn("Setup", m)
        except Unsupported:
            continue          # the entry point is behind a cargo feature that is off in this dump
        A = cfgabs.Abstraction(P, body, name="Setup_" + m)
        inits = A.calls(r"^Ambient(Internal)?Slot::init$")
        deleg = A.calls(r"^Setup::try_init_slot$")
        withs = {c: A.calls(r"^Runtime::with_%s$" % c) for c in COMPONENTS}
        must, wit, false = [], [], []
        if not inits and len(deleg) == 1:
            # a thin wrapper: hands `self` to try_init_slot (decided above) and builds nothing itself
            checks = [("%s: delegates to Setup::try_init_slot and builds no runtime of its own (%s)" % (m, [len(withs[c]) for c in COMPONENTS]),
                       all(len(withs[c]) == 0 for c in COMPONENTS)),
                      ("%s has a return" % m, len(A.returns) > 0)]
            if all(ok for _, ok in checks):
                d = deleg[0]
                must = [("every_returning_path_went_through_try_init_slot", A, [_or([b_and(r.guard, b_not(d.guard)) for r in A.returns])])]
                wit = [("path_reaches_try_init_slot", A, [d.guard])]
                false = [("FALSE_no_path_reaches_try_init_slot", A, [d.guard])]
        else:
            checks = [("%s: exactly one AmbientSlot::init / AmbientInternalSlot::init call site (%d)" % (m, len(inits)), len(inits) == 1),
                      ("%s has a return" % m, len(A.returns) > 0)]
            if all(ok for _, ok in checks):
                i = inits[0]
                for c in COMPONENTS:
                    must.append(("slot_initialised_only_after_with_%s" % c, A, [b_and(i.guard, b_not(A.some_before(i, withs[c])))]))
                wit = [("path_reaches_init", A, [i.guard])]
                false = [("FALSE_no_path_reaches_init", A, [i.guard])]
        conc = None
        if native_for is not None:
            def conc(ctx, qname, cand, m=m):
                from .cfg_driver import native_verdict
                return native_verdict(ctx, "E2cfg_setup_%s_installs_all_five_components" % m, native_for(), SETUP_REPLAY % SETUP_ENTRY[m],
                                      "", [], features=["std", "implicit_rt", "implicit_internal_rt"], default_features=False,
                                      note="abstract counter-path for %s: the slot is initialised on a path that did not install every component; "
                                           "replayed natively: five recognisable components through emit::Setup::%s, then each one read back through the slot"
                                           % (qname, m))
        obs.append(CfgObligation("E2cfg_setup_%s_installs_all_five_components" % m, [A], ["emit::setup::Setup::%s" % m],
                                 "all abstract paths of the MIR of emit::Setup::%s (loop-free): Runtime::with_{emitter, filter, ctxt, clock, rng} all precede "
                                 "AmbientSlot::init" % m, must, wit, false, static_checks=checks, concretise=conc,
                                 fallback=(lambda ctx, problems, conc=conc: conc(ctx, "extractor", None)) if conc else None))
    if not obs:
        raise Unsupported("none of Setup::{%s} found in the MIR dump of emit" % ", ".join(SETUP_FNS))
    return obs


# ---------------------------------------------------------------- interleaving model

class Interleaving:
    """n_init initialiser threads (ops: set_i, then get_i iff set_i returned Ok) and n_obs observer threads (one get each);
    each thread may be absent. One atomic operation per step; `OnceLock` = write-once cell (0 = empty, i = value of
    initialiser i): set succeeds iff the cell is empty; get returns the cell."""

    def __init__(self, n_init=3, n_obs=3):
        self.name = "oncelock_interleavings_%di_%do" % (n_init, n_obs)
        S = self.S = smt.Script()
        self.problems, self.cuts = [], []
        self.n_init, self.n_obs = n_init, n_obs
        ops = []
        for i in range(1, n_init + 1):
            ops.append(("set", i))
            ops.append(("iget", i))
        for j in range(1, n_obs + 1):
            ops.append(("oget", j))
        self.ops = ops
        n = len(ops)
        self.active = {}
        for i in range(1, n_init + 1):
            self.active[("i", i)] = S.declare_bool("act_init")
        for j in range(1, n_obs + 1):
            self.active[("o", j)] = S.declare_bool("act_obs")
        # slot[k] = index of the operation scheduled at step k (a permutation of 0..n-1 = the interleaving)
        slot = [S.declare_int("slot", 0, n - 1) for _ in range(n)]
        S.lemma("(distinct %s)" % " ".join(slot))
        self.slot = slot
        pos = {}
        for o in range(n):
            t = n - 1
            for k in reversed(range(n - 1)):
                t = ite(i_eq(slot[k], o), k, t)
            pos[o] = S.define_int("pos", t)
        self.pos = pos
        # program order inside an initialiser thread
        for i in range(n_init):
            S.lemma(i_lt(pos[2 * i], pos[2 * i + 1]))
        cell = 0
        res = {o: None for o in range(n)}          # set: 1 = Ok / 0 = Err ; get: value read ; -1 = not executed
        resv = {o: -1 for o in range(n)}
        for k in range(n):
            newcell = cell
            for o, (kind, idx) in enumerate(ops):
                here = i_eq(slot[k], o)
                if kind == "set":
                    runs = b_and(here, self.active[("i", idx)])
                    okk = b_and(runs, i_eq(cell, 0))
                    resv[o] = ite(runs, ite(i_eq(cell, 0), 1, 0), resv[o])
                    newcell = ite(okk, idx, newcell)
                elif kind == "iget":
                    # executed only if this thread's set returned Ok (structural obligation on init)
                    runs = b_and(here, self.active[("i", idx)], i_eq(resv[2 * (idx - 1)], 1))
                    resv[o] = ite(runs, cell, resv[o])
                else:
                    runs = b_and(here, self.active[("o", idx)])
                    resv[o] = ite(runs, cell, resv[o])
            cell = S.define_int("cell", newcell)
            for o in range(n):
                resv[o] = S.define_int("res", resv[o])
        self.res = resv
        self.final = cell

    def stats(self):
        return "%d initialisers x (set; get on Ok) + %d observers x get, each thread optional: %d atomic steps, every permutation respecting program order" % (
            self.n_init, self.n_obs, len(self.ops))

    def path_from_model(self, model):
        out = []
        for k, s in enumerate(self.slot):
            o = model.get(s)
            if o is None:
                continue
            kind, idx = self.ops[o]
            out.append({"effect": "step %d: %s of %s %d" % (k, "set" if kind == "set" else "get", "observer" if kind == "oget" else "initialiser", idx)})
        return out


def interleaving_obligation(n_init=3, n_obs=3):
    M = Interleaving(n_init, n_obs)
    n = len(M.ops)
    sets = [o for o, (k, _) in enumerate(M.ops) if k == "set"]
    igets = [o for o, (k, _) in enumerate(M.ops) if k == "iget"]
    ogets = [o for o, (k, _) in enumerate(M.ops) if k == "oget"]
    act_i = [M.active[("i", i)] for i in range(1, n_init + 1)]
    n_ok = "(+ 0 0 %s)" % " ".join(smt.lit(ite(i_eq(M.res[o], 1), 1, 0)) for o in sets)
    some_init = _or(act_i)
    winner = M.final           # value of the cell at the end = the winner (0 if nobody initialised)
    must = [
        ("exactly_one_set_succeeds_when_anyone_initialises", M, [b_and(some_init, "(not (= %s 1))" % n_ok)]),
        ("no_set_succeeds_when_nobody_initialises", M, [b_and(b_not(some_init), "(not (= %s 0))" % n_ok)]),
        ("losers_report_failure_and_never_read", M,
         [_or([b_and(act_i[i], i_ne(winner, i + 1), b_or(i_ne(M.res[sets[i]], 0), i_ne(M.res[igets[i]], -1))) for i in range(n_init)])]),
        ("winner_reads_back_its_own_value", M,
         [_or([b_and(i_eq(M.res[sets[i]], 1), b_or(i_ne(winner, i + 1), i_ne(M.res[igets[i]], i + 1))) for i in range(n_init)])]),
        ("every_observer_sees_empty_or_the_winner", M,
         [_or([b_and(i_ne(M.res[o], -1), i_ne(M.res[o], 0), i_ne(M.res[o], winner)) for o in ogets + igets])]),
        ("once_enabled_always_enabled_with_the_same_value", M,
         [_or([b_and(i_lt(M.pos[a], M.pos[b]), i_ne(M.res[a], -1), i_ne(M.res[a], 0), i_ne(M.res[b], -1), i_ne(M.res[b], M.res[a]))
               for a in ogets + igets for b in ogets + igets if a != b])]),
    ]
    wit = [("an_observer_sees_empty_and_a_later_one_the_winner", M,
            [_or([b_and(i_eq(M.res[a], 0), i_ne(M.res[b], -1), i_ne(M.res[b], 0)) for a in ogets for b in ogets if a != b])]),
           ("three_initialisers_race_and_number_2_wins", M, [b_and(*act_i), i_eq(winner, min(2, n_init))])]
    false = [("FALSE_initialiser_1_always_wins", M, [b_and(*act_i), i_ne(winner, 1)]),
             ("FALSE_observers_never_see_empty_once_someone_initialises", M, [b_and(some_init, _or([i_eq(M.res[o], 0) for o in ogets]))])]
    return CfgObligation(
        "E2cfg_oncelock_interleavings", [M], FNS,
        "interleaving model: <= %d racing initialisers and <= %d observers, every interleaving of their atomic OnceLock operations "
        "(operation sequences per thread are the ones established by the structural obligations); OnceLock = atomic write-once cell (trusted contract)" % (n_init, n_obs),
        must, wit, false)


# ================================================================================================================
# Generalised C20 check: the operation sequences on the OnceLock are EXTRACTED from the MIR of `init` (whatever they
# are among get / set / get_or_init), the interleaving model is instantiated from them, counter-schedules are replayed
# by a native stress program racing the REAL `AmbientSlot::init`.

OPS = {"OnceLock::get": "get", "OnceLock::set": "set", "OnceLock::get_or_init": "get_or_init"}
# slot-level calls: `is_enabled(self)` / `get(self)` are ONE `OnceLock::get` each and `is_enabled` returns true iff it returned
# Some - exactly what the structural obligations E2cfg_get_one_get / E2cfg_is_enabled_one_get establish on every run
SLOT_CALLS = {"AmbientSlot::is_enabled": "get", "AmbientSlot::get": "get"}


def lock_ops(P, A):
    """-> (ops [(effect, kind)], checks). Every use of the slot parameter / its OnceLock field must be a recognised operation."""
    checks = []
    slot = "_%d" % A.body.params[0][0]
    ops, other = [], []
    for e in A.effects:
        if e.kind != "call":
            continue
        touches_field = any(re.search(LOCK, a or "") for a in e.args)
        touches_slot = any(a == slot for a in e.args)
        if touches_field and e.name in OPS and re.search(LOCK, e.args[0] or ""):
            ops.append((e, OPS[e.name]))
        elif touches_slot and e.name in SLOT_CALLS and e.args[0] == slot:
            ops.append((e, SLOT_CALLS[e.name]))
        elif touches_field or touches_slot:
            other.append(e.name)
    checks.append(("init: every call that receives the slot or its OnceLock field is one of get / set / get_or_init / is_enabled / get "
                   "(others: %s)" % other[:4], not other))
    checks.append(("init: at least one and at most 4 OnceLock operations per path (%d call sites)" % len(ops), 1 <= len(ops) <= 8))
    checks.append(("init: no indirect call, has a return", not [e for e in A.effects if e.kind == "call" and e.method == "<indirect>"] and len(A.returns) > 0))
    # closures (the get_or_init initialiser, the map_* closures) must not touch the slot
    bad = []
    for cb in cfgabs.nested_closures(P, A.body):
        for blk in cb.blocks.values():
            t = blk.term
            if t and t[0] == "call" and re.search(r"OnceLock|AmbientSlot", t[2]):
                bad.append(t[2][:50])
    checks.append(("init: its closures contain no OnceLock / AmbientSlot call (%s)" % bad[:2], not bad))
    return ops, checks


def extract_classes(A, ops, workdir, limit=48):
    """All abstract returning paths of `init`, projected on (which lock operations ran, in DAG order; the Option/Result/bool
    variant each returned; the variant of the function's return): all-SAT enumeration with blocking clauses.
    -> [{"ops": [(kind, required outcome | None)], "ret": 0|1}]"""
    import os
    os.makedirs(workdir, exist_ok=True)
    rets = A.returns
    rg = b_or(*[r.guard for r in rets])
    proj = []
    for e, kind in ops:
        gm, om = A.mirror[e.id]
        proj.append((e, kind, gm, om if e.boolish else None))
    retm = [A.mirror[r.id] for r in rets]
    blocks, classes = [], []
    for it in range(limit + 1):
        lines = ["(assert %s)" % smt.lit(rg)] + blocks + ["(check-sat)"]
        path = os.path.join(workdir, "classes_%s_%d.smt2" % (A.name, it))
        with open(path, "w") as f:
            f.write(A.S.render(lines))
        a = smt.run_solver("cvc5", path, 60)
        if a.status == "unsat":
            return classes
        if a.status != "sat" or it == limit:
            raise Unsupported("path-class enumeration of %s: %s after %d classes" % (A.name, a.status, len(classes)))
        m = a.model
        seq, lits = [], []
        for e, kind, gm, om in proj:
            ex = m.get(gm) is True
            lits.append(gm if ex else "(not %s)" % gm)
            if ex:
                o = m.get(om) if om is not None else None
                seq.append((kind, o))
                if om is not None:
                    lits.append("(= %s %s)" % (om, smt.lit(o)))
        rv = None
        for (gm, om), r in zip(retm, rets):
            if m.get(gm) is True:
                rv = m.get(om)
                lits.append("(= %s %s)" % (om, smt.lit(rv)))
        if rv not in (0, 1):
            raise Unsupported("init returns a value whose variant is not Some/None on some path (%r)" % rv)
        classes.append({"ops": seq, "ret": rv})
        blocks.append("(assert (not (and %s)))" % " ".join(lits))
    return classes


def describe_classes(classes):
    def o(kind, v):
        if v is None:
            return kind
        names = {"set": {0: "Ok", 1: "Err"}, "get": {0: "None/false", 1: "Some/true"}}.get(kind, {})
        return "%s=%s" % (kind, names.get(v, v))
    return ["[%s] -> %s" % ("; ".join(o(k, v) for k, v in c["ops"]), "Some" if c["ret"] == 1 else "None") for c in classes]


class ClassInterleaving:
    """Interleaving model instantiated from the extracted path classes. Cell: 0 = empty, i = value of initialiser i.
    Atomic semantics (std's documented contract, trusted): get = read; set = write-if-empty, Ok iff it wrote;
    get_or_init = write-if-empty then read. Each initialiser follows one class; the class must be consistent with what its
    operations actually returned. Assumption A (stated in the evidence): where two classes differ only in free decisions
    (downcasts ...) a thread that only ever read back ITS OWN value takes the Some-returning one (its own types match)."""

    def __init__(self, classes, n_init=3, n_obs=3):
        self.name = "oncelock_classes_%di_%do" % (n_init, n_obs)
        self.problems, self.cuts = [], []
        S = self.S = smt.Script()
        self.classes, self.n_init, self.n_obs = classes, n_init, n_obs
        L = max(len(c["ops"]) for c in classes)
        self.L = L
        KIND = {"skip": 0, "get": 1, "set": 2, "get_or_init": 3}
        slots = [("i", i, j) for i in range(1, n_init + 1) for j in range(L)] + [("o", j, 0) for j in range(1, n_obs + 1)]
        self.slots = slots
        n = len(slots)
        self.act = {("i", i): S.declare_bool("act_init") for i in range(1, n_init + 1)}
        self.act.update({("o", j): S.declare_bool("act_obs") for j in range(1, n_obs + 1)})
        self.cls = {i: S.declare_int("cls", 0, len(classes) - 1) for i in range(1, n_init + 1)}
        order = [S.declare_int("slot", 0, n - 1) for _ in range(n)]
        S.lemma("(distinct %s)" % " ".join(order))
        self.order = order
        pos = {}
        for o in range(n):
            t = n - 1
            for k in reversed(range(n - 1)):
                t = ite(i_eq(order[k], o), k, t)
            pos[o] = S.define_int("pos", t)
        self.pos = pos
        for i in range(n_init):
            for j in range(L - 1):
                S.lemma(i_lt(pos[i * L + j], pos[i * L + j + 1]))

        def kind_of(i, j):
            t = KIND["skip"]
            for c, cl in enumerate(classes):
                if j < len(cl["ops"]):
                    t = ite(i_eq(self.cls[i], c), KIND[cl["ops"][j][0]], t)
                else:
                    t = ite(i_eq(self.cls[i], c), KIND["skip"], t)
            return S.define_int("kind", t)

        kinds = {}
        for o, (who, i, j) in enumerate(slots):
            kinds[o] = kind_of(i, j) if who == "i" else KIND["get"]
        cell = 0
        val = {o: -1 for o in range(n)}        # value read (get / get_or_init), -1 = nothing read
        var = {o: -1 for o in range(n)}        # variant: set Ok 0 / Err 1; get None 0 / Some 1
        for k in range(n):
            newcell = cell
            for o, (who, i, j) in enumerate(slots):
                runs = b_and(i_eq(order[k], o), self.act[(who, i)])
                kd = kinds[o]
                empty = i_eq(cell, 0)
                writes = b_and(runs, empty, b_or(i_eq(kd, KIND["set"]), i_eq(kd, KIND["get_or_init"]))) if who == "i" else False
                newcell = ite(writes, i, newcell)
                if who == "i":
                    after = ite(empty, i, cell)
                    val[o] = ite(b_and(runs, i_eq(kd, KIND["get"])), cell, ite(b_and(runs, i_eq(kd, KIND["get_or_init"])), after, val[o]))
                    var[o] = ite(b_and(runs, i_eq(kd, KIND["get"])), ite(empty, 0, 1),
                                 ite(b_and(runs, i_eq(kd, KIND["set"])), ite(empty, 0, 1), var[o]))
                else:
                    val[o] = ite(runs, cell, val[o])
                    var[o] = ite(runs, ite(empty, 0, 1), var[o])
            cell = S.define_int("cell", newcell)
            for o in range(n):
                val[o] = S.define_int("val", val[o])
                var[o] = S.define_int("var", var[o])
        self.val, self.var, self.final = val, var, cell
        # class consistency + return value + assumption A
        self.ret = {}
        sig = lambda cl: tuple(cl["ops"])
        for i in range(1, n_init + 1):
            r = 0
            for c, cl in enumerate(classes):
                here = i_eq(self.cls[i], c)
                for j, (kd, want) in enumerate(cl["ops"]):
                    if want is not None:
                        S.lemma(smt.b_implies(b_and(self.act[("i", i)], here), i_eq(var[(i - 1) * L + j], want)))
                r = ite(here, cl["ret"], r)
                if cl["ret"] == 0 and any(sig(d) == sig(cl) and d["ret"] == 1 for d in classes):
                    reads = [(i - 1) * L + j for j, (kd, want) in enumerate(cl["ops"]) if kd == "get_or_init" or (kd == "get" and want != 0)]
                    own = b_and(*[i_eq(val[o], i) for o in reads]) if reads else False
                    S.lemma(smt.b_implies(b_and(self.act[("i", i)], here), b_not(own)))
            self.ret[i] = S.define_int("ret", ite(self.act[("i", i)], r, 0))

    def stats(self):
        return "%d path classes of init, <= %d ops each; %d optional initialisers + %d optional observers (one get each): %d atomic steps, every permutation respecting program order" % (
            len(self.classes), self.L, self.n_init, self.n_obs, len(self.slots))

    def path_from_model(self, model):
        out = []
        descr = describe_classes(self.classes)
        for i in range(1, self.n_init + 1):
            c = model.get(self.cls[i])
            if model.get(self.act[("i", i)]) is True and c is not None:
                out.append({"effect": "initialiser %d follows %s" % (i, descr[c])})
        for k, s in enumerate(self.order):
            o = model.get(s)
            if o is None:
                continue
            who, i, j = self.slots[o]
            if model.get(self.act[(who, i)]) is True:
                out.append({"effect": "step %d: %s %d, operation %d" % (k, "initialiser" if who == "i" else "observer", i, j)})
        return out


STRESS = r'''use emit_core::{emitter::Emitter, event::ToEvent, runtime::{AmbientSlot, Runtime}};
use std::sync::{atomic::{AtomicUsize, Ordering}, Arc};
use std::time::{Duration, Instant};

// same-typed components tagged by thread id
struct Tag(usize);
impl Emitter for Tag {
    fn emit<E: ToEvent>(&self, _: E) {}
    fn blocking_flush(&self, _: Duration) -> bool { true }
}

const THREADS: usize = %(threads)d;
const ROUNDS: usize = %(rounds)d;

fn main() {
    let slots: Arc<Vec<AmbientSlot>> = Arc::new((0..ROUNDS).map(|_| AmbientSlot::new()).collect());
    let ok: Arc<Vec<AtomicUsize>> = Arc::new((0..ROUNDS).map(|_| AtomicUsize::new(0)).collect());
    let foreign: Arc<Vec<AtomicUsize>> = Arc::new((0..ROUNDS).map(|_| AtomicUsize::new(0)).collect());
    let barrier = Arc::new(AtomicUsize::new(0));
    let limit = Arc::new(AtomicUsize::new(ROUNDS));      // thread 0 lowers it (before arriving at the barrier) to stop everybody in the same round
    let start = Instant::now();
    let handles: Vec<_> = (0..THREADS).map(|id| {
        let (slots, ok, foreign, barrier, limit) = (slots.clone(), ok.clone(), foreign.clone(), barrier.clone(), limit.clone());
        std::thread::spawn(move || {
            for round in 0..ROUNDS {
                if id == 0 && round > 1 {
                    // having passed barrier `round - 1`, every thread has finished round `round - 2`
                    let prev = (ok[round - 2].load(Ordering::SeqCst), foreign[round - 2].load(Ordering::SeqCst));
                    if prev.0 != 1 || prev.1 != 0 || start.elapsed() > Duration::from_secs(%(budget)d) { limit.store(round, Ordering::SeqCst); }
                }
                // spin barrier: all threads enter the round together
                barrier.fetch_add(1, Ordering::SeqCst);
                let mut spins = 0u32;
                while barrier.load(Ordering::SeqCst) < (round + 1) * THREADS {
                    std::hint::spin_loop();
                    spins += 1;
                    if spins %% 2000 == 0 { std::thread::yield_now(); }
                }
                if round >= limit.load(Ordering::SeqCst) { break; }
                if let Some(rt) = slots[round].init(Runtime::new().with_emitter(Tag(id + 1))) {
                    ok[round].fetch_add(1, Ordering::SeqCst);
                    if rt.emitter().0 != id + 1 { foreign[round].fetch_add(1, Ordering::SeqCst); }
                }
            }
        })
    }).collect();
    for h in handles { h.join().unwrap(); }
    let done = limit.load(Ordering::SeqCst);
    let bad: Vec<(usize, usize, usize)> = (0..done).filter_map(|r| {
        let (n, f) = (ok[r].load(Ordering::SeqCst), foreign[r].load(Ordering::SeqCst));
        if n != 1 || f != 0 { Some((r, n, f)) } else { None }
    }).collect();
    println!("{} rounds x {} racing initialisers in {:?}: {} rounds violate", done, THREADS, start.elapsed(), bad.len());
    // C20: however many threads race to initialise, exactly one attempt succeeds and all others report failure
    assert!(bad.is_empty(), "{} of {} rounds had a number of successful AmbientSlot::init calls != 1 or a success handed another thread's components; first (round, successes, foreign): {:?}", bad.len(), done, bad[0]);
}
'''


def generalised_obligations(P, abs_, workdir, native_for, n=3):
    """-> [CfgObligation]: extraction self-check + class-instantiated interleaving model (with stress-replay concretisation)."""
    from .cfg_driver import native_verdict
    A = abs_["init"]
    ops, checks = lock_ops(P, A)
    obs = []
    if not all(ok for _, ok in checks):
        obs.append(CfgObligation("E2cfg_init_lock_operations_extracted", [A], [FNS[0]], "", [], [], [], static_checks=checks))
        return obs, None
    classes = extract_classes(A, ops, workdir)
    descr = describe_classes(classes)
    checks.append(("init: %d path classes extracted: %s" % (len(classes), "; ".join(descr)), 1 <= len(classes)))
    some = [c for c in classes if c["ret"] == 1]
    checks.append(("init: some class returns Some", bool(some)))
    # the extraction itself is an obligation: the guards of the lock operations on returning paths are exactly those of the classes
    rg = b_or(*[r.guard for r in A.returns])
    obs.append(CfgObligation("E2cfg_init_lock_operations_extracted", [A], [FNS[0]],
                             "all abstract returning paths of the MIR of AmbientSlot::init projected on its OnceLock operations: " + "; ".join(descr),
                             [("no_returning_path_without_a_lock_operation", A, [b_and(rg, b_not(b_or(*[e.guard for e, _ in ops])))])],
                             [("a_returning_path_exists", A, [rg])],
                             [("FALSE_every_returning_path_runs_every_operation", A, [b_and(rg, b_not(b_and(*[e.guard for e, _ in ops])))])] if len(ops) > 1 else
                             [("FALSE_no_path_returns", A, [rg])], static_checks=checks))
    M = ClassInterleaving(classes, n, n)
    acts = [M.act[("i", i)] for i in range(1, n + 1)]
    n_some = "(+ 0 0 %s)" % " ".join(smt.lit(ite(i_eq(M.ret[i], 1), 1, 0)) for i in range(1, n + 1))
    some_init = b_or(*acts)
    L = M.L
    reads_i = [o for o, (w, i, j) in enumerate(M.slots) if w == "i"]
    reads_o = [o for o, (w, i, j) in enumerate(M.slots) if w == "o"]
    must = [
        ("exactly_one_attempt_reports_success", M, [b_and(some_init, "(not (= %s 1))" % n_some)]),
        ("only_the_thread_whose_components_are_installed_reports_success", M,
         [b_or(*[b_and(i_eq(M.ret[i], 1), i_ne(M.final, i)) for i in range(1, n + 1)])]),
        ("components_are_installed_iff_someone_initialises", M, [b_not(smt.b_eq(some_init, i_ne(M.final, 0)))]),
        ("every_read_sees_empty_or_the_winner", M, [b_or(*[b_and(i_ne(M.val[o], -1), i_ne(M.val[o], 0), i_ne(M.val[o], M.final)) for o in reads_i + reads_o])]),
        ("once_enabled_always_the_same_value", M,
         [b_or(*[b_and(i_lt(M.pos[a], M.pos[b]), i_ne(M.val[a], -1), i_ne(M.val[a], 0), i_ne(M.val[b], -1), i_ne(M.val[b], M.val[a]))
                 for a in reads_o for b in reads_o if a != b])]),
    ]
    wit = [("all_initialisers_race_and_number_2_wins_and_reports_success", M, [b_and(*acts), i_eq(M.final, min(2, n)), i_eq(M.ret[min(2, n)], 1)]),
           ("an_observer_sees_empty_and_a_later_one_the_winner", M,
            [b_or(*[b_and(i_eq(M.val[a], 0), i_ne(M.val[b], -1), i_ne(M.val[b], 0)) for a in reads_o for b in reads_o if a != b])])]
    false = [("FALSE_initialiser_1_always_wins", M, [b_and(*acts), i_ne(M.final, 1)])]

    def concretise(ctx, qname, cand):
        if native_for is None:
            return "inconclusive", "counter-schedule for %s; candidate only" % qname
        main = STRESS % {"threads": 4, "rounds": 20000, "budget": 40}
        return native_verdict(ctx, "E2cfg_init_race_exactly_one_success", native_for(), main, "core", [], features=["std"],
                              default_features=False,
                              note="counter-schedule of the interleaving model instantiated from the extracted path classes (%s); "
                                   "replayed as a stress run: 4 threads x 20000 rounds racing the real AmbientSlot::init on fresh slots" % "; ".join(descr))

    obs.append(CfgObligation(
        "E2cfg_init_race_exactly_one_success", [M], FNS,
        "interleaving model instantiated from the path classes extracted from the MIR of init (%s): <= %d racing initialisers and <= %d observers, every "
        "interleaving of their atomic OnceLock operations; OnceLock get / set / get_or_init = atomic read / write-if-empty / write-if-empty-then-read "
        "(trusted contract); assumption A: a thread that only read back its own value passes its own downcasts" % ("; ".join(descr), n, n),
        must, wit, false, concretise=concretise))
    return obs, classes
