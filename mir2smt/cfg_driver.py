"""Deciding / reporting E2-cfg obligations (control-flow abstraction, cfgabs.py)."""
import os

from . import smt, engine
from .engine import Query
from .driver import say, report, Obligation, replay_file_text, known_match, VERIF


class Shim:
    """What engine.Query needs from an encoding."""

    def __init__(self, abstraction):
        self.S = abstraction.S
        self.name = abstraction.name


class CfgObligation:
    def __init__(self, name, abstractions, functions, bounds, must_hold, witnesses, false_claims, concretise=None, fail=None,
                 static_checks=(), fallback=None):
        """must_hold:    [(query name, Abstraction, negated-obligation assertions)]  -> each must be unsat
        witnesses:    same shape, each must be SAT (the good path exists: the obligation is not vacuous)
        false_claims: same shape, deliberately false obligations: each must be SAT (the abstraction can refute)
        static_checks: [(text, ok: bool)] extractor-level facts that must be true (else inconclusive)
        concretise:   fn(ctx, query name, candidate path) -> (status, text) for a candidate path, or None
        fallback:     fn(ctx, failed static checks) -> (status, text): when the code no longer has the shape the extractor
                      recognises, the departure itself is a CANDIDATE; the fallback replays the property's oracle natively
                      ("violated" only if that reproduces, otherwise the obligation stays inconclusive)"""
        self.name, self.abstractions, self.functions, self.bounds = name, abstractions, functions, bounds
        self.must_hold, self.witnesses, self.false_claims = must_hold, witnesses, false_claims
        self.concretise, self.fail, self.static_checks = concretise, fail, list(static_checks)
        self.fallback = fallback


def decide_cfg(ctx, obligations, workdir, jobs=4):
    qs = []
    for ob in obligations:
        ob.q = {"must": [], "wit": [], "false": []}
        if ob.fail:
            continue
        for kind, lst in (("must", ob.must_hold), ("wit", ob.witnesses), ("false", ob.false_claims)):
            for name, a, asserts in lst:
                q = Query("%s.%s" % (ob.name, name), Shim(a), asserts, fast_z3=True, expect="unsat" if kind == "must" else "sat")
                q.abs = a
                ob.q[kind].append(q)
                qs.append(q)
    engine.run_queries(qs, os.path.join(workdir, "cfg-queries"), ctx.tier, jobs=jobs, cvc5_cap=60, z3_cap_quick=30,
                       log=lambda m: say("[%s] %s" % (ctx.prop, m)))
    for ob in obligations:
        shim = Obligation(ob.name, None, ob.functions, ob.bounds, [])
        absn = "; ".join(a.stats() for a in ob.abstractions)
        extra = {"engine": "E2-cfg", "abstraction": absn,
                 "loops_cut_at": sorted(set("bb%d after %d iterations" % (h, k) for a in ob.abstractions for _, h, k in a.cuts))}
        problems = [p for a in ob.abstractions for p in a.problems] + [t for t, ok in ob.static_checks if not ok]
        if ob.fail or problems:
            status, why = "inconclusive", ob.fail or ("extractor: " + "; ".join(problems[:4]))
            if not ob.fail and getattr(ob, "fallback", None) is not None:
                try:
                    st, text = ob.fallback(ctx, problems)
                    if st == "violated":
                        status = "violated"
                    why = "%s; %s" % (why, text)
                except Exception as e:
                    why = "%s; fallback replay failed: %s" % (why, e)
            report(ctx, shim, status, "not run", 0.0, 0, False, None, [why], extra)
            continue
        allq = ob.q["must"] + ob.q["wit"] + ob.q["false"]
        status, cross, secs, sat_q, reasons = engine.verdict(ob.q["must"])
        reasons = list(reasons)
        # self-test: witnesses and deliberately false claims must all be sat
        wit_ok = True
        for q in ob.q["wit"] + ob.q["false"]:
            a = q.answers.get("cvc5")
            z = q.answers.get("z3")
            if a is None or a.status != "sat":
                wit_ok = False
                reasons.append("self-test %s: expected sat, got %s" % (q.name, a.status if a else "nothing"))
            elif z is not None and z.status in ("sat", "unsat") and z.status != a.status:
                wit_ok = False
                reasons.append("self-test %s: cvc5 sat, %s %s" % (q.name, z.solver, z.status))
        secs += sum(getattr(q, "cvc5_wall", 0) + getattr(q, "z3_wall", 0) for q in ob.q["wit"] + ob.q["false"])
        extra["self_test"] = {"witness_paths_found": len([q for q in ob.q["wit"] if q.answers.get("cvc5") and q.answers["cvc5"].status == "sat"]),
                              "false_claims_refuted": len([q for q in ob.q["false"] if q.answers.get("cvc5") and q.answers["cvc5"].status == "sat"])}
        extra["static_checks"] = [t for t, ok in ob.static_checks]
        model = None
        if status == "holds" and not wit_ok:
            status = "inconclusive"
        elif status == "sat":
            # a counter-path is a CANDIDATE only
            cand = sat_q.abs.path_from_model(sat_q.answers["cvc5"].model)
            extra["candidate_path"] = cand
            extra["candidate_query"] = sat_q.name
            status = "inconclusive"
            why = "abstract counter-path for %s (%d effects); candidate only" % (sat_q.name, len(cand))
            if ob.concretise is not None and wit_ok:
                try:
                    status, why = ob.concretise(ctx, sat_q.name, cand)
                except Exception as e:
                    status, why = "inconclusive", "concretisation failed: %s" % e
            reasons.append(why)
        report(ctx, shim, status, cross, round(secs, 1), len(allq), wit_ok, model, reasons, extra)


def native_verdict(ctx, obname, nat, main_rs, crate, append, features=(), default_features=True, note=""):
    """Run a concretised scenario through the real code. -> (status, text); writes the replay + VIOLATION line if it fails."""
    import re
    rc, out, err = nat.run(main_rs)
    if rc is None:
        return "inconclusive", "concretised scenario did not build/run: %s" % err[-300:]
    if rc == 0:
        return "inconclusive", "candidate path does not reproduce natively with the property's oracle (%s)" % out.strip()[-200:]
    m = re.search(r"panicked at ([^\n]*)\n([^\n]*)", err)
    msg = (m.group(1) + " " + m.group(2)).strip() if m else err.strip()[-200:]
    ob = Obligation(obname, None, [], "", [], crate=crate, features=features, default_features=default_features, append=append)
    k = known_match(ctx, ob, msg)
    if k is not None:
        line = "KNOWN-FINDING: property=%s %s" % (ctx.prop, k["what"])
        if line not in ctx.known_hits:
            ctx.known_hits.append(line)
            say(line)
        return "violated", "reproduced natively (%s); listed in known_findings.json" % msg[:200]
    rdir = os.path.join(VERIF, "replays", ctx.prop)
    os.makedirs(rdir, exist_ok=True)
    path = os.path.join(rdir, obname + ".rs")
    with open(path, "w") as f:
        f.write(replay_file_text(ctx.prop, ob, main_rs, "%s ; native: %s" % (note, msg)))
    rel = os.path.relpath(path, VERIF)
    ctx.violations.append(("smt:" + obname, rel))
    say("VIOLATION property=%s replay=%s" % (ctx.prop, rel))
    return "violated", "concretised and reproduced natively: %s" % msg[:240]
