"""mir2smt: rustc MIR text dump -> SMT-LIB2 (integer encoding), decided by cvc5, cross-checked by z3.

See README.md in this directory for the supported subset, the trusted summaries and how the
translator is validated on every run."""


class Unsupported(Exception):
    """A MIR construct / callee outside the supported subset. Always makes the obligations that
    depend on the encoding INCONCLUSIVE (fail closed), never 'holds'."""
