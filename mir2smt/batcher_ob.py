"""C08 arithmetic obligations on emit_batcher::{Delay, Retry, Capacity} (private items of batcher/src/lib.rs).

The constants (`Delay::new(..)`, `Retry::new(..)` arguments) are read from the MIR of `bounded` on every run.
Native validation / replay reaches the private items through an add-only wrapper module appended to a copy of
the scratch tree (WRAPPER below: constructors from explicit state + one call, no logic of the code under test)."""
from . import Unsupported, smt, summaries
from .program import Program
from .smt import b_and, b_or, b_not, b_eq, i_eq, i_lt, i_le, i_ge, i_add, in_range, ite
from .symex import Executor, Agg, IntV, BoolV, RefV, duration
from .engine import Encoding, Query
from .driver import Obligation

U32_MAX = (1 << 32) - 1
USIZE_MAX = (1 << 64) - 1
NANOS = 1_000_000_000
FILE = "batcher/src/lib.rs"

WRAPPER = '''
#[doc(hidden)]
#[allow(dead_code, missing_docs)]
pub mod __m2s_verif {
    // appended by /verif/mir2smt (add-only): state constructors + one call each, for native validation / replay
    use super::*;

    pub fn delay_next(current: Duration, step: Duration, max: Duration) -> (Duration, Duration, Duration, Duration) {
        let mut d = Delay { current, step, max };
        let r = d.next();
        (r, d.current, d.step, d.max)
    }

    pub fn delay_reset(current: Duration, step: Duration, max: Duration) -> (Duration, Duration, Duration) {
        let mut d = Delay { current, step, max };
        d.reset();
        (d.current, d.step, d.max)
    }

    pub fn retry_next(current: u32, max: u32) -> (bool, u32, u32) {
        let mut r = Retry { current, max };
        let b = r.next();
        (b, r.current, r.max)
    }

    pub fn retry_reset_then(current: u32, max: u32, n: usize) -> Vec<bool> {
        let mut r = Retry { current, max };
        r.reset();
        (0..n).map(|_| r.next()).collect()
    }

    pub fn capacity_next(rolling_values: [usize; CAPACITY_WINDOW], idx: usize, last_len: usize) -> (usize, [usize; CAPACITY_WINDOW], usize) {
        let mut c = Capacity { rolling_values, idx };
        let r = c.next(last_len);
        (r, c.rolling_values, c.idx)
    }
}
'''

FN = "emit_batcher::%s"


# ---------------------------------------------------------------- constants of `bounded`

def read_constants(P):
    """-> {"delays": [((s, n) step, (s, n) max)], "retry_max": [int]} from the MIR of `bounded`."""
    body = P.find_free_fn("bounded")
    ex = Executor(P, summaries=summaries)
    const_calls = {}
    for b in body.blocks.values():
        t = b.term
        if t and t[0] == "call" and t[1] is not None and t[1][0] == "local" and all(a[0] == "const" for a in t[3]):
            const_calls[t[1][1]] = (t[2], t[3])

    def dur_of(op):
        if op[0] not in ("move", "copy") or op[1][0] != "local" or op[1][1] not in const_calls:
            raise Unsupported("Delay::new argument is not a constant Duration constructor call in `bounded`")
        callee, args = const_calls[op[1][1]]
        pc = Program.parse_callee(callee)
        fn = summaries.lookup(pc)
        if fn is None or pc["self_ty"] != "Duration":
            raise Unsupported("Delay::new argument built by %s" % callee)
        ex.cur_where = "bounded"
        v, g = fn(ex, pc, [ex.const_value(a[1]) for a in args], {}, True)
        s, n = v.fields[0].t, v.fields[1].t
        if not (isinstance(s, int) and isinstance(n, int)) or ex.panics:
            raise Unsupported("Delay::new argument did not fold to a constant")
        return (s, n)

    out = {"delays": [], "retry_max": []}
    for b in body.blocks.values():
        t = b.term
        if not (t and t[0] == "call"):
            continue
        pc = Program.parse_callee(t[2])
        if pc["self_ty"] == "Delay" and pc["method"] == "new":
            out["delays"].append((dur_of(t[3][0]), dur_of(t[3][1])))
        if pc["self_ty"] == "Retry" and pc["method"] == "new":
            v = ex.const_value(t[3][0][1]) if t[3][0][0] == "const" else None
            if not (isinstance(v, IntV) and isinstance(v.t, int)):
                raise Unsupported("Retry::new argument is not a constant in `bounded`")
            out["retry_max"].append(v.t)
    if not out["delays"] or not out["retry_max"]:
        raise Unsupported("`bounded` no longer calls Delay::new / Retry::new with constants")
    return out


# ---------------------------------------------------------------- encodings

def _enc(name, P, build):
    ex = Executor(P, summaries=summaries)
    e = Encoding(name, ex)
    try:
        build(e, ex)
    except Unsupported as u:
        e.error = "unsupported MIR in encoding %s: %s" % (name, u)
    return e


def _dur_terms(v):
    if not (isinstance(v, Agg) and v.name == "Duration"):
        raise Unsupported("expected a Duration, got %r" % (v,))
    return v.fields[0].t, v.fields[1].t


def build_encodings(P, consts):
    encs = {}
    seq_n = max(consts["retry_max"]) + 2
    if seq_n > 64:
        raise Unsupported("retry budget %d too large for the unrolled sequence obligation" % (seq_n - 2))

    def delay(e, ex):
        S = ex.S
        names = ["cur_s", "cur_n", "step_s", "step_n", "max_s", "max_n"]
        t = [S.declare_int(n, *smt.ty_range("u64" if n.endswith("_s") else "u32")) for n in names]
        st = {("ext", "delay"): Agg("struct", "Delay", [duration(t[0], t[1]), duration(t[2], t[3]), duration(t[4], t[5])])}
        ex.tag = "next"
        rv, st, g = ex.exec_body(P.find_fn("Delay", "next"), [RefV(("ext", "delay"))], st, True)
        rs, rn = _dur_terms(rv)
        d = st[("ext", "delay")]
        e.inputs = list(zip(names, t))
        e.outputs = [("ret_s", rs), ("ret_n", rn)]
        for lab, f in zip(("cur", "step", "max"), d.fields):
            s, n = _dur_terms(f)
            e.outputs += [("st_%s_s" % lab, s), ("st_%s_n" % lab, n)]
        e.ret_guard = g
        # reset on an independent copy of the same symbolic state
        st2 = {("ext", "delay2"): Agg("struct", "Delay", [duration(t[0], t[1]), duration(t[2], t[3]), duration(t[4], t[5])])}
        ex.tag = "reset"
        _, st2, g2 = ex.exec_body(P.find_fn("Delay", "reset"), [RefV(("ext", "delay2"))], st2, True)
        d2 = st2[("ext", "delay2")]
        e.reset_guard = g2
        e.reset_out = [x for f in d2.fields for x in _dur_terms(f)]

    def retry(e, ex):
        S = ex.S
        cur = S.declare_int("current", *smt.ty_range("u32"))
        mx = S.declare_int("max", *smt.ty_range("u32"))
        st = {("ext", "retry"): Agg("struct", "Retry", [IntV("u32", cur), IntV("u32", mx)])}
        ex.tag = "next"
        rv, st, g = ex.exec_body(P.find_fn("Retry", "next"), [RefV(("ext", "retry"))], st, True)
        if not isinstance(rv, BoolV):
            raise Unsupported("Retry::next did not return bool")
        r = st[("ext", "retry")]
        e.inputs = [("current", cur), ("max", mx)]
        e.outputs = [("ret", rv.t), ("st_current", r.fields[0].t), ("st_max", r.fields[1].t)]
        e.ret_guard = g

    def retry_seq(e, ex):
        S = ex.S
        cur = S.declare_int("current", *smt.ty_range("u32"))
        mx = S.declare_int("max", *smt.ty_range("u32"))
        st = {("ext", "retry"): Agg("struct", "Retry", [IntV("u32", cur), IntV("u32", mx)])}
        ex.tag = "reset"
        _, st, g = ex.exec_body(P.find_fn("Retry", "reset"), [RefV(("ext", "retry"))], st, True)
        e.inputs = [("current", cur), ("max", mx)]
        e.outputs = []
        nxt = P.find_fn("Retry", "next")
        for k in range(1, seq_n + 1):
            ex.tag = "next#%d" % k
            rv, st, g = ex.exec_body(nxt, [RefV(("ext", "retry"))], st, g)
            e.outputs.append(("r%d" % k, rv.t))
        e.ret_guard = g
        e.seq_n = seq_n

    def capacity(e, ex):
        S = ex.S
        body = P.find_fn("Capacity", "next")
        n = None
        import re
        m = re.match(r"^\[usize; (\d+)\]$", "")
        for l, ty in body.locals.items():
            mm = re.match(r"^&\[usize; (\d+)\]$", ty)
            if mm:
                n = int(mm.group(1))
        if n is None or n > 128:
            raise Unsupported("Capacity::rolling_values is no longer a small [usize; N]")
        vals = [S.declare_int("v%d" % k, *smt.ty_range("usize")) for k in range(n)]
        idx = S.declare_int("idx", *smt.ty_range("usize"))
        ll = S.declare_int("last_len", *smt.ty_range("usize"))
        st = {("ext", "cap"): Agg("struct", "Capacity", [Agg("array", None, [IntV("usize", v) for v in vals]), IntV("usize", idx)])}
        ex.tag = "next"
        rv, st, g = ex.exec_body(body, [RefV(("ext", "cap")), IntV("usize", ll)], st, True)
        c = st[("ext", "cap")]
        e.inputs = [("v%d" % k, v) for k, v in enumerate(vals)] + [("idx", idx), ("last_len", ll)]
        e.outputs = [("ret", rv.t), ("st_idx", c.fields[1].t)] + [("st_v%d" % k, f.t) for k, f in enumerate(c.fields[0].fields)]
        e.ret_guard = g
        e.window = n

    for n, f in (("delay", delay), ("retry", retry), ("retry_seq", retry_seq), ("capacity", capacity)):
        encs[n] = _enc(n, P, f)
    return encs


# ---------------------------------------------------------------- native validation program

def _d(x):
    return "Duration::new(%d, %d)" % x


def native_main(consts, window):
    src = ["use emit_batcher::__m2s_verif as v;", "use std::time::Duration;",
           "fn guard<F: FnOnce() -> String + std::panic::UnwindSafe>(f: F) -> String { match std::panic::catch_unwind(f) { Ok(s) => s, Err(_) => \"PANIC\".to_string() } }",
           "fn d(x: Duration) -> String { format!(\"{} {}\", x.as_secs(), x.subsec_nanos()) }",
           "fn main() {", "    std::panic::set_hook(Box::new(|_| {}));"]
    # Delay: 14 consecutive calls from ZERO for each constant pair, plus edge states
    for i, (step, mx) in enumerate(consts["delays"]):
        src.append("    { let mut cur = Duration::ZERO; for k in 0..14 { let (s, m) = (%s, %s);" % (_d(step), _d(mx)))
        src.append("        let c0 = cur; let line = guard(move || { let (r, c, s2, m2) = v::delay_next(c0, s, m); format!(\"{} {} {} {}\", d(r), d(c), d(s2), d(m2)) });")
        src.append("        println!(\"DL seq%d_{} IN {} {} {} OUT {}\", k, d(c0), d(s), d(m), line);" % i)
        src.append("        if line != \"PANIC\" { let w: Vec<u64> = line.split(' ').map(|x| x.parse().unwrap()).collect(); cur = Duration::new(w[2], w[3] as u32); } } }")
    edge = [((0, 999999999), (0, 1), (10, 0)), ((5, 0), (0, 700000000), (10, 0)), ((10, 0), (0, 700000000), (10, 0)),
            ((9223372036854775808, 0), (0, 1), (18446744073709551615, 0)), ((3, 500000000), (1, 600000000), (100, 5))]
    for i, (c, s, m) in enumerate(edge):
        src.append("    { let line = guard(|| { let (r, c, s2, m2) = v::delay_next(%s, %s, %s); format!(\"{} {} {} {}\", d(r), d(c), d(s2), d(m2)) });" % (_d(c), _d(s), _d(m)))
        src.append("      println!(\"DL edge%d IN {} {} {} OUT {}\", d(%s), d(%s), d(%s), line); }" % (i, _d(c), _d(s), _d(m)))
    rmax = consts["retry_max"][0]
    for i, (c, m) in enumerate([(0, rmax), (rmax - 1, rmax), (rmax, rmax), (rmax + 1, rmax), (0, 0), (U32_MAX - 1, U32_MAX), (U32_MAX, rmax), (7, 3)]):
        src.append("    println!(\"RN v%d IN %d %d OUT {}\", guard(|| { let (b, c, m) = v::retry_next(%d, %d); format!(\"{} {} {}\", b as u8, c, m) }));" % (i, c, m, c, m))
    n = max(consts["retry_max"]) + 2
    for i, (c, m) in enumerate([(0, rmax), (5, rmax), (U32_MAX, rmax), (3, 0), (9, 1)]):
        src.append("    println!(\"RS v%d IN %d %d OUT {}\", guard(|| v::retry_reset_then(%d, %d, %d).iter().map(|b| (*b as u8).to_string()).collect::<Vec<_>>().join(\" \")));" % (i, c, m, c, m, n))
    # Capacity: the repo's own `capacity` test sequence, then edge states
    src.append("    { let mut vals = [0usize; %d]; let mut idx = 0usize; let mut k = 0;" % window)
    src.append("      let mut lens: Vec<usize> = vec![10, 5, 100]; for _ in 0..%d { lens.push(0); } lens.push(0);" % window)
    src.append("      for ll in lens { let (r, nv, ni) = v::capacity_next(vals, idx, ll);")
    src.append("        println!(\"CP test{} IN {} {} {} OUT {} {} {}\", k, idx, ll, vals.iter().map(|x| x.to_string()).collect::<Vec<_>>().join(\" \"), r, ni, nv.iter().map(|x| x.to_string()).collect::<Vec<_>>().join(\" \"));")
    src.append("        vals = nv; idx = ni; k += 1; } }")
    for i, (fill, idx, ll) in enumerate([(0, USIZE_MAX, USIZE_MAX), (7, USIZE_MAX - 1, 3), (USIZE_MAX, 31, 0), (9, 33, 95), (1000, 64, 1000)]):
        src.append("    { let vals = [%dusize; %d]; let line = guard(move || { let (r, nv, ni) = v::capacity_next(vals, %d, %d); format!(\"{} {} {}\", r, ni, nv.iter().map(|x| x.to_string()).collect::<Vec<_>>().join(\" \")) });" % (fill, window, idx, ll))
        src.append("      println!(\"CP edge%d IN %d %d {} OUT {}\", vals.iter().map(|x| x.to_string()).collect::<Vec<_>>().join(\" \"), line); }" % (i, idx, ll))
    src.append("}")
    return "\n".join(src) + "\n"


def validation_vectors(stdout, window, seq_n):
    v = {"delay": [], "retry": [], "retry_seq": [], "capacity": []}
    problems = []
    for ln in stdout.split("\n"):
        w = ln.split()
        if len(w) < 4 or w[0] not in ("DL", "RN", "RS", "CP") or "IN" not in w or "OUT" not in w:
            continue
        i, o = w.index("IN"), w.index("OUT")
        ins, outs = w[i + 1:o], w[o + 1:]
        panic = outs == ["PANIC"]
        try:
            if w[0] == "DL":
                names = ["cur_s", "cur_n", "step_s", "step_n", "max_s", "max_n"]
                onames = ["ret_s", "ret_n", "st_cur_s", "st_cur_n", "st_step_s", "st_step_n", "st_max_s", "st_max_n"]
                v["delay"].append((w[1], dict(zip(names, map(int, ins))),
                                   {"panic": panic, "out": {} if panic else dict(zip(onames, map(int, outs)))}))
            elif w[0] == "RN":
                out = {} if panic else {"ret": outs[0] == "1", "st_current": int(outs[1]), "st_max": int(outs[2])}
                v["retry"].append((w[1], {"current": int(ins[0]), "max": int(ins[1])}, {"panic": panic, "out": out}))
            elif w[0] == "RS":
                out = {} if panic else {"r%d" % (k + 1): x == "1" for k, x in enumerate(outs)}
                if not panic and len(outs) != seq_n:
                    problems.append("RS %s: %d results, expected %d" % (w[1], len(outs), seq_n))
                v["retry_seq"].append((w[1], {"current": int(ins[0]), "max": int(ins[1])}, {"panic": panic, "out": out}))
            else:
                inp = {"idx": int(ins[0]), "last_len": int(ins[1])}
                inp.update({"v%d" % k: int(x) for k, x in enumerate(ins[2:])})
                out = {}
                if not panic:
                    out = {"ret": int(outs[0]), "st_idx": int(outs[1])}
                    out.update({"st_v%d" % k: int(x) for k, x in enumerate(outs[2:])})
                    if len(ins) - 2 != window or len(outs) - 2 != window:
                        problems.append("CP %s: window size mismatch" % w[1])
                v["capacity"].append((w[1], inp, {"panic": panic, "out": out}))
        except ValueError as e:
            problems.append("unparsable native line %r: %s" % (ln[:80], e))
    for k, need in (("delay", 20), ("retry", 6), ("retry_seq", 3), ("capacity", 30)):
        if len(v[k]) < need:
            problems.append("native validation program printed only %d %s vectors" % (len(v[k]), k))
    return v, problems


# ---------------------------------------------------------------- obligations

def _dle(a, b):
    """Duration a <= b, lexicographic on (secs, nanos)"""
    return b_or(i_lt(a[0], b[0]), b_and(i_eq(a[0], b[0]), i_le(a[1], b[1])))


def _any(ps):
    return b_or(*[p.guard for p in ps]) if ps else False


RUST_HEAD = "use emit_batcher::__m2s_verif as v;\nuse std::time::Duration;\n\n"


def obligations(encs, consts):
    obs = []
    app = [(FILE, WRAPPER)]

    e = encs["delay"]
    q = []
    if not e.error:
        i, o = dict(e.inputs), dict(e.outputs)
        cur, ret = (i["cur_s"], i["cur_n"]), (o["ret_s"], o["ret_n"])
        for k, (step, mx) in enumerate(consts["delays"]):
            pre = b_and(i_eq(i["step_s"], step[0]), i_eq(i["step_n"], step[1]), i_eq(i["max_s"], mx[0]), i_eq(i["max_n"], mx[1]),
                        i_lt(i["cur_n"], NANOS), _dle(cur, mx))
            tagname = "step%d.%09ds_max%d.%09ds" % (step + mx)
            q.append(Query("O6_delay_next_panic_free_" + tagname, e, [pre, _any(e.panics("next"))], fast_z3=True))
            post = b_and(_dle(cur, ret), _dle(ret, mx), i_lt(o["ret_n"], NANOS),
                         i_eq(o["st_cur_s"], o["ret_s"]), i_eq(o["st_cur_n"], o["ret_n"]),
                         i_eq(o["st_step_s"], step[0]), i_eq(o["st_step_n"], step[1]),
                         i_eq(o["st_max_s"], mx[0]), i_eq(o["st_max_n"], mx[1]))
            q.append(Query("O6_delay_next_monotone_bounded_" + tagname, e, [pre, e.ret_guard, b_not(post)], fast_z3=True))
        r = e.reset_out
        q.append(Query("O6_delay_reset", e, [b_or(_any(e.panics("reset")), b_not(e.reset_guard), b_not(b_and(
            i_eq(r[0], 0), i_eq(r[1], 0), i_eq(r[2], i["step_s"]), i_eq(r[3], i["step_n"]), i_eq(r[4], i["max_s"]), i_eq(r[5], i["max_n"]))))],
            fast_z3=True))

    def r_delay(m):
        return (RUST_HEAD + "fn main() {\n    let (cur, step, max) = (Duration::new(%d, %d), Duration::new(%d, %d), Duration::new(%d, %d));\n"
                "    if !(cur <= max) { println!(\"model outside the invariant current <= max: not a counterexample\"); return; }\n"
                "    let (r, c, s2, m2) = v::delay_next(cur, step, max); // an overflow panic here also reproduces\n"
                "    assert!(r >= cur && r <= max && c == r && s2 == step && m2 == max, \"Delay::next: {:?} -> {:?}\", cur, r);\n}\n"
                % (m["cur_s"], m["cur_n"], m["step_s"], m["step_n"], m["max_s"], m["max_n"]))

    obs.append(Obligation("O6_delay_next", e, [FN % "Delay::next", FN % "Delay::reset"],
                          "inductive step from every state with current <= max (nanos < 1e9), for each (step, max) pair that `bounded` passes to "
                          "Delay::new (read from its MIR: %s): no overflow panic, old current <= result <= max, state stays in the invariant; "
                          "reset re-establishes it" % ", ".join("step %d.%09ds max %d.%09ds" % (s + m) for s, m in consts["delays"]),
                          q, r_delay, crate="batcher", default_features=True, append=app))

    e = encs["retry"]
    es = encs["retry_seq"]
    q = []
    rmax = consts["retry_max"]
    if not e.error:
        i, o = dict(e.inputs), dict(e.outputs)
        # what the property needs from one call: the attempt counter strictly advances and a `true` is only handed
        # out while the counter is within the budget (=> at most `max` trues after a reset)
        q.append(Query("O6_retry_next_step", e, [i_lt(i["current"], U32_MAX), b_or(
            _any(e.panics()), b_not(e.ret_guard),
            b_not(b_and(i_eq(o["st_current"], i_add(i["current"], 1)), i_eq(o["st_max"], i["max"]),
                        smt.b_implies(o["ret"], i_le(i_add(i["current"], 1), i["max"])))))], fast_z3=True))
        for mx in rmax:
            q.append(Query("O6_retry_next_in_budget_max%d" % mx, e, [i_eq(i["max"], mx), i_le(i["current"], mx), b_or(
                _any(e.panics()), b_not(e.ret_guard), b_not(i_le(o["st_current"], mx + 1)))], fast_z3=True))

    def r_retry(m):
        return (RUST_HEAD + "fn main() {\n    let (current, max) = (%du32, %du32);\n"
                "    let (b, c, m) = v::retry_next(current, max); // an overflow panic here also reproduces\n"
                "    assert!(c == current + 1 && m == max && (!b || c <= max), \"Retry::next: ({}, {}) -> ({}, {}, {})\", current, max, b, c, m);\n}\n"
                % (m["current"], m["max"]))

    obs.append(Obligation("O6_retry_next_step", e, [FN % "Retry::next"],
                          "every state with current < u32::MAX and every max: current' = current + 1, result true only if current' <= max; "
                          "for the budget of `bounded` (max = %s, from its MIR) and current <= max: no overflow, current' <= max + 1. "
                          "NOTE: with max = u32::MAX the (max+1)-th call would overflow; no constructor call in the crate uses it"
                          % ",".join(map(str, rmax)), q, r_retry, crate="batcher", default_features=True, append=app))
    q = []
    if not es.error:
        i, o = dict(es.inputs), dict(es.outputs)
        for mx in rmax:
            # at most `max` trues: every call after the max-th is refused
            want = b_and(*[b_not(o["r%d" % k]) for k in range(mx + 1, es.seq_n + 1)])
            q.append(Query("O6_retry_true_at_most_max%d_times" % mx, es, [i_eq(i["max"], mx), b_or(
                _any(es.panics()), b_not(es.ret_guard), b_not(want))], fast_z3=True))

    def r_retry_seq(m):
        return (RUST_HEAD + "fn main() {\n    let rs = v::retry_reset_then(%du32, %du32, %d); // an overflow panic here also reproduces\n"
                "    let trues = rs.iter().filter(|b| **b).count();\n"
                "    assert!(trues <= %d && rs.iter().skip(%d).all(|b| !*b), \"Retry after reset: {:?}\", rs);\n}\n"
                % (m["current"], m["max"], getattr(es, "seq_n", 12), m["max"], m["max"]))

    obs.append(Obligation("O6_retry_true_at_most_max_times", es, [FN % "Retry::reset", FN % "Retry::next"],
                          "reset from any state, then max+2 = %d consecutive calls of next with the budget of `bounded` (max = %s): "
                          "every call after the max-th returns false (at most max attempts are granted), no overflow" % (getattr(es, "seq_n", 0), ",".join(map(str, rmax))),
                          q, r_retry_seq, crate="batcher", default_features=True, append=app))

    e = encs["capacity"]
    q = []
    if not e.error:
        i, o = dict(e.inputs), dict(e.outputs)
        n = e.window
        post = [i_ge(o["ret"], i["last_len"]), i_le(o["ret"], USIZE_MAX)]
        for k in range(n):
            post.append(i_ge(o["ret"], o["st_v%d" % k]))
        q.append(Query("O6_capacity_next_panic_free", e, [_any(e.panics())], fast_z3=True))
        q.append(Query("O6_capacity_next_ge_needed", e, [e.ret_guard, b_not(b_and(*post))], fast_z3=True))

    def r_cap(m):
        n = getattr(e, "window", 32)
        vals = ", ".join("%dusize" % m["v%d" % k] for k in range(n))
        return (RUST_HEAD + "fn main() {\n    let vals = [%s];\n    let (idx, last_len) = (%dusize, %dusize);\n"
                "    let (r, nv, ni) = v::capacity_next(vals, idx, last_len); // a panic here also reproduces\n"
                "    let _ = ni;\n    assert!(r >= last_len && nv.iter().all(|x| r >= *x), \"Capacity::next({}) = {} with window {:?}\", last_len, r, nv);\n}\n" % (vals, m["idx"], m["last_len"]))

    obs.append(Obligation("O6_capacity_next", e, [FN % "Capacity::next"],
                          "every window content ([usize; N] with N read from the MIR), every idx and last_len in usize: no panic "
                          "(index, unwrap of the window maximum, division), result >= last_len and >= every entry of the updated window, no overflow (saturating)",
                          q, r_cap, crate="batcher", default_features=True, append=app))
    return obs
